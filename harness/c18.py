"""C18 — measurement schedules.

Correspondence: the real generators of fermion_partitioning.py / qubit_partitioning.py and the Lean
Model (OFV.Model.C18, C18Qubit) are run on the same inputs and their yields compared exactly, in
order (here the order of yields *is* what the Model mirrors).  Oracle: the executable Spec predicates
of OFV.Spec.C18 (the property statement: matchings, pair / cross-pair / four-label coverage,
perfect splitting of k-subsets, Pauli words, tensor-product-basis groups) are evaluated by the driver
on the implementation's own yields, plus an independent set-based Python brute force for the
four-label coverage on the larger label counts."""
import itertools

from common import Stream, budget, rng_for, to_gq, enc_op, enc_term, dec_term, show

TRUSTED = [
    'C18: numpy.random.RandomState(seed).shuffle(list) is replaced by a recording shim that shuffles an index list of the same length with the same RandomState and applies it (checked on every integer-seed case against the unpatched function); the Model takes the recorded permutations as a parameter and the theorems hold for arbitrary index lists',
    'C18: numpy.ceil(numpy.log2(n)) and numpy.log2(K+1)*L**2 < K**2 are modelled in exact integer arithmetic (clog2; (K+1)^(L^2) < 2^(K^2)); float rounding of log2 is trusted for n, K < 2^20',
]
ASSUMPTIONS = [
    'labels are pairwise distinct, hashable, not None and not tuples (the code tests `is None` and tuple structure)',
    'pair_within_simultaneously_binned: the number of bins is a power of two (bin_index ^ bin_gap must be a bin index) and at least one bin is non-empty (with only empty bins the code recurses without bound: RecursionError, reported once as an observation, not covered by the statement)',
    'partition_iterator: partition_size >= 1; group_into_tensor_product_basis_sets: coefficients are 0 or dyadic with |c| >= 1e-8 (exact regime)',
]
OPEN_STATEMENTS = [
    'Every clause of the property is a theorem about the Model; outside the theorems: tpb_groups_spec is proved under the hypothesis PermsCover (every shuffle lists each current basis at least once) and tpb_groups_spec_permutations derives it from the natural hypothesis that every recorded shuffle is a permutation of the current basis indices; that numpy.random.RandomState.shuffle produces a permutation is part of the trusted base (the recorded shuffles are checked to reproduce the unpatched call).',
    'binary_partition_iterator / partition_iterator with an explicit num_iterations = it: PROVED for every budget it >= 1 with n <= 2^it (binary_partition_explicit_spec, partition_iterator_explicit_spec), and a smaller budget yields a prefix of a larger one (binary_partition_prefix); budgets with 2^it < n do not split every pair (no statement; correspondence only).',
    'helper generators: _gen_partitions (gen_partitions_spec: contiguous balanced partitions), _parallel_iter (parallel_iter_spec: exactly the non-empty rows), _get_padding (get_padding_spec) and _asynchronous_iter (async_iter_covers) have theorems; _gen_pairings_between_partitions (gen_pairings_between_spec: non-empty, perfect matchings of both parts, every in-half pair co-scheduled with every cross pair of the complementary halves) and _loop_iterator (loop_iterator_spec) have theorems too; pair_within schedules every pair EXACTLY once (pair_within_exactly_once), pair_between every cross pair exactly once (pair_between_spec).',
]


# ---------------------------------------------------------------- encoding

def enc_lab(x):
    return None if x is None else int(x)


def enc_item(it):
    if isinstance(it, tuple):
        if len(it) == 2 and not isinstance(it[0], (tuple, list)) and not isinstance(it[1], (tuple, list)):
            return [enc_lab(it[0]), enc_lab(it[1])]
        return 'bad'
    if isinstance(it, list):
        return 'bad'
    return enc_lab(it)


def enc_pairing(p):
    return [enc_item(it) for it in p]


class _Timeout(Exception):
    pass


def _alarm(_signum, _frame):
    raise _Timeout()


# after this many calls of the implementation ran into the time limit the remaining calls are not
# attempted any more (they are reported as skipped): a hanging implementation must not hang the check
_MAX_TIMEOUTS = 4
_timeouts = [0]


def _collect_raw(gen_fn, *args, limit=20000, seconds=10):
    """run a generator function of the implementation -> (list of yields, exception name or None);
    a call that does not finish within `seconds` (or yields without end) is reported, never waited for"""
    import signal
    out = []
    if _timeouts[0] >= _MAX_TIMEOUTS:
        return out, 'Timeout(skipped)'
    old = signal.signal(signal.SIGALRM, _alarm)
    signal.setitimer(signal.ITIMER_REAL, seconds)
    try:
        for y in gen_fn(*args):
            out.append(y)
            if len(out) > limit:
                _timeouts[0] += 1
                return out, 'too-many-yields'
    except _Timeout:
        _timeouts[0] += 1
        return out, 'Timeout(%ds)' % seconds
    except RecursionError:
        return out, 'RecursionError'
    except Exception as e:  # noqa: BLE001
        return out, type(e).__name__
    finally:
        signal.setitimer(signal.ITIMER_REAL, 0)
        signal.signal(signal.SIGALRM, old)
    return out, None


def _call1_raw(fn, *args, seconds=10):
    """plain call of the implementation with the same time limit -> (value, exception name or None)"""
    import signal
    if _timeouts[0] >= _MAX_TIMEOUTS:
        return None, 'Timeout(skipped)'
    old = signal.signal(signal.SIGALRM, _alarm)
    signal.setitimer(signal.ITIMER_REAL, seconds)
    try:
        return fn(*args), None
    except _Timeout:
        _timeouts[0] += 1
        return None, 'Timeout(%ds)' % seconds
    except RecursionError:
        return None, 'RecursionError'
    except Exception as e:  # noqa: BLE001
        return None, type(e).__name__
    finally:
        signal.setitimer(signal.ITIMER_REAL, 0)
        signal.signal(signal.SIGALRM, old)



# ---------------------------------------------------------------- hardening: state / aliasing / containers
# (S) every sampled call is repeated after an in-place modification of every mutable value the first call
#     returned, with fresh equal arguments: the second result must equal the first; arguments must come back
#     unmodified.  (T) container / numeric-type variants of the arguments are used when the unmodified
#     functions accept them (probed once per run: same result as with the plain types, no exception).

_H = {'stream': None, 'rng': None, 'rate': 0.0}


def harden(stream, rng, rate):
    _H['stream'], _H['rng'], _H['rate'] = stream, rng, rate
    stream.rule += ('; label lists are given as lists / tuples / lists of numpy.int64 or numpy.int32 / int64 arrays and integer '
                    'arguments as int / numpy.int64 / numpy.int32 wherever the pinned tree accepts them (table BASELINE); half of '
                    'the label sets start at 300 or 70000 (beyond the CPython small-int cache)')
    stream.rule += ('; state checks: every call must leave its arguments unmodified, and on a sample of the calls (all of '
                    'them in the thorough tier) the returned lists / arrays / dicts / operators are modified in place and the '
                    'call is repeated with equal fresh arguments: same result required')


def norm(x):
    """container- and numpy-type-insensitive normal form (tuples / arrays -> lists, numpy scalars -> Python)"""
    import numpy
    if x is None or isinstance(x, str):
        return x
    if isinstance(x, (bool, numpy.bool_)):
        return bool(x)
    if isinstance(x, (int, numpy.integer)):
        return int(x)
    if isinstance(x, (float, numpy.floating)):
        return float(x)
    if isinstance(x, (complex, numpy.complexfloating)):
        return [float(x.real), float(x.imag)]
    if isinstance(x, (list, tuple, numpy.ndarray, range)):
        return [norm(e) for e in x]
    if isinstance(x, dict):
        return sorted(([norm(k), norm(v)] for k, v in x.items()), key=repr)
    if hasattr(x, 'terms'):
        return ['op', norm(x.terms)]
    if hasattr(x, 'one_body') and hasattr(x, 'two_body'):
        return ['dch', norm(x.one_body), norm(x.two_body), norm(getattr(x, 'constant', None))]
    if hasattr(x, '__dict__'):
        return [type(x).__name__, norm(vars(x))]
    return repr(x)


def mutate(x):
    """modify in place every mutable value reachable from a returned object"""
    import numpy
    if isinstance(x, list):
        for e in x:
            mutate(e)
        x.reverse()
        x.append(987654321)        # an integer: a leaked modification still encodes as a (wrong) label
    elif isinstance(x, tuple):
        for e in x:
            mutate(e)
    elif isinstance(x, numpy.ndarray):
        if x.flags.writeable and x.size:
            try:
                x[...] = 0
            except Exception:  # noqa: BLE001
                pass
    elif isinstance(x, dict):
        for e in list(x.values()):
            mutate(e)
        x.clear()
    elif hasattr(x, 'terms') and isinstance(x.terms, dict):
        x.terms.clear()


# functions of the unmodified tree whose yields contain the argument list itself
_ALIAS_OK = ('_gen_partitions', 'partition_iterator')


def enc_arg(x):
    """replayable encoding of an argument (keeps tuple / list / numpy distinctions)"""
    import numpy
    if x is None or isinstance(x, (bool, int, str)):
        return x
    if isinstance(x, numpy.integer):
        return {'np': type(x).__name__, 'v': int(x)}
    if isinstance(x, tuple):
        return {'t': [enc_arg(e) for e in x]}
    if isinstance(x, list):
        return [enc_arg(e) for e in x]
    if isinstance(x, numpy.ndarray) and x.ndim == 1 and x.dtype.kind == 'i':
        return {'nd': str(x.dtype), 'v': [int(e) for e in x]}
    return {'repr': show(norm(x), 400)}


def dec_arg(x):
    import numpy
    if isinstance(x, list):
        return [dec_arg(e) for e in x]
    if isinstance(x, dict):
        if 't' in x:
            return tuple(dec_arg(e) for e in x['t'])
        if 'np' in x:
            return getattr(numpy, x['np'])(x['v'])
        if 'nd' in x:
            return numpy.array(x['v'], dtype=x['nd'])
        raise ValueError('not replayable')
    return x


def _checked(what, args, run, repeat=True):
    """run(args) -> (value, exc); adds the (S) checks: arguments unmodified (every call) and, on a sample of the
    calls, a second call with equal arguments after every mutable value returned by the first one was modified"""
    import copy
    import numpy
    s, rng = _H['stream'], _H['rng']
    if s is None:
        return run(args)
    try:
        snap = copy.deepcopy(args)
    except Exception:  # noqa: BLE001
        return run(args)
    before = norm(snap)
    val, exc = run(args)
    if exc is not None:
        return val, exc
    case = {'fn': what, 'state_check': True, 'args': [enc_arg(a) for a in snap]}
    if norm(args) != before:
        s.violate('%s modified its arguments' % what, case, {'after': show(norm(args), 600)})
    if repeat and rng.random() < _H['rate']:
        s.count('second-call-after-mutation')
        try:
            first = copy.deepcopy(val)
        except Exception:  # noqa: BLE001
            return val, exc
        mutate(val)
        if what not in _ALIAS_OK and not any(isinstance(a, numpy.ndarray) for a in args) and norm(args) != before:
            s.violate('%s: modifying the returned values changes the arguments (result aliases an argument)' % what, case, {})
        val2, exc2 = run(copy.deepcopy(snap))
        if exc2 is not None or norm(val2) != norm(first):
            s.violate('%s: a second call with equal arguments, after the values returned by the first call were modified '
                      'in place, gives a different result (state kept between calls / aliased results)' % what,
                      case, {'first': show(norm(first), 600), 'second': show(norm(val2), 600), 'exception': exc2})
        return first, exc
    return val, exc


def replay_state(fn, case):
    """the (S) checks of one recorded call in a fresh process -> True when they pass"""
    import copy
    args = [dec_arg(a) for a in case['args']]
    before = norm(args)

    def run(a):
        r = fn(*a)
        return list(r) if hasattr(r, '__next__') else r
    val = run(args)
    if norm(args) != before:
        return False
    first = copy.deepcopy(val)
    mutate(val)
    return norm(run([dec_arg(a) for a in case['args']])) == norm(first)


_ACCEPT = {}


def accepted(key, run_plain, run_variant):
    """does the unmodified function accept this container / type variant?  probed once per run on small inputs"""
    if key not in _ACCEPT:
        ok = True
        try:
            a, ea = run_plain()
            b, eb = run_variant()
            ok = ea is None and eb is None and norm(a) == norm(b)
        except Exception:  # noqa: BLE001
            ok = False
        _ACCEPT[key] = ok
    return _ACCEPT[key]


def cont(kind, labs):
    import numpy
    if kind == 'tuple':
        return tuple(labs)
    if kind == 'npint_list':
        return [numpy.int64(x) for x in labs]
    if kind == 'ndarray':
        return numpy.array(labs, dtype=numpy.int64)
    if kind == 'int32_list':
        return [numpy.int32(x) for x in labs]
    return list(labs)


KINDS = ['list', 'list', 'tuple', 'npint_list', 'ndarray', 'int32_list']

# what the pinned (unmodified) tree accepts, found with the probes below (same yields as with plain lists / ints on
# every probe input).  These variants are used unconditionally: a tree that rejects one of them, or answers
# differently, fails the ordinary comparison of that case.  Variants the pinned tree rejects (it indexes / concatenates
# lists: pair_within and the functions built on it raise for tuples and arrays) are never used; anything not listed
# either way is probed on the tree under test and only used when it behaves like the plain type there.
BASELINE = set(
    [(f, k) for f in ('pair_between', '_gen_partitions', 'binary_partition_iterator', 'partition_iterator')
     for k in ('tuple', 'npint_list', 'ndarray', 'int32_list')] +
    [(f, k) for f in ('pair_within', 'pair_within_simultaneously', 'binned') for k in ('npint_list', 'int32_list')] +
    [('_gen_pairings_between_partitions', k) for k in ('tuple', 'npint_list', 'int32_list')] +
    [('binned:outer', 'tuple')] +
    [(f, k) for f in ('pair_between:offset', '_get_padding', 'symmetric', 'partition_iterator:int', 'pauli_string_iterator')
     for k in ('int64', 'int32')])
_REJECTED_ON_PINNED = set(
    [f + ':' + k for f in ('pair_within', 'pair_within_simultaneously', 'binned') for k in ('tuple', 'ndarray')] +
    ['_gen_pairings_between_partitions:ndarray'] + ['binned:outer:' + k for k in ('npint_list', 'ndarray', 'int32_list')])


def vary(key, rng, probe):
    """draw a container kind for label lists (the draw does not depend on the implementation); kinds for which
    probe(conv) (results on a fixed family of small inputs) differs from the plain-list results, or raises, on the
    tree under test are replaced by plain lists: never an alarm"""
    kind = rng.choice(KINDS)
    if kind == 'list':
        return kind
    if (key, kind) in BASELINE:
        return kind
    if key + ':' + kind not in _REJECTED_ON_PINNED:
        ok = accepted((key, kind), lambda: (probe(list), None), lambda: (probe(lambda l: cont(kind, l)), None))
        return kind if ok else 'list'
    return 'list'


def probe_gen(gen_of, sizes=range(0, 12)):
    """probe(conv) for a generator function: gen_of(labels, conv) -> iterator"""
    def probe(conv):
        out = []
        for n in sizes:
            ys, exc = _collect_raw(lambda: gen_of(list(range(3, 3 + n)), conv), limit=5000, seconds=5)
            out.append([ys, exc])
        return out
    return probe


INT_KINDS = ['int', 'int', 'int', 'int64', 'int32']


def conv_int(kind, x):
    import numpy
    if x is None or kind == 'int':
        return x
    return numpy.int64(x) if kind == 'int64' else numpy.int32(x)


def vary_int(key, rng, probe):
    """same as vary for integer arguments: Python int / numpy.int64 / numpy.int32"""
    kind = rng.choice(INT_KINDS)
    if kind == 'int' or (key, kind) in BASELINE:
        return kind
    ok = accepted((key, kind), lambda: (probe(lambda x: x), None), lambda: (probe(lambda x: conv_int(kind, x)), None))
    return kind if ok else 'int'


def b3(ctx, quick, drift, thorough):
    """budget with an intermediate level for a quick run after source drift (must stay near two minutes in total)"""
    if ctx.tier != 'quick':
        return thorough
    return drift if ctx.drift else quick


def rate_for(ctx):
    return 1.0 if (ctx.drift or ctx.tier != 'quick') else 0.3



def collect(gen_fn, *args, limit=20000, seconds=10):
    return _checked(getattr(gen_fn, '__name__', 'generator'), list(args),
                    lambda a: _collect_raw(gen_fn, *a, limit=limit, seconds=seconds))


def call1(fn, *args, seconds=10):
    return _checked(getattr(fn, '__name__', 'function'), list(args), lambda a: _call1_raw(fn, *a, seconds=seconds))


def labels_for(rng, n, shift=True):
    """n distinct labels, in random order"""
    # labels beyond the CPython small-int cache (>= 257) are used as often as small ones
    base = rng.choice([rng.randrange(0, 50), rng.randrange(0, 50), 300, 70000]) if shift else 0
    labs = list(range(base, base + n))
    rng.shuffle(labs)
    return labs


# ---------------------------------------------------------------- independent brute force (Python)

def quad_brute(bins, ys):
    """set-based check of the four-label statement on encoded yields -> first uncovered quad or None,
    or ('dup', yield) when a yield uses a label twice"""
    binof = {}
    for i, b in enumerate(bins):
        for x in b:
            binof[x] = i
    cov = set()
    for y in ys:
        prs = []
        flat = []
        for it in y:
            if it == 'bad':
                return ('bad', y)
            if isinstance(it, list):
                prs.append(frozenset(it))
                flat += it
            else:
                flat.append(it)
        if len(set(flat)) != len(flat) or any(x not in binof for x in flat):
            return ('dup', y)
        for p, q in itertools.combinations(prs, 2):
            cov.add(frozenset((p, q)))
    labs = [x for b in bins for x in b]
    for a, b, c, d in itertools.combinations(labs, 4):
        if binof[a] ^ binof[b] ^ binof[c] ^ binof[d]:
            continue
        s1 = frozenset((frozenset((a, b)), frozenset((c, d))))
        s2 = frozenset((frozenset((a, c)), frozenset((b, d))))
        s3 = frozenset((frozenset((a, d)), frozenset((b, c))))
        if s1 not in cov and s2 not in cov and s3 not in cov:
            return (a, b, c, d)
    return None


# ---------------------------------------------------------------- generic compare helper

class Batch:
    """collects (case, implementation answer, model request, oracle requests) and runs the driver once"""

    def __init__(self, ctx, stream):
        self.ctx, self.stream = ctx, stream
        self.items = []

    def add(self, case, impl, req, oracles=(), conv=None):
        self.items.append((case, impl, req, list(oracles), conv))

    def flush(self):
        reqs = []
        for case, impl, req, oracles, conv in self.items:
            if req is not None:
                reqs.append(req)
            reqs += [o[1] for o in oracles]
        ans = self.ctx.driver.run(reqs)
        k = 0
        for case, impl, req, oracles, conv in self.items:
            if req is not None:
                m = ans[k]
                k += 1
                if conv is not None:
                    m = conv(m)
                if m != impl:
                    self.stream.disagree('yields differ', case, _short(impl), _short(m))
            for what, _r, okf in oracles:
                a = ans[k]
                k += 1
                if not okf(a):
                    self.stream.violate(what, case, {'oracle_answer': a, 'implementation': _short(impl)})
        self.items = []


def _short(x):
    s = show(x, 1500)
    return s


def is_true(a):
    return a is True


def ok_field(a):
    return isinstance(a, dict) and a.get('ok') is True


# ---------------------------------------------------------------- streams

def stream_pair_between(ctx, fp):
    s = Stream('pair_between', 'all fragment lengths (a, b) up to the bound with start_offset 0 (and 1, 2 on a sample), '
               'distinct shuffled integer labels; yields compared in order with the Model; Spec: every yield is a matching of '
               'all labels with |a-b| leftovers and every cross pair occurs exactly once (offset 0); non-trivial = a, b >= 1')
    rng = rng_for(ctx.seed, 'c18-pb')
    harden(s, rng_for(ctx.seed, 'c18-pb-state'), rate_for(ctx))
    nmax = b3(ctx, 14, 28, 40)
    b = Batch(ctx, s)
    probe = probe_gen(lambda l, conv: fp.pair_between(conv(l[:len(l) // 3]), conv(l[len(l) // 3:])))
    probe_off = lambda conv: [_collect_raw(fp.pair_between, [1, 2, 3], [4, 5, 6, 7, 8], conv(o), seconds=5) for o in (0, 1, 2)]  # noqa: E731
    for n1 in range(0, nmax + 1):
        for n2 in range(0, nmax + 1):
            if n1 > 16 and n2 > 16 and rng.random() < 0.5 and ctx.tier == 'quick':
                continue
            labs = labels_for(rng, n1 + n2)
            f1, f2 = labs[:n1], labs[n1:]
            offs = [0] + ([rng.choice([1, 2, 3])] if rng.random() < 0.3 else [])
            for off in offs:
                kind = vary('pair_between', rng, probe)
                ikind = vary_int('pair_between:offset', rng, probe_off)
                ys, exc = collect(fp.pair_between, cont(kind, f1), cont(kind, f2), conv_int(ikind, off))
                case = {'fn': 'pair_between', 'frag1': f1, 'frag2': f2, 'start_offset': off, 'container': kind, 'int_type': ikind}
                s.count('container:' + kind)
                s.case(case, nontrivial=(n1 >= 1 and n2 >= 1))
                s.count('len1<len2' if n1 < n2 else 'len1=len2' if n1 == n2 else 'len1>len2')
                if exc:
                    s.violate('unexpected exception ' + exc, case, {})
                    continue
                impl = [enc_pairing(y) for y in ys]
                orc = []
                if off == 0:
                    orc.append(('pair_between: not (matchings + every cross pair exactly once)',
                                {'op': 'c18.spec.pair_between', 'f1': f1, 'f2': f2, 'ys': impl}, is_true))
                b.add(case, impl, {'op': 'c18.pair_between', 'f1': f1, 'f2': f2, 'off': off}, orc)
    b.flush()
    s.exhaustive = True
    return s


def stream_pair_within(ctx, fp):
    s = Stream('pair_within', 'every list length 0..N with distinct shuffled integer labels (two label sets per length); '
               'yields compared in order with the Model; Spec: every yield is a perfect matching (one bare label when the '
               'length is odd) and all unordered pairs occur; non-trivial = length >= 2; distribution by length mod 4')
    rng = rng_for(ctx.seed, 'c18-pw')
    harden(s, rng_for(ctx.seed, 'c18-pw-state'), rate_for(ctx))
    nmax = b3(ctx, 64, 84, 100)
    b = Batch(ctx, s)
    probe = probe_gen(lambda l, conv: fp.pair_within(conv(l)))
    for n in range(0, nmax + 1):
        for rep in range(2 if n <= 40 else 1):
            labs = labels_for(rng, n) if rep else list(range(n))
            kind = vary('pair_within', rng, probe)
            ys, exc = collect(fp.pair_within, cont(kind, labs))
            case = {'fn': 'pair_within', 'labels': labs, 'container': kind}
            s.count('container:' + kind)
            s.case(case, nontrivial=n >= 2)
            s.count('len%%4=%d' % (n % 4))
            if exc:
                s.violate('unexpected exception ' + exc, case, {})
                continue
            impl = [enc_pairing(y) for y in ys]
            b.add(case, impl, {'op': 'c18.pair_within', 'labels': labs},
                  [('pair_within: not (perfect matchings containing every pair)',
                    {'op': 'c18.spec.pair_within', 'labels': labs, 'ys': impl}, is_true)])
    b.flush()
    s.exhaustive = True
    return s


def stream_helpers(ctx, fp):
    s = Stream('helpers', '_gen_partitions (all lengths 1..N), _gen_pairings_between_partitions (all part sizes 2..7), '
               '_get_padding (all num_bins <= 24, bin_size <= 64; Spec: least L >= bin_size without divisor in [2, num_bins-1)), '
               '_parallel_iter / _asynchronous_iter on random lists of disjoint pairings (Spec: any two results of two '
               'different iterators occur together in a yield); compared with the Model in order')
    rng = rng_for(ctx.seed, 'c18-helpers')
    harden(s, rng_for(ctx.seed, 'c18-helpers-state'), rate_for(ctx))
    b = Batch(ctx, s)
    probe_gp = probe_gen(lambda l, conv: fp._gen_partitions(conv(l)), range(1, 12))
    probe_gpb = probe_gen(lambda l, conv: fp._gen_pairings_between_partitions(conv(l[:len(l) // 2]), conv(l[len(l) // 2:])),
                          range(4, 13))
    probe_pad = lambda conv: [_call1_raw(fp._get_padding, conv(nb), conv(sz), seconds=5)  # noqa: E731
                              for nb in (0, 3, 5, 8) for sz in (1, 6, 7, 30)]
    nmax = budget('thorough' if ctx.drift else ctx.tier, 40, 100)
    for n in range(1, nmax + 1):
        labs = list(range(n)) if n % 2 else labels_for(rng, n)
        kind = vary('_gen_partitions', rng, probe_gp)
        ys, exc = collect(fp._gen_partitions, cont(kind, labs))
        case = {'fn': '_gen_partitions', 'labels': labs, 'container': kind}
        s.case(case)
        s.count('_gen_partitions')
        if exc:
            s.violate('unexpected exception ' + exc, case, {})
            continue
        impl = [[norm(p) for p in part] for part in ys]
        b.add(case, impl, {'op': 'c18.gen_partitions', 'labels': labs})
        if n <= 24:
            for ms in (2, 3, 6):
                ys, exc = collect(fp._gen_partitions, list(labs), ms)
                case = {'fn': '_gen_partitions', 'labels': labs, 'min_size': ms}
                s.case(case)
                s.count('_gen_partitions:min_size')
                if exc:
                    s.violate('unexpected exception ' + exc, case, {})
                    continue
                b.add(case, [[norm(p) for p in part] for part in ys], {'op': 'c18.gen_partitions', 'labels': labs, 'min_size': ms})
    for na in range(2, 8):
        for nb in range(2, 8):
            labs = labels_for(rng, na + nb)
            pa, pb = labs[:na], labs[na:]
            kind = vary('_gen_pairings_between_partitions', rng, probe_gpb)
            ys, exc = collect(fp._gen_pairings_between_partitions, cont(kind, pa), cont(kind, pb))
            case = {'fn': '_gen_pairings_between_partitions', 'parta': pa, 'partb': pb, 'container': kind}
            s.case(case)
            s.count('_gen_pairings_between_partitions')
            if exc:
                s.violate('unexpected exception ' + exc, case, {})
                continue
            b.add(case, [enc_pairing(y) for y in ys], {'op': 'c18.gen_pairings_between', 'a': pa, 'b': pb})
    for bins in range(0, 25):
        for size in range(0, 65):
            ikind = vary_int('_get_padding', rng, probe_pad)
            r, exc = call1(fp._get_padding, conv_int(ikind, bins), conv_int(ikind, size), seconds=5)
            case = {'fn': '_get_padding', 'num_bins': bins, 'bin_size': size, 'int_type': ikind}
            s.case(case, nontrivial=bins > 3)
            s.count('_get_padding')
            if exc:
                s.violate('unexpected exception ' + exc, case, {})
                continue
            b.add(case, int(r), {'op': 'c18.get_padding', 'bins': bins, 'size': size},
                  [('_get_padding: not the least admissible size',
                    {'op': 'c18.spec.padding', 'bins': bins, 'size': size, 'r': int(r)}, is_true)])
    # _parallel_iter / _asynchronous_iter
    ncases = budget('thorough' if ctx.drift else ctx.tier, 600, 1500)
    for _ in range(ncases):
        k = rng.choice([1, 2, 2, 3, 3, 4, 4, 5, 6, 7, 8, 9, 12])
        lmax = rng.choice([1, 2, 2, 3, 3, 4, 5, 6])
        lab = itertools.count()
        lists = []
        for _i in range(k):
            ln = rng.randint(0 if k > 1 else 1, lmax)
            lst = []
            for _j in range(ln):
                npairs = rng.choice([1, 1, 2])
                p = tuple((next(lab), next(lab)) for _q in range(npairs))
                if rng.random() < 0.2:
                    p += (next(lab),)
                lst.append(p)
            lists.append(lst)
        if all(not lst for lst in lists):
            continue
        enc = [[enc_pairing(p) for p in lst] for lst in lists]
        which = rng.choice(['_parallel_iter', '_asynchronous_iter', '_asynchronous_iter'])
        okind = rng.choice(['list', 'list', 'tuple'])
        if okind == 'tuple' and not accepted(
                (which, 'tuple'),
                lambda: _collect_raw(getattr(fp, which), [[((1, 2),), ((3, 4),)], [((5, 6),)], [((7, 8),), ((9, 10), 11)]], True),
                lambda: _collect_raw(getattr(fp, which), ((((1, 2),), ((3, 4),)), (((5, 6),),), (((7, 8),), ((9, 10), 11))), True)):
            okind = 'list'
        mk = tuple if okind == 'tuple' else list
        ys, exc = collect(getattr(fp, which), mk(mk(lst) for lst in lists), True)
        case = {'fn': which, 'flatten': True, 'lists': enc, 'container': okind}
        s.case(case)
        s.count(which)
        impl = None if exc else [enc_pairing(y) for y in ys]
        if which == '_parallel_iter':
            if exc:
                s.violate('unexpected exception ' + exc, case, {})
                continue
            b.add(case, impl, {'op': 'c18.parallel_iter', 'lists': enc})
        else:
            if exc:
                # only "no admissible padding-free split" situations may raise: one iterator, all others empty
                s.count('_asynchronous_iter raises ' + exc)
            orc = []
            if impl is not None:
                orc.append(('_asynchronous_iter: two results of different iterators never occur together',
                            {'op': 'c18.spec.async', 'lists': enc, 'ys': impl}, is_true))
            b.add(case, impl, {'op': 'c18.async_iter', 'lists': enc}, orc)
    b.flush()
    return s


def stream_pws(ctx, fp):
    s = Stream('pair_within_simultaneously', 'every label count 0..N (distinct shuffled integer labels); yields compared in order '
               'with the Model; Spec (driver, n <= M) and independent set-based brute force (all n): every yield uses no label '
               'twice and every 4 labels have one of their 3 splits co-scheduled; non-trivial = n >= 4')
    rng = rng_for(ctx.seed, 'c18-pws')
    t = 'thorough' if ctx.drift else ctx.tier
    nmax = b3(ctx, 32, 38, 48)
    nspec = b3(ctx, 20, 24, 30)
    b = Batch(ctx, s)
    harden(s, rng_for(ctx.seed, 'c18-pws-state'), rate_for(ctx))
    probe = probe_gen(lambda l, conv: fp.pair_within_simultaneously(conv(l)))
    # every length once, then a second, different label set of the lengths <= 20 (a call sequence within one process)
    for n in list(range(0, nmax + 1)) + list(range(20, 3, -1)):
        labs = labels_for(rng, n)
        kind = vary('pair_within_simultaneously', rng, probe)
        ys, exc = collect(fp.pair_within_simultaneously, cont(kind, labs))
        case = {'fn': 'pair_within_simultaneously', 'labels': labs, 'container': kind}
        s.count('container:' + kind)
        s.case(case, nontrivial=n >= 4)
        s.count('n%%4=%d' % (n % 4))
        if exc:
            s.violate('unexpected exception ' + exc, case, {})
            continue
        impl = [enc_pairing(y) for y in ys]
        miss = quad_brute([labs], impl)
        if miss is not None:
            s.violate('pair_within_simultaneously: four labels without a co-scheduled split (brute force)', case,
                      {'uncovered': miss, 'n_yields': len(impl)})
        orc = []
        if n <= nspec:
            orc.append(('pair_within_simultaneously: Spec quadsCovered fails',
                        {'op': 'c18.spec.quads', 'bins': [labs], 'ys': impl}, ok_field))
        b.add(case, impl, {'op': 'c18.pws', 'labels': labs}, orc)
    b.flush()
    s.exhaustive = True
    return s


def stream_binned(ctx, fp):
    s = Stream('binned-symmetric', 'pair_within_simultaneously_symmetric for all (num_fermions <= F, num_symmetries <= 3) and '
               'pair_within_simultaneously_binned on random bin sizes (1, 2, 4, 8, 16 bins, empty bins included); yields compared '
               'in order with the Model; Spec (driver, <= 18 labels) + brute force: no label twice in a yield and every 4 labels whose '
               'bin indices XOR to 0 have a co-scheduled split; non-trivial = at least 4 labels')
    rng = rng_for(ctx.seed, 'c18-binned')
    t = 'thorough' if ctx.drift else ctx.tier
    b = Batch(ctx, s)
    harden(s, rng_for(ctx.seed, 'c18-binned-state'), rate_for(ctx))
    probe_sym = lambda conv: [_collect_raw(fp.pair_within_simultaneously_symmetric, conv(nf), conv(ns), seconds=5)  # noqa: E731
                              for nf, ns in ((1, 0), (2, 1), (3, 1), (4, 2), (3, 0))]
    probe_bin = probe_gen(lambda l, conv: fp.pair_within_simultaneously_binned([conv(l[:len(l) // 2]), conv(l[len(l) // 2:])]),
                          range(1, 12))
    probe_outer = probe_gen(lambda l, conv: fp.pair_within_simultaneously_binned(conv([l[:len(l) // 2], l[len(l) // 2:]])),
                            range(1, 12))
    fmax = budget(t, 9, 14)
    for ns in range(0, 4):
        for nf in range(0 if ns == 0 else 1, fmax + 1):
            ikind = vary_int('symmetric', rng, probe_sym)
            ys, exc = collect(fp.pair_within_simultaneously_symmetric, conv_int(ikind, nf), conv_int(ikind, ns))
            case = {'fn': 'pair_within_simultaneously_symmetric', 'num_fermions': nf, 'num_symmetries': ns, 'int_type': ikind}
            s.case(case, nontrivial=nf >= 2)
            s.count('symmetric:ns=%d' % ns)
            if exc:
                s.violate('unexpected exception ' + exc, case, {})
                continue
            bins = [[i for i in range(2 * nf) if i % 2 ** ns == bi] for bi in range(2 ** ns)]
            impl = [enc_pairing(y) for y in ys]
            miss = quad_brute(bins, impl)
            if miss is not None:
                s.violate('symmetric: allowed four labels without a co-scheduled split (brute force)', case,
                          {'uncovered': miss, 'n_yields': len(impl)})
            orc = []
            if 2 * nf <= 18:
                orc.append(('symmetric: Spec quadsCovered fails',
                            {'op': 'c18.spec.quads', 'bins': bins, 'ys': impl}, ok_field))
            b.add(case, {'ys': impl, 'ok': True}, {'op': 'c18.pws_symmetric', 'nf': nf, 'ns': ns}, orc)
    ncases = budget(t, 600, 1500)
    for _ in range(ncases):
        nb = rng.choice([1, 2, 2, 4, 4, 4, 8, 8, 16])
        mx = rng.choice([1, 2, 3, 4, 5, 7])
        sizes = [rng.randint(0, mx) for _i in range(nb)]
        tot = sum(sizes)
        if tot == 0 or tot > budget(t, 22, 30):
            continue
        labs = labels_for(rng, tot)
        bins, k = [], 0
        for sz in sizes:
            bins.append(labs[k:k + sz])
            k += sz
        kind = vary('binned', rng, probe_bin)
        okind = vary('binned:outer', rng, probe_outer)
        okind = okind if okind == 'tuple' else 'list'
        ys, exc = collect(fp.pair_within_simultaneously_binned, cont(okind, [cont(kind, x) for x in bins]))
        case = {'fn': 'pair_within_simultaneously_binned', 'binned_majoranas': bins, 'container': kind, 'outer': okind}
        s.count('container:' + kind)
        s.case(case, nontrivial=tot >= 4)
        s.count('binned:bins=%d' % nb)
        if exc:
            s.violate('unexpected exception ' + exc, case, {})
            continue
        impl = [enc_pairing(y) for y in ys]
        miss = quad_brute(bins, impl)
        if miss is not None:
            s.violate('binned: allowed four labels without a co-scheduled split (brute force)', case,
                      {'uncovered': miss, 'n_yields': len(impl)})
        orc = []
        if tot <= 18:
            orc.append(('binned: Spec quadsCovered fails', {'op': 'c18.spec.quads', 'bins': bins, 'ys': impl}, ok_field))
        b.add(case, {'ys': impl, 'ok': True}, {'op': 'c18.pws_binned', 'bins': bins}, orc)
    b.flush()
    return s


def stream_partitions(ctx, qp):
    s = Stream('qubit-partitions', 'binary_partition_iterator (all n <= N, default and explicit num_iterations), partition_iterator '
               '(all n <= P, k <= K, default and explicit num_iterations; error cases k > n), pauli_string_iterator (n <= 7, k <= 3); '
               'compared in order with the Model; Spec on default num_iterations: yields are k-partitions and every k-subset is split '
               'perfectly by one of them; every Pauli word of weight <= k occurs; non-trivial = n > k >= 2')
    rng = rng_for(ctx.seed, 'c18-part')
    t = 'thorough' if ctx.drift else ctx.tier
    b = Batch(ctx, s)
    harden(s, rng_for(ctx.seed, 'c18-part-state'), rate_for(ctx))
    probe_b = probe_gen(lambda l, conv: qp.binary_partition_iterator(conv(l)))
    probe_p = probe_gen(lambda l, conv: itertools.chain(qp.partition_iterator(conv(l), 1), qp.partition_iterator(conv(l), 2),
                                                        qp.partition_iterator(conv(l), 3), qp.partition_iterator(conv(l), 4, 2)),
                        range(4, 11))
    probe_pi = lambda conv: [_collect_raw(qp.partition_iterator, list(range(n)), conv(k), conv(it), seconds=5)  # noqa: E731
                             for n, k, it in ((5, 1, None), (6, 2, 2), (7, 3, None), (8, 3, 1), (6, 4, None))]
    probe_ps = lambda conv: [_collect_raw(qp.pauli_string_iterator, conv(n), conv(k), seconds=5)  # noqa: E731
                             for n, k in ((1, 1), (3, 2), (4, 3), (5, 2))]
    nmax = budget(t, 40, 80)

    def conv_bin(m):
        return None if m is None else [[list(p[0]), list(p[1])] for p in m]
    for n in range(0, nmax + 1):
        for iters in [None] + ([rng.randint(0, 8)] if n % 3 == 0 else []):
            labs = labels_for(rng, n)
            kind = vary('binary_partition_iterator', rng, probe_b)
            ys, exc = collect(qp.binary_partition_iterator, cont(kind, labs), iters)
            case = {'fn': 'binary_partition_iterator', 'qubit_list': labs, 'num_iterations': iters, 'container': kind}
            s.count('container:' + kind)
            s.case(case, nontrivial=n > 2)
            s.count('binary' + (':ValueError' if exc else ''))
            if exc and exc != 'ValueError':
                s.violate('unexpected exception ' + exc, case, {})
                continue
            impl = None if exc else [[norm(p[0]), norm(p[1])] for p in ys]
            orc = []
            if iters is None and impl is not None:
                orc.append(('binary_partition_iterator: some pair is never split',
                            {'op': 'c18.spec.partitions', 'labels': labs, 'k': 2, 'ys': impl}, is_true))
            if exc and n >= 2:
                s.violate('ValueError on an admissible input', case, {})
            b.add(case, impl, {'op': 'c18.binary_partition', 'list': labs, 'iters': iters}, orc, conv_bin)
    pmax = budget(t, 11, 16)
    kmax = budget(t, 4, 5)
    for k in range(1, kmax + 1):
        for n in range(0, pmax + 1 - (2 if k >= 4 else 0)):
            for iters in [None] + ([rng.randint(0, 5)] if (n + k) % 2 == 0 else []):
                labs = labels_for(rng, n)
                kind = vary('partition_iterator', rng, probe_p)
                ikind = vary_int('partition_iterator:int', rng, probe_pi)
                ys, exc = collect(qp.partition_iterator, cont(kind, labs), conv_int(ikind, k), conv_int(ikind, iters))
                case = {'fn': 'partition_iterator', 'qubit_list': labs, 'partition_size': k, 'num_iterations': iters,
                        'container': kind, 'int_type': ikind}
                s.count('container:' + kind)
                s.case(case, nontrivial=n > k >= 2)
                s.count('partition:k=%d' % k + (':ValueError' if exc else ''))
                if exc and exc != 'ValueError':
                    s.violate('unexpected exception ' + exc, case, {})
                    continue
                admissible = n >= k and (k != 2 or n >= 2)
                if exc and admissible:
                    s.violate('ValueError on an admissible input', case, {})
                impl = {'ys': [] if exc else [[norm(p) for p in part] for part in ys], 'raises': bool(exc)}
                orc = []
                if iters is None and not exc:
                    orc.append(('partition_iterator: a k-subset is never perfectly split (or a yield is not a k-partition)',
                                {'op': 'c18.spec.partitions', 'labels': labs, 'k': k, 'ys': impl['ys']}, is_true))
                b.add(case, impl, {'op': 'c18.partition_iter', 'list': labs, 'k': k, 'iters': iters}, orc)
    letter = {'I': 0, 'X': 1, 'Y': 2, 'Z': 3}
    for k in range(0, 4):
        for n in range(0, budget(t, 7, 9) + 1 - (1 if k == 3 else 0)):
            ikind = vary_int('pauli_string_iterator', rng, probe_ps)
            ys, exc = collect(qp.pauli_string_iterator, conv_int(ikind, n), conv_int(ikind, k))
            case = {'fn': 'pauli_string_iterator', 'num_qubits': n, 'max_word_size': k, 'int_type': ikind}
            s.case(case, nontrivial=n > k >= 2)
            s.count('pauli:k=%d' % k + (':ValueError' if exc else ''))
            if exc and exc != 'ValueError':
                s.violate('unexpected exception ' + exc, case, {})
                continue
            if exc and 1 <= k <= n:
                s.violate('ValueError on an admissible input', case, {})
            impl = None if exc else [[letter[c] for c in y] for y in ys]
            orc = []
            if impl is not None:
                orc.append(('pauli_string_iterator: a Pauli word of weight <= k is missing',
                            {'op': 'c18.spec.words', 'n': n, 'k': k, 'strings': impl}, is_true))
            b.add(case, impl, {'op': 'c18.pauli_strings', 'n': n, 'k': k}, orc)
    b.flush()
    s.exhaustive = True
    return s


# ---------------------------------------------------------------- tensor product basis groups

class _Shim:
    """stands in for the module-level `numpy` of qubit_partitioning while one call is recorded"""

    def __init__(self, real, log):
        self._real = real
        shim = self

        class _RS:
            def __init__(self, seed=None):
                self.r = real.random.RandomState(seed)

            def shuffle(self, x):
                idx = list(range(len(x)))
                self.r.shuffle(idx)
                log.append(idx)
                x[:] = [x[i] for i in idx]

        class _Random:
            RandomState = _RS
        self.random = _Random
        del shim

    def __getattr__(self, name):
        return getattr(self._real, name)


def tpb_recorded(qp, operator, seed):
    import numpy
    log = []
    saved = qp.numpy
    qp.numpy = _Shim(numpy, log)
    try:
        res = qp.group_into_tensor_product_basis_sets(operator, seed)
    finally:
        qp.numpy = saved
    return res, log


def enc_groups(res):
    return [[enc_term('qubit', k), enc_op('qubit', v.terms)] for k, v in res.items()]


def canon_groups(g):
    return [[[list(f) for f in k], [[[list(f) for f in t], list(c)] for t, c in v]] for k, v in g]


COEF_TYPES = ['float32', 'complex64', 'int64', 'int32', 'bool']


def coef_as(kind, c):
    import numpy
    if kind == 'float32':
        return numpy.float32(c)
    if kind == 'complex64':
        return numpy.complex64(c)
    if kind == 'int64':
        return numpy.int64(c)
    if kind == 'int32':
        return numpy.int32(c)
    if kind == 'bool':
        return True
    return c


def coef_accepted(of, qp, kind):
    """does the tree under test group an operator whose `.terms` hold coefficients of this numpy type (same groups,
    same values as with Python numbers)?  probed once per run; a rejected type is never used"""
    def build(conv):
        op = of.QubitOperator()
        for j, term in enumerate([((0, 'X'),), ((0, 'X'), (1, 'Z')), ((1, 'Y'),), ((2, 'Z'), (3, 'Z')), ()]):
            op.terms[term] = conv(1 if kind == 'bool' else j + 1)
        return op
    return accepted(('tpb-coef', kind),
                    lambda: _call1_raw(lambda: enc_groups(qp.group_into_tensor_product_basis_sets(build(lambda c: c), 3))),
                    lambda: _call1_raw(lambda: enc_groups(qp.group_into_tensor_product_basis_sets(build(lambda c: coef_as(kind, c)), 3))))


def rand_qubit_operator(of, qp, rng, big=False):
    nq = rng.choice([1, 2, 3, 3, 4, 4, 5, 6, 8])
    nterms = rng.choice([0, 1, 2, 3, 4, 6, 8, 10, 14])
    if big:
        nq, nterms = rng.choice([9, 12, 17, 20]), rng.choice([17, 24, 40])
    # qubit indices: 0..nq-1, or nq indices spread over 0..600 (beyond the CPython small-int cache)
    r = rng.random()
    pool = list(range(nq)) if r < 0.7 else sorted(rng.sample(range(0, 600), nq)) if r < 0.85 else \
        sorted(rng.sample(range(257, 300), nq))
    op = of.QubitOperator()
    small = rng.random() < 0.3
    for _ in range(nterms):
        w = rng.choice([0, 1, 1, 2, 2, 3, 4])
        qs = sorted(rng.sample(pool, min(w, nq)))
        # int(str(q)): a fresh int object per factor (equal indices >= 257 are then distinct objects)
        term = tuple((int(str(q)), rng.choice('XYZ')) for q in qs)
        r = rng.random()
        if r < 0.06:
            c = 0.0
        else:
            c = rng.choice([1, -1, 2, 3]) / rng.choice([1, 2, 4, 8])
            if small and rng.random() < 0.5:
                # 6e-5 .. 1.2e-7 next to O(1) coefficients (dyadic; a decade above the 1e-8 pruning threshold)
                c = rng.choice([1, -1, 3]) * 2.0 ** (-rng.randint(14, 23))
            if r < 0.25:
                re = rng.choice([c, c, 0.0])              # purely imaginary coefficients included
                c = complex(re, rng.choice([1, -1, 2]) / rng.choice([1, 2, 4]) * (2.0 ** -17 if small and rng.random() < 0.3 else 1))
            elif r < 0.40 and float(c).is_integer():
                c = int(c)                      # Python int coefficient
            elif r < 0.50:
                import numpy
                c = numpy.float64(c)            # numpy scalar coefficient
            elif r < 0.65:
                kind = rng.choice(COEF_TYPES)
                if coef_accepted(of, qp, kind) and (kind in ('float32', 'complex64') or float(c).is_integer()):
                    c = coef_as(kind, c)
        op.terms[term] = c
    return op


def stream_tpb(ctx, of, qp):
    s = Stream('tensor-product-basis-groups', 'random QubitOperators (<= 8 qubits, <= 14 terms; a fraction with up to 20 qubits / 40 '
               'terms; qubit indices also >= 257; identity and zero-coefficient terms, coefficients 2^-14 .. 2^-23 next to O(1), purely '
               'imaginary ones, Python int / numpy scalar coefficients placed into .terms) x seeds; the permutations drawn by '
               'RandomState(seed).shuffle are recorded and given to the Model; groups '
               'compared exactly in dictionary order; Spec: keys are distinct tensor-product bases, every term of a group is diagonal '
               'in its key, groups partition the non-zero terms with their coefficients; _find_compatible_basis compared directly; '
               'operators edited in place (*=, += , deleted terms) are grouped again; non-trivial = at least 2 terms')
    rng = rng_for(ctx.seed, 'c18-tpb')
    harden(s, rng_for(ctx.seed, 'c18-tpb-state'), rate_for(ctx) / 2)
    t = 'thorough' if ctx.drift else ctx.tier
    b = Batch(ctx, s)
    ncases = budget(t, 1500, 5000)

    def grouped(op, seed, edited=None):
        op_enc = enc_op('qubit', op.terms)
        case = {'fn': 'group_into_tensor_product_basis_sets', 'operator': op_enc, 'seed': None if seed is None else int(seed),
                'seed_type': type(seed).__name__}
        if edited:
            case['edited_in_place'] = edited
        s.case(case, nontrivial=len(op.terms) >= 2)
        try:
            (res_log, exc) = _checked('group_into_tensor_product_basis_sets', [op, seed],
                                      lambda a: _call1_raw(tpb_recorded, qp, *a), repeat=seed is not None)
            if exc:
                s.violate('unexpected exception ' + exc, case, {})
                return
            res, log = res_log
            if seed is not None:
                plain, exc = call1(qp.group_into_tensor_product_basis_sets, op, seed)
                if exc:
                    s.violate('unexpected exception ' + exc, case, {})
                    return
                if enc_groups(plain) != enc_groups(res):
                    # the recording shim does not reproduce numpy's shuffle: harness assumption broken
                    s.discards += 1
                    s.count('shim-mismatch')
                    return
                if any(v is op for v in plain.values()):
                    s.violate('a returned group is the argument itself', case, {})
        except Exception as e:  # noqa: BLE001
            s.violate('unexpected exception ' + type(e).__name__, case, {})
            return
        impl = enc_groups(res)
        if seed is not None:        # seed None draws from OS entropy: the number of groups is not reproducible
            s.count('groups=%d' % min(len(impl), 6))
        case['recorded_shuffles'] = log
        b.add(case, canon_groups(impl), {'op': 'c18.tpb', 'operator': op_enc, 'perms': log},
              [('groups are not a partition of the terms into tensor-product-basis sets',
                {'op': 'c18.spec.tpb', 'operator': op_enc, 'groups': impl}, is_true)], canon_groups)

    for i in range(ncases):
        op = rand_qubit_operator(of, qp, rng, big=(i % 50 == 7))
        seed = rng.choice([None, 0, 1, 2, 3, 7, 11, 12345, rng.randrange(2 ** 31)])
        if rng.random() < 0.1 and seed is not None:
            import numpy
            seed = numpy.int64(seed) if seed < 2 ** 31 else seed
            seed = int(seed) if not accepted(('tpb-seed', 'int64'),
                                             lambda: _call1_raw(lambda: enc_groups(qp.group_into_tensor_product_basis_sets(
                                                 of.QubitOperator('X0') + of.QubitOperator('Z0') + of.QubitOperator('Y1'), 5))),
                                             lambda: _call1_raw(lambda: enc_groups(qp.group_into_tensor_product_basis_sets(
                                                 of.QubitOperator('X0') + of.QubitOperator('Z0') + of.QubitOperator('Y1'),
                                                 numpy.int64(5))))) else seed
        grouped(op, seed)
        # the same operator object edited in place must be grouped according to its new content
        if len(op.terms) >= 1 and rng.random() < 0.2:
            how = rng.choice(['*=2', '+=term', 'del', 'coef'])
            try:
                if how == '*=2':
                    op *= 2
                elif how == '+=term':
                    op += of.QubitOperator(((rng.randrange(0, 4), rng.choice('XYZ')), (5, 'Z')), 0.75)
                elif how == 'del':
                    del op.terms[rng.choice(list(op.terms))]
                else:
                    op.terms[rng.choice(list(op.terms))] = -1.5
            except Exception:  # noqa: BLE001
                continue
            s.count('edited-in-place:' + how)
            grouped(op, seed, how)
        # _find_compatible_basis directly
        if len(op.terms) >= 2 and i % 3 == 0:
            terms = list(op.terms)
            term = rng.choice(terms)
            bases = [x for x in terms if rng.random() < 0.7]
            if rng.random() < 0.3:
                bases = tuple(bases)
            got, exc = call1(qp._find_compatible_basis, term, bases)
            if exc:
                s.violate('unexpected exception ' + exc, {'fn': '_find_compatible_basis'}, {})
                continue
            c2 = {'fn': '_find_compatible_basis', 'term': enc_term('qubit', term), 'bases': [enc_term('qubit', x) for x in bases]}
            s.case(c2)
            s.count('_find_compatible_basis')
            b.add(c2, None if got is None else [list(f) for f in enc_term('qubit', got)],
                  {'op': 'c18.find_compatible', 'term': c2['term'], 'bases': c2['bases']})
    b.flush()
    return s


# ---------------------------------------------------------------- labels of arbitrary hashable type

ZERO_KINDS = ['int0', 'float0', 'negzero', 'False', 'np_int0', 'np_float0', 'empty_str', 'empty_bytes', 'empty_frozenset',
              'fraction0']
OTHER_KINDS = ['int', 'str', 'float', 'neg', 'bytes', 'frozenset']


def zero_obj(kind):
    import numpy
    from fractions import Fraction
    return {'int0': 0, 'float0': 0.0, 'negzero': -0.0, 'False': False, 'np_int0': numpy.int64(0),
            'np_float0': numpy.float64(0), 'empty_str': '', 'empty_bytes': b'', 'empty_frozenset': frozenset(),
            'fraction0': Fraction(0)}[kind]


def other_obj(kind, c):
    """a truthy hashable label for the code c >= 1; different kinds / codes never compare equal"""
    return {'int': c, 'str': 'q%d' % c, 'float': c + 0.5, 'neg': -c, 'bytes': b'b%d' % c,
            'frozenset': frozenset({c, -1})}[kind]


def make_labels(codes, zero_kinds, other_kinds):
    """codes: distinct naturals (0 = a falsy label) or None; -> (label objects, decoder)"""
    objs, dec = [], {}
    zk = list(zero_kinds)
    for i, c in enumerate(codes):
        if c is None:
            objs.append(None)
            continue
        o = zero_obj(zk[0]) if c == 0 else other_obj(other_kinds[i % len(other_kinds)], c)
        objs.append(o)
        dec[o] = c
    return objs, dec


def enc_pairing_with(p, dec):
    out = []
    for it in p:
        if isinstance(it, tuple):
            if len(it) == 2 and not isinstance(it[0], (tuple, list)) and not isinstance(it[1], (tuple, list)):
                out.append([None if x is None else dec[x] for x in it])
            else:
                out.append('bad')
        elif isinstance(it, list):
            out.append('bad')
        else:
            out.append(None if it is None else dec[it])
    return out


def stream_label_types(ctx, fp):
    s = Stream('label-types', 'labels of arbitrary hashable type: (a) EVERY position of a falsy label (0, 0.0, -0.0, False, numpy '
               'zeros, "", b"", frozenset(), Fraction(0)) in every list of 2..21 labels for pair_within and '
               'pair_within_simultaneously, and in both fragments of pair_between (sizes <= 6); (b) random mixtures of ints, '
               'negative ints, floats, strings, bytes, frozensets with one or several falsy labels; the Model runs on integer '
               'codes of the labels; Spec oracles as in the integer streams; (c) lists with a duplicate label or a None label '
               '(outside the assumptions: correspondence with the Model only, exceptions of the implementation are counted); '
               'non-trivial = at least 4 labels')
    rng = rng_for(ctx.seed, 'c18-labels')
    harden(s, rng_for(ctx.seed, 'c18-labels-state'), rate_for(ctx) / 3)
    b = Batch(ctx, s)

    def one(fn_name, codes_args, zero_kinds, other_kinds, oracle=True):
        """codes_args: list of code lists (the label-list arguments of the function)"""
        flat = [c for a in codes_args for c in a]
        objs, dec = make_labels(flat, zero_kinds, other_kinds)
        args, k = [], 0
        for a in codes_args:
            args.append(objs[k:k + len(a)])
            k += len(a)
        ys, exc = collect(getattr(fp, fn_name), *args)
        case = {'fn': fn_name, 'label_codes': codes_args, 'zero_kinds': list(zero_kinds), 'other_kinds': list(other_kinds)}
        s.case(case, nontrivial=len(flat) >= 4)
        s.count(fn_name)
        if exc:
            if oracle:
                s.violate('unexpected exception ' + exc, case, {})
            else:
                s.count(fn_name + ':raises:' + exc)
            return
        try:
            impl = [enc_pairing_with(y, dec) for y in ys]
        except Exception as e:  # noqa: BLE001
            s.violate('a yield contains an object that is not one of the labels: ' + type(e).__name__, case, {})
            return
        if fn_name == 'pair_within':
            labs = codes_args[0]
            orc = [('pair_within: not (perfect matchings containing every pair)',
                    {'op': 'c18.spec.pair_within', 'labels': labs, 'ys': impl}, is_true)] if oracle else []
            b.add(case, impl, {'op': 'c18.pair_within', 'labels': labs}, orc)
        elif fn_name == 'pair_within_simultaneously':
            labs = codes_args[0]
            orc = []
            if oracle:
                miss = quad_brute([labs], impl)
                if miss is not None:
                    s.violate('pair_within_simultaneously: four labels without a co-scheduled split (brute force)', case,
                              {'uncovered': miss, 'n_yields': len(impl)})
                if len(labs) <= 16:
                    orc.append(('pair_within_simultaneously: Spec quadsCovered fails',
                                {'op': 'c18.spec.quads', 'bins': [labs], 'ys': impl}, ok_field))
            b.add(case, impl, {'op': 'c18.pws', 'labels': labs}, orc)
        else:
            f1, f2 = codes_args
            orc = [('pair_between: not (matchings + every cross pair exactly once)',
                    {'op': 'c18.spec.pair_between', 'f1': f1, 'f2': f2, 'ys': impl}, is_true)] if oracle else []
            b.add(case, impl, {'op': 'c18.pair_between', 'f1': f1, 'f2': f2, 'off': 0}, orc)
    # (a) every position of a falsy label
    zi = 0
    for n in range(2, 22):
        for pos in range(n):
            codes = list(range(1, n))
            rng.shuffle(codes)
            codes.insert(pos, 0)
            for fn_name in ('pair_within', 'pair_within_simultaneously'):
                zk = ZERO_KINDS[zi % len(ZERO_KINDS)]
                zi += 1
                ok = ['int'] if zi % 3 else [rng.choice(OTHER_KINDS)]
                s.count('falsy:' + zk)
                one(fn_name, [codes], [zk], ok)
    for n1 in range(0, 7):
        for n2 in range(0, 7):
            for pos in range(n1 + n2):
                codes = list(range(1, n1 + n2))
                rng.shuffle(codes)
                codes.insert(pos, 0)
                zk = ZERO_KINDS[zi % len(ZERO_KINDS)]
                zi += 1
                one('pair_between', [codes[:n1], codes[n1:]], [zk], ['int'])
    # (b) mixtures
    for _ in range(budget('thorough' if ctx.drift else ctx.tier, 150, 600)):
        n = rng.randint(2, 16)
        # several falsy labels can only be told apart by the decoder when they are not equal: "", b"", frozenset() and
        # one numeric zero
        zks = [rng.choice(ZERO_KINDS[:6] + ['fraction0'])]
        codes = list(range(1, n))
        rng.shuffle(codes)
        codes.insert(rng.randrange(n), 0)
        kinds = [rng.choice(OTHER_KINDS) for _i in range(n)]
        fn_name = rng.choice(['pair_within', 'pair_within_simultaneously', 'pair_between'])
        s.count('mixture')
        if fn_name == 'pair_between':
            cut = rng.randint(0, n)
            one(fn_name, [codes[:cut], codes[cut:]], zks, kinds)
        else:
            one(fn_name, [codes], zks, kinds)
    # (c) outside the assumptions: duplicates / None (Model correspondence only)
    for _ in range(budget('thorough' if ctx.drift else ctx.tier, 120, 500)):
        n = rng.randint(2, 12)
        codes = list(range(1, n + 1))
        rng.shuffle(codes)
        how = rng.choice(['dup', 'none', 'both'])
        if how in ('dup', 'both'):
            codes[rng.randrange(n)] = codes[rng.randrange(n)]
        if how in ('none', 'both'):
            codes[rng.randrange(n)] = None
        s.count('outside-assumptions:' + how)
        one(rng.choice(['pair_within', 'pair_within_simultaneously']), [codes], ['int0'], ['int'], oracle=False)
    b.flush()
    return s


def run(ctx):
    of = ctx.of
    import importlib
    fp = importlib.import_module('openfermion.measurements.fermion_partitioning')
    qp = importlib.import_module('openfermion.measurements.qubit_partitioning')
    import os
    import time
    streams = []
    for fn, args in ((stream_pair_between, (ctx, fp)), (stream_pair_within, (ctx, fp)), (stream_helpers, (ctx, fp)),
                     (stream_pws, (ctx, fp)), (stream_binned, (ctx, fp)), (stream_partitions, (ctx, qp)),
                     (stream_tpb, (ctx, of, qp)), (stream_label_types, (ctx, fp))):
        t0 = time.time()
        streams.append(fn(*args))
        if os.environ.get('OFV_TIMING'):
            print('timing %s %.1fs' % (fn.__name__, time.time() - t0), flush=True)
    return streams


def replay(ctx, payload):
    """re-run the recorded failing input on the real code with the Spec oracle -> True when it passes now"""
    import importlib
    fp = importlib.import_module('openfermion.measurements.fermion_partitioning')
    qp = importlib.import_module('openfermion.measurements.qubit_partitioning')
    v = payload.get('violation')
    if not v:
        return None
    case = v['input']
    fn = case.get('fn')
    d = ctx.driver
    kind = case.get('container', 'list')
    ci = lambda x: conv_int(case.get('int_type', 'int'), x)  # noqa: E731
    try:
        if case.get('state_check'):
            f = getattr(fp, fn, None) or getattr(qp, fn, None)
            if f is None or any(isinstance(x, dict) and 'repr' in x for x in case['args']):
                return None
            return replay_state(f, case)
        if 'label_codes' in case:
            codes_args = case['label_codes']
            flat = [c for a in codes_args for c in a]
            objs, dec = make_labels(flat, case['zero_kinds'], case['other_kinds'])
            args, k = [], 0
            for a in codes_args:
                args.append(objs[k:k + len(a)])
                k += len(a)
            ys = [enc_pairing_with(y, dec) for y in getattr(fp, fn)(*args)]
            if any(c is None for c in flat) or len(set(flat)) != len(flat):
                return None
            if fn == 'pair_within':
                return d.one({'op': 'c18.spec.pair_within', 'labels': codes_args[0], 'ys': ys}) is True
            if fn == 'pair_between':
                return d.one({'op': 'c18.spec.pair_between', 'f1': codes_args[0], 'f2': codes_args[1], 'ys': ys}) is True
            return quad_brute([codes_args[0]], ys) is None
        if fn == 'pair_within':
            ys = [enc_pairing(y) for y in fp.pair_within(cont(kind, case['labels']))]
            return d.one({'op': 'c18.spec.pair_within', 'labels': case['labels'], 'ys': ys}) is True
        if fn == 'pair_between':
            ys = [enc_pairing(y) for y in fp.pair_between(cont(kind, case['frag1']), cont(kind, case['frag2']), ci(case['start_offset']))]
            return d.one({'op': 'c18.spec.pair_between', 'f1': case['frag1'], 'f2': case['frag2'], 'ys': ys}) is True
        if fn == 'pair_within_simultaneously':
            ys = [enc_pairing(y) for y in fp.pair_within_simultaneously(cont(kind, case['labels']))]
            return quad_brute([case['labels']], ys) is None
        if fn == 'pair_within_simultaneously_binned':
            bins = case['binned_majoranas']
            ys = [enc_pairing(y) for y in fp.pair_within_simultaneously_binned(cont(case.get('outer', 'list'), [cont(kind, x) for x in bins]))]
            return quad_brute(bins, ys) is None
        if fn == 'pair_within_simultaneously_symmetric':
            nf, ns = case['num_fermions'], case['num_symmetries']
            bins = [[i for i in range(2 * nf) if i % 2 ** ns == bi] for bi in range(2 ** ns)]
            ys = [enc_pairing(y) for y in fp.pair_within_simultaneously_symmetric(ci(nf), ci(ns))]
            return quad_brute(bins, ys) is None
        if fn == '_get_padding':
            r = fp._get_padding(ci(case['num_bins']), ci(case['bin_size']))
            return d.one({'op': 'c18.spec.padding', 'bins': case['num_bins'], 'size': case['bin_size'], 'r': int(r)}) is True
        if fn == '_asynchronous_iter':
            lists = [[tuple(tuple(i) if isinstance(i, list) else i for i in p) for p in lst] for lst in case['lists']]
            ys = [enc_pairing(y) for y in fp._asynchronous_iter(lists, True)]
            return d.one({'op': 'c18.spec.async', 'lists': case['lists'], 'ys': ys}) is True
        if fn == 'binary_partition_iterator':
            ys = [[norm(p[0]), norm(p[1])] for p in qp.binary_partition_iterator(cont(kind, case['qubit_list']), case['num_iterations'])]
            return d.one({'op': 'c18.spec.partitions', 'labels': case['qubit_list'], 'k': 2, 'ys': ys}) is True
        if fn == 'partition_iterator':
            ys = [[norm(p) for p in part] for part in
                  qp.partition_iterator(cont(kind, case['qubit_list']), ci(case['partition_size']), ci(case['num_iterations']))]
            return d.one({'op': 'c18.spec.partitions', 'labels': case['qubit_list'], 'k': case['partition_size'], 'ys': ys}) is True
        if fn == 'pauli_string_iterator':
            letter = {'I': 0, 'X': 1, 'Y': 2, 'Z': 3}
            ys = [[letter[c] for c in y] for y in qp.pauli_string_iterator(ci(case['num_qubits']), ci(case['max_word_size']))]
            return d.one({'op': 'c18.spec.words', 'n': case['num_qubits'], 'k': case['max_word_size'], 'strings': ys}) is True
        if fn == 'group_into_tensor_product_basis_sets':
            from common import from_gq
            op = ctx.of.QubitOperator()
            for t, c in case['operator']:
                a, bb = from_gq(c)
                op.terms[dec_term('qubit', t)] = complex(float(a), float(bb)) if bb else float(a)
            res = qp.group_into_tensor_product_basis_sets(op, case['seed'])
            return d.one({'op': 'c18.spec.tpb', 'operator': case['operator'], 'groups': enc_groups(res)}) is True
    except Exception:  # noqa: BLE001
        return False
    return None
