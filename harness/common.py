"""Shared machinery of the correspondence harness.

* imports OpenFermion from the /repo working tree (asserted),
* drives the compiled Lean model (`ofv-driver`) through the line protocol,
* exact conversions Python number <-> Gaussian rational,
* evidence / replay writers, VIOLATION / KNOWN-FINDING reporting.
"""
import hashlib
import json
import os
import random
import subprocess
import sys
import time
import warnings
from fractions import Fraction

warnings.filterwarnings('ignore')

VERIF = os.path.dirname(os.path.dirname(os.path.abspath(__file__)))
REPO = os.environ.get('OFV_REPO', '/repo')
LEAN_DIR = os.path.join(VERIF, 'lean')
DRIVER = os.path.join(LEAN_DIR, '.lake', 'build', 'bin', 'ofv-driver')
EVIDENCE_DIR = os.path.join(VERIF, 'evidence')
REPLAY_DIR = os.path.join(EVIDENCE_DIR, 'replay')

os.environ.setdefault('PYTHONHASHSEED', '0')
# the hook guard of MANIFEST.hooks (no source hooks are needed; kept for the interface)
os.environ.setdefault('OPENFERMION_VERIF', '1')
sys.path.insert(0, os.path.join(REPO, 'src'))


def import_openfermion():
    import openfermion
    real = os.path.realpath(openfermion.__file__)
    if not real.startswith(os.path.realpath(os.path.join(REPO, 'src'))):
        raise InfraError('openfermion imported from %s, not from %s/src' % (real, REPO))
    return openfermion


class InfraError(Exception):
    """Infrastructure failure: never reported as a violation (exit 2)."""


# --------------------------------------------------------------------------
# exact number conversion
# --------------------------------------------------------------------------

def to_gq(c):
    """Python / numpy number -> [re_num, re_den, im_num, im_den] (exact)."""
    import numpy
    if isinstance(c, (bool, numpy.bool_)):
        c = int(c)
    if isinstance(c, (int, numpy.integer)):
        return [int(c), 1, 0, 1]
    if isinstance(c, Fraction):
        return [c.numerator, c.denominator, 0, 1]
    if isinstance(c, tuple) and len(c) == 2 and isinstance(c[0], Fraction):
        return [c[0].numerator, c[0].denominator, c[1].numerator, c[1].denominator]
    c = complex(c)
    if c != c or c.real in (float('inf'), float('-inf')) or c.imag in (float('inf'), float('-inf')):
        raise ValueError('non-finite coefficient')
    r, i = Fraction(c.real), Fraction(c.imag)
    return [r.numerator, r.denominator, i.numerator, i.denominator]


def from_gq(j):
    """[nr, dr, ni, di] -> (Fraction, Fraction)"""
    return (Fraction(j[0], j[1]), Fraction(j[2], j[3]))


def gq_key(c):
    """canonical exact value of a Python number as a pair of Fractions"""
    j = to_gq(c)
    return (Fraction(j[0], j[1]), Fraction(j[2], j[3]))


def gq_to_complex(j):
    a, b = from_gq(j)
    return complex(float(a), float(b))


def dyadic(rng, max_num=8, max_pow=3, complex_p=0.3, zero_p=0.0):
    """random dyadic Gaussian rational as a Python number (int, float or complex)"""
    if rng.random() < zero_p:
        return 0.0

    def part():
        n = rng.randint(-max_num, max_num)
        k = rng.randint(0, max_pow)
        return n / (2 ** k)

    kind = rng.random()
    if kind < complex_p:
        c = complex(part(), part())
        if c == 0:
            c = 1j
        return c
    if kind < complex_p + 0.2:
        n = rng.randint(-max_num, max_num)
        return n if n != 0 else 1
    x = part()
    return x if x != 0 else 0.5


# --------------------------------------------------------------------------
# term encodings (actions as small ints)
# --------------------------------------------------------------------------

ACTION_CODES = {
    'qubit': {'X': 1, 'Y': 2, 'Z': 3},
    'ising': {'Z': 3},
    'fermion': {1: 1, 0: 0},
    'boson': {1: 1, 0: 0},
    'quad': {'q': 0, 'p': 1},
}
ACTION_DECODE = {k: {v: a for a, v in m.items()} for k, m in ACTION_CODES.items()}


def enc_term(cls, term):
    if cls == 'majorana':
        return [[int(i), 0] for i in term]
    m = ACTION_CODES[cls]
    return [[int(i), m[a]] for (i, a) in term]


def dec_term(cls, jt):
    if cls == 'majorana':
        return tuple(int(i) for i, _ in jt)
    m = ACTION_DECODE[cls]
    return tuple((int(i), m[a]) for i, a in jt)


def enc_op(cls, terms):
    """terms dict -> protocol list (insertion order kept)"""
    return [[enc_term(cls, t), to_gq(c)] for t, c in terms.items()]


def canon_op_json(jop):
    """protocol op -> canonical sorted tuple (term, (re, im)); order-insensitive"""
    out = []
    for t, c in jop:
        out.append((tuple((int(i), int(a)) for i, a in t), from_gq(c)))
    out.sort(key=lambda e: e[0])
    return tuple(out)


def canon_op_py(cls, terms):
    return canon_op_json(enc_op(cls, terms))


def show(x, limit=2000):
    s = json.dumps(x, default=str)
    return s if len(s) <= limit else s[:limit] + '...'


# --------------------------------------------------------------------------
# Lean driver
# --------------------------------------------------------------------------

class Driver:
    """Batch access to `ofv-driver`: write all request lines, read all answers."""

    def __init__(self, path=DRIVER):
        if not os.path.exists(path):
            raise InfraError('driver not built: ' + path)
        self.path = path
        self.lines = 0

    def run(self, requests, timeout=1200):
        if not requests:
            return []
        data = '\n'.join(json.dumps(r, separators=(',', ':')) for r in requests) + '\n'
        try:
            p = subprocess.run([self.path], input=data.encode(), stdout=subprocess.PIPE,
                               stderr=subprocess.PIPE, timeout=timeout)
        except subprocess.TimeoutExpired:
            raise InfraError('driver timeout')
        if p.returncode != 0:
            raise InfraError('driver exit %d: %s' % (p.returncode, p.stderr.decode()[-2000:]))
        outs = p.stdout.decode().splitlines()
        if len(outs) != len(requests):
            raise InfraError('driver answered %d lines for %d requests; stderr=%s'
                             % (len(outs), len(requests), p.stderr.decode()[-2000:]))
        self.lines += len(requests)
        res = []
        for o, r in zip(outs, requests):
            j = json.loads(o)
            if 'fatal' in j:
                raise InfraError('driver rejected request %s: %s' % (show(r, 400), j['fatal']))
            res.append(j['r'])
        return res

    def one(self, request):
        return self.run([request])[0]


# --------------------------------------------------------------------------
# results
# --------------------------------------------------------------------------

class Stream:
    """Outcome of one correspondence / oracle stream."""

    def __init__(self, name, rule):
        self.name = name
        self.rule = rule
        self.evaluations = 0
        self.distinct = set()
        self.samples = []
        self.disagreements = []     # model != implementation (tie broken)
        self.violations = []        # Spec oracle fails on the implementation (replayable)
        self.known = []             # listed known findings observed
        self.dist = {}
        self.discards = 0
        self.float_comparisons = 0
        self.exhaustive = False

    def count(self, key, n=1):
        self.dist[key] = self.dist.get(key, 0) + n

    def case(self, case, nontrivial=True, sample_every=0):
        self.evaluations += 1
        if nontrivial:
            self.distinct.add(hashlib.sha1(show(case, 10 ** 7).encode()).hexdigest()[:16])
        if len(self.samples) < 3 or (sample_every and self.evaluations % sample_every == 0 and len(self.samples) < 8):
            self.samples.append(json.loads(show_json(case)))

    def disagree(self, what, case, impl, model):
        self.disagreements.append({'stream': self.name, 'what': what, 'input': case,
                                   'implementation': impl, 'model': model})

    def violate(self, what, case, detail):
        self.violations.append({'stream': self.name, 'what': what, 'input': case, 'detail': detail})

    def summary(self):
        return {'stream': self.name, 'rule': self.rule, 'evaluations': self.evaluations,
                'distinct_nontrivial': len(self.distinct), 'distribution': self.dist,
                'disagreements': len(self.disagreements), 'spec_violations': len(self.violations),
                'known_findings_seen': len(self.known), 'discarded_inexact': self.discards,
                'float_comparisons': self.float_comparisons, 'exhaustive': self.exhaustive}


def show_json(x):
    def default(o):
        if isinstance(o, Fraction):
            return '%d/%d' % (o.numerator, o.denominator)
        if isinstance(o, complex):
            return [o.real, o.imag]
        if isinstance(o, (set, frozenset)):
            return sorted(o, key=str)
        try:
            import numpy
            if isinstance(o, numpy.ndarray):
                return o.tolist()
            if isinstance(o, numpy.generic):
                return o.item()
        except Exception:
            pass
        return str(o)
    s = json.dumps(x, default=default)
    if len(s) > 4000:
        s = json.dumps(str(s[:4000]) + '...')
    return s


def show_json_full(x):
    def default(o):
        if isinstance(o, Fraction):
            return '%d/%d' % (o.numerator, o.denominator)
        if isinstance(o, complex):
            return [o.real, o.imag]
        if isinstance(o, (set, frozenset)):
            return sorted(o, key=str)
        try:
            import numpy
            if isinstance(o, numpy.ndarray):
                return o.tolist()
            if isinstance(o, numpy.generic):
                return o.item()
        except Exception:
            pass
        return str(o)
    return json.dumps(x, default=default, indent=1)


def rng_for(seed, name):
    h = hashlib.sha256(('%d/%s' % (seed, name)).encode()).digest()
    return random.Random(int.from_bytes(h[:8], 'big'))


def budget(tier, quick, thorough):
    return thorough if tier == 'thorough' else quick


class Timer:
    def __init__(self):
        self.t0 = time.time()

    def s(self):
        return time.time() - self.t0
