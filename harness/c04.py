"""C04 — Jordan-Wigner: correspondence of the real `jordan_wigner` paths (FermionOperator,
MajoranaOperator, InteractionOperator, DiagonalCoulombHamiltonian, jordan_wigner_one_body /
two_body, reverse_jordan_wigner) with the Lean Model (OFV.Model.C04) on the same inputs, compared
exactly, plus the Spec oracle `c04.jw_check` (OFV.Spec.C04: does the returned QubitOperator act on
every basis state like the fermionic operator it is the image of?) on the implementation's outputs."""
import itertools

import numpy
from fractions import Fraction

from common import (Stream, budget, enc_op, canon_op_json, to_gq, dyadic, rng_for, show, gq_key)

TRUSTED = [
    'C04: the momentum sums of jordan_wigner_dual_basis_jellium / dual_basis_jellium_model (cos, pi; floating point) are '
    'not modelled: the Lean Model takes them as tables K(delta), P(delta) (the FermionOperator model is then compared '
    'exactly, the direct form exactly on its strings and to 1e-9 on its coefficients, counted as float_comparisons); '
    'jordan_wigner_dual_basis_hamiltonian / plane_wave_hamiltonian(plane_wave=False): modelled the same way with the '
    'table ext[k][x][j]; their float accumulations are compared with the exact-rational Model to 1e-9 only',
]
ASSUMPTIONS = [
    'coefficients are dyadic Gaussian rationals with small numerators, on which IEEE double arithmetic of the '
    'modelled code is exact (checked: exact rational comparison with the Model)',
    'InteractionOperators / DiagonalCoulombHamiltonians are Hermitian (the quantifier of the property); '
    'two_body[p,q,r,s] = conj(two_body[s,r,q,p]) and no further symmetry is assumed',
    'jordan_wigner_one_body(p,p,c) and jordan_wigner_two_body with {p,q}={r,s} are linear in c (they return c*T); '
    'this equals "(c T + h.c.)/2" only for real c, which is what a Hermitian tensor supplies; the Spec used for '
    'these diagonal patterns is c*T',
]
OPEN_STATEMENTS = [
    'jw_exact / jw_majorana_exact / jw_one_body_sound / jw_two_body_sound / jw_interaction_op_sound / jw_dch_sound / reverse_jw_sound are proved under the decidable hypothesis "exact regime" '
    '(no non-zero value deleted by the |v| < EQ_TOLERANCE test of +=); without it the statements are false by '
    'design of the library; the hypothesis is evaluated by the Model on every generated input and counted in the '
    'distribution (theorem-hypothesis exact-regime)',
    'reverse_jw_right_inverse / reverse_jw_right_inverse_term / reverse_jw_ladder ARE theorems: jw(reverse_jw(Q)) acts like Q '
    'for every QubitOperator of canonical X/Y/Z strings (exact-regime flags of both transforms evaluated on every input); '
    'additionally jw(reverse_jw(Q)) == Q as dictionaries is checked exactly on the implementation',
    'reverse_jw_left_inverse is proved as an operator identity (reverse_jw(jw A) acts like A); the literal statement '
    '"normal_ordered(reverse_jw(jw A)) == normal_ordered(A) as dictionaries" additionally needs the uniqueness of normal '
    'ordered forms (property C03) and is checked exactly on random A',
    'linearity, multiplicativity, preservation of Hermiticity and faithfulness of jordan_wigner ARE theorems at the operator '
    'level (jw_linear, jw_multiplicative: jw(A) * jw(B) has the matrix elements of A * B and of jw(A * B) for every pair of '
    'FermionOperators; jw_hermitian_iff; jw_faithful), under the exact-regime flags of the transforms involved; '
    'compatibility with hermitian_conjugated as a dictionary operation is not restated (it follows from jw_hermitian_iff-style '
    'reasoning + C02/C03 adjointness) and is checked exactly on the implementation\'s values',
    'jw_jellium_direct_sound / jw_jellium_direct_sound_of_flags / jw_jellium_direct_eq_jordan_wigner / '
    'jellium_grid_index_structure ARE theorems (every grid, every dimension and lengths, spinless / spinful, with / without '
    'constant) over the exact index structure with the momentum sums abstract; hypotheses: K, P even, sum of P over the grid '
    '= 0, exact-regime flags.  What is established for the LIBRARY (floating point): (a) each of the two paths equals the Model '
    'evaluated on the library\'s own float tables K, P - the FermionOperator exactly (keys and coefficients, deletions by += '
    'included), the direct form exactly on its set of strings and to 1e-9 on coefficients; (b) on float tables the hypotheses '
    '"even" and "sum P = 0" hold to rounding only (checked to 1e-9 on every grid) and sum P = 0 never holds exactly, so the '
    'theorem is never applied to float tables: it is applied to the exact rational tables of stream '
    'dual-basis-jellium-exact-tables (all hypotheses evaluated by the driver, all hold); (c) on the 20 of 64 float runs (the 10 runs on the 2x3 / 3x2 grids, both paths) whose '
    'exact-regime flag fails (a coefficient that is an exact-zero sum evaluated to ~1e-15 is deleted by +=) nothing beyond (a) '
    'and the numeric 1e-9 comparison fast-path vs jordan_wigner(model) of stream dual-basis-jellium is claimed',
    'jw_dual_basis_hamiltonian_sound IS a theorem (jellium hypotheses + exact-regime flags, coefficient table ext and the '
    'zero-momentum test abstract); for the library both paths accumulate many float coefficients on one key, so the '
    'correspondence with the Model is exact on the sets of strings and 1e-9 on coefficients (stream '
    'dual-basis-hamiltonian-model); the theorem is applied to exact rational tables (stream dual-basis-jellium-exact-tables)',
]

ERRS = (TypeError, ValueError, IndexError, KeyError, AttributeError, RuntimeError, ZeroDivisionError,
        AssertionError, RecursionError)


# ---------------------------------------------------------------- helpers

def canon_nz(jop):
    """canonical form with exact-zero coefficients dropped (operator equality of canonical Pauli sums)"""
    return tuple(e for e in canon_op_json(jop) if e[1] != (0, 0))


def merge_canon(jop):
    """sum duplicate keys (not expected) and drop zeros"""
    d = {}
    for t, c in canon_op_json(jop):
        a = d.get(t, (0, 0))
        d[t] = (a[0] + c[0], a[1] + c[1])
    return tuple(sorted((t, c) for t, c in d.items() if c != (0, 0)))


def is_canonical_qubit(jop):
    for t, _ in jop:
        idx = [i for i, _ in t]
        if any(a >= b for a, b in zip(idx, idx[1:])):
            return False
        if any(a not in (1, 2, 3) for _, a in t):
            return False
    return True


def rand_coeff(rng, kind=None):
    kind = kind or rng.choice(['real', 'complex', 'complex', 'int', 'imag'])
    if kind == 'int':
        return rng.choice([1, -1, 2, -3, 1])
    if kind == 'real':
        c = rng.randint(-8, 8) / 2 ** rng.randint(0, 3)
        return c if c != 0 else 0.5
    if kind == 'imag':
        c = rng.randint(-8, 8) / 2 ** rng.randint(0, 3)
        return complex(0, c if c != 0 else 0.25)
    re = rng.randint(-8, 8) / 2 ** rng.randint(0, 3)
    im = rng.randint(-8, 8) / 2 ** rng.randint(0, 3)
    c = complex(re, im)
    return c if (re != 0 and im != 0) else complex(re or 1.0, im or -0.5)


class ImplTimeout(Exception):
    pass


def _alarm(signum, frame):
    raise ImplTimeout()


CALL_TIMEOUT_S = 10


def call(stream, what, case, f):
    """run the implementation; an unexpected exception (or non-termination within CALL_TIMEOUT_S) on an
    admissible input is a violation"""
    import signal
    if sum(1 for v in stream.violations if 'did not return within' in v['what']) >= 3:
        # the implementation does not terminate on this stream: stop driving it (already a violation)
        stream.count('skipped-after-timeouts')
        return False, None
    old = signal.signal(signal.SIGALRM, _alarm)
    signal.setitimer(signal.ITIMER_REAL, CALL_TIMEOUT_S)
    try:
        return True, f()
    except ImplTimeout:
        stream.violate('%s did not return within %d s' % (what, CALL_TIMEOUT_S), case, {})
        return False, None
    except Exception as e:   # any exception of the implementation on an admissible input is a violation
        stream.violate('%s raised %s: %s' % (what, type(e).__name__, str(e)[:200]), case, {})
        return False, None
    finally:
        signal.setitimer(signal.ITIMER_REAL, 0)
        signal.signal(signal.SIGALRM, old)


class Batch:
    """collects (case, impl output, model request, oracle request) and resolves them in two driver runs"""

    def __init__(self, ctx, stream):
        self.ctx, self.stream = ctx, stream
        self.items = []
        self.regime = []

    def add(self, what, case, impl_jop, model_req, oracle_req=None, canonical=True, regime_req=None):
        self.items.append((what, case, impl_jop, model_req, oracle_req, canonical))
        if regime_req is not None:
            self.regime.append(regime_req)

    def flush(self):
        st = self.stream
        its = self.items
        self.items = []
        if self.regime:
            # the decidable hypothesis of the operator-level theorems (jw_exact, jw_majorana_exact),
            # evaluated by the Model on this very input
            for ok in self.ctx.driver.run(self.regime):
                st.count('theorem-hypothesis exact-regime: %s' % ('holds' if ok else 'fails (tolerance deletion)'))
            self.regime = []
        if not its:
            return
        answers = self.ctx.driver.run([it[3] for it in its])
        for (what, case, impl, _, _, canonical), mo in zip(its, answers):
            if canon_op_json(impl) != canon_op_json(mo):
                st.disagree(what + ': terms differ', case, impl, mo)
            if canonical and not is_canonical_qubit(impl):
                st.violate(what + ': result not a canonical QubitOperator', case, {'terms': impl})
        oreqs = [(it[0], it[1], it[4]) for it in its if it[4] is not None]
        if oreqs:
            oans = self.ctx.driver.run([r for _, _, r in oreqs])
            for (what, case, r), a in zip(oreqs, oans):
                st.count('oracle:checked')
                if not a['eq']:
                    st.violate(what + ': output does not act like the fermionic operator (Spec)', case,
                               {'witness_state': a['state'], 'spec': a['spec'],
                                'implementation': a['implementation'], 'request': r})


def oracle(alg, n, A, Q):
    return {'op': 'c04.jw_check', 'alg': alg, 'n': n, 'A': A, 'Q': Q}


# ---------------------------------------------------------------- FermionOperator / MajoranaOperator

def rand_fermion_op(rng, of, n_modes, max_terms, max_len):
    op = of.FermionOperator()
    for _ in range(rng.randint(1, max_terms)):
        ln = rng.choice([0, 1, 1, 2, 2, 3, 3, 4, 4, 5, 6][:max_len + 5])
        ln = min(ln, max_len)
        t = tuple((rng.randrange(n_modes), rng.randint(0, 1)) for _ in range(ln))
        op += of.FermionOperator(t, rand_coeff(rng))
    return op


def rand_majorana_op(rng, of, n_maj, max_terms, max_len):
    terms = {}
    for _ in range(rng.randint(1, max_terms)):
        ln = rng.randint(0, max_len)
        t = tuple(sorted(rng.sample(range(n_maj), min(ln, n_maj))))
        terms[t] = rand_coeff(rng)
    return of.MajoranaOperator.from_dict(terms)


def modes_of(jop):
    return max([i for t, _ in jop for i, _ in t], default=-1) + 1


def stream_fermion(ctx):
    of = ctx.of
    jw = of.transforms.jordan_wigner
    st = Stream('fermion-majorana', 'jordan_wigner on every single ladder / Majorana operator up to index 40 (all), on '
                'seeded random FermionOperators (<= 10 modes, <= 5 terms of length <= 6, repeated indices, complex '
                'dyadic coefficients) and MajoranaOperators (<= 12 Majorana indices); Model compared exactly, Spec '
                'oracle on all 2^n basis states (n <= 8); products, sums and Hermitian conjugates compared exactly '
                'with the transformed factors; distinct = distinct input operators')
    b = Batch(ctx, st)
    top = budget(ctx.tier, 24, 40)
    for j in range(top + 1):
        for a in (0, 1):
            A = of.FermionOperator(((j, a),))
            case = {'fn': 'jordan_wigner', 'fermion': [[[j, a]], 1]}
            st.case(case)
            st.count('ladder')
            ok, Q = call(st, 'jordan_wigner(ladder)', case, lambda: jw(A))
            if not ok:
                continue
            jA, jQ = enc_op('fermion', A.terms), enc_op('qubit', Q.terms)
            b.add('jordan_wigner(ladder)', case, jQ, {'op': 'c04.fermion', 'A': jA},
                  oracle('fermion', j + 1, ['op', jA], jQ) if j < 9 else None)
            if len(Q.terms) != 2:
                st.violate('ladder image does not have two Pauli strings', case, {'terms': jQ})
        for bb in (0, 1):
            m = 2 * j + bb
            M = of.MajoranaOperator((m,))
            case = {'fn': 'jordan_wigner', 'majorana': [[m], 1]}
            st.case(case)
            st.count('majorana-single')
            ok, Q = call(st, 'jordan_wigner(majorana)', case, lambda: jw(M))
            if not ok:
                continue
            jA, jQ = enc_op('majorana', M.terms), enc_op('qubit', Q.terms)
            b.add('jordan_wigner(majorana)', case, jQ, {'op': 'c04.majorana', 'A': jA},
                  oracle('majorana', j + 1, ['op', jA], jQ) if j < 9 else None)
    b.flush()

    rng = rng_for(ctx.seed, 'c04-fermion')
    n_ops = budget(ctx.tier, 400, 4000)
    if ctx.drift:
        n_ops = max(n_ops, 500)
    prev = None
    for k in range(n_ops):
        small = rng.random() < 0.7
        n_modes = rng.randint(1, 5) if small else rng.randint(5, 10)
        A = rand_fermion_op(rng, of, n_modes, 5 if small else 3, 6 if small else 4)
        jA = enc_op('fermion', A.terms)
        case = {'fn': 'jordan_wigner', 'fermion': jA}
        st.case(case)
        st.count('fermion:modes=%d' % modes_of(jA))
        ok, Q = call(st, 'jordan_wigner(FermionOperator)', case, lambda: jw(A))
        if not ok:
            continue
        jQ = enc_op('qubit', Q.terms)
        n = max(modes_of(jA), modes_of(jQ))
        b.add('jordan_wigner(FermionOperator)', case, jQ, {'op': 'c04.fermion', 'A': jA},
              oracle('fermion', n, ['op', jA], jQ) if n <= 8 else None,
              regime_req={'op': 'c04.fermion_ok', 'A': jA})
        # corollaries of exactness, on the implementation's own values (exact comparison of canonical sums)
        if prev is not None and modes_of(jA) <= 6 and len(A.terms) * len(prev[0].terms) <= 12:
            B, QB = prev
            c = rand_coeff(rng)
            for what, lhs, rhs in (('jw(A*B) = jw(A)*jw(B)', lambda: jw(A * B), lambda: Q * QB),
                                   ('jw(A + c B) = jw(A) + c jw(B)', lambda: jw(A + c * B), lambda: Q + c * QB),
                                   ('jw(A^dagger) = jw(A)^dagger', lambda: jw(of.hermitian_conjugated(A)),
                                    lambda: of.hermitian_conjugated(Q))):
                ok1, l = call(st, what, case, lhs)
                ok2, r = call(st, what, case, rhs)
                st.count('corollary')
                if ok1 and ok2 and canon_nz(enc_op('qubit', l.terms)) != canon_nz(enc_op('qubit', r.terms)):
                    st.violate(what + ' fails', {'A': jA, 'B': enc_op('fermion', B.terms), 'c': to_gq(c)},
                               {'lhs': enc_op('qubit', l.terms), 'rhs': enc_op('qubit', r.terms)})
        prev = (A, Q)
    b.flush()

    rng = rng_for(ctx.seed, 'c04-majorana')
    for k in range(budget(ctx.tier, 60, 600)):
        n_maj = rng.randint(1, 12)
        M = rand_majorana_op(rng, of, n_maj, 4, 6)
        jA = enc_op('majorana', M.terms)
        case = {'fn': 'jordan_wigner', 'majorana': jA}
        st.case(case)
        st.count('majorana')
        ok, Q = call(st, 'jordan_wigner(MajoranaOperator)', case, lambda: jw(M))
        if not ok:
            continue
        jQ = enc_op('qubit', Q.terms)
        n = max((modes_of(jA) + 1) // 2, modes_of(jQ))
        b.add('jordan_wigner(MajoranaOperator)', case, jQ, {'op': 'c04.majorana', 'A': jA},
              oracle('majorana', n, ['op', jA], jQ), regime_req={'op': 'c04.majorana_ok', 'A': jA})
    b.flush()
    return st


# ---------------------------------------------------------------- one_body / two_body helpers

def coeff_kinds(rng):
    return [1.0, rand_coeff(rng, 'complex'), rand_coeff(rng, 'imag'), rand_coeff(rng, 'real'), 1]


def stream_helpers(ctx):
    of = ctx.of
    import importlib
    jwmod = importlib.import_module('openfermion.transforms.opconversions.jordan_wigner')
    st = Stream('one-two-body', 'jordan_wigner_one_body(p,q,c) for all p,q < N1 and jordan_wigner_two_body(p,q,r,s,c) '
                'for ALL index tuples p,q,r,s < N2 (every coincidence pattern and order), each with real, imaginary, '
                'complex and int dyadic coefficients, plus random tuples with indices < 10; Model compared exactly; '
                'Spec oracle: the output acts like c a+_p a+_q a_r a_s + h.c. (once on the diagonal) on all basis '
                'states; distinct = distinct (indices, coefficient)')
    b = Batch(ctx, st)
    rng = rng_for(ctx.seed, 'c04-helpers')
    N1 = budget(ctx.tier, 7, 9)
    N2 = budget(ctx.tier, 5, 7)
    if ctx.drift:
        N2 = 6
    for p in range(N1):
        for q in range(N1):
            for c in coeff_kinds(rng)[:4 if ctx.tier == 'thorough' else 3] + [1]:
                case = {'fn': 'jordan_wigner_one_body', 'p': p, 'q': q, 'c': to_gq(c)}
                st.case(case)
                st.count('one_body:' + ('diag' if p == q else 'p<q' if p < q else 'p>q'))
                ok, Q = call(st, 'jordan_wigner_one_body', case, lambda: jwmod.jordan_wigner_one_body(p, q, c))
                if not ok:
                    continue
                jQ = enc_op('qubit', Q.terms)
                diag_nonreal = p == q and complex(c).imag != 0
                if diag_nonreal:
                    st.count('diagonal-nonreal-coefficient (Spec = c*T)')
                b.add('jordan_wigner_one_body', case, jQ, {'op': 'c04.one_body', 'p': p, 'q': q, 'c': to_gq(c)},
                      oracle('fermion', max(p, q) + 1, ['one_body', p, q, to_gq(c)], jQ),
                      regime_req={'op': 'c04.one_body_ok', 'p': p, 'q': q, 'c': to_gq(c)})
    b.flush()

    def pattern(p, q, r, s):
        if p == q or r == s:
            return 'zero'
        k = len({p, q, r, s})
        if k == 4:
            order = ''.join(str(sorted([p, q, r, s]).index(x)) for x in (p, q, r, s))
            return '4:' + order
        if k == 3:
            eq = 'p=r' if p == r else 'p=s' if p == s else 'q=r' if q == r else 'q=s'
            rest = [x for x in (p, q, r, s) if [p, q, r, s].count(x) == 1]
            c = [x for x in (p, q, r, s) if [p, q, r, s].count(x) == 2][0]
            pos = 'below' if c < min(rest) else 'above' if c > max(rest) else 'between'
            return '3:%s:%s:%s' % (eq, 'a<b' if rest[0] < rest[1] else 'a>b', pos)
        return '2:' + ('p=s' if p == s else 'p=r') + (':p<q' if p < q else ':p>q')

    tuples = list(itertools.product(range(N2), repeat=4))
    extra = budget(ctx.tier, 300, 6000)
    for _ in range(extra):
        tuples.append(tuple(rng.randrange(10) for _ in range(4)))
    for (p, q, r, s) in tuples:
        kinds = coeff_kinds(rng)
        if ctx.tier == 'quick' and not ctx.drift:
            kinds = [kinds[1], kinds[2], rng.choice([kinds[0], kinds[3], kinds[4]])]
        for c in kinds:
            case = {'fn': 'jordan_wigner_two_body', 'pqrs': [p, q, r, s], 'c': to_gq(c)}
            st.case(case)
            st.count('two_body:' + pattern(p, q, r, s))
            ok, Q = call(st, 'jordan_wigner_two_body', case,
                         lambda: jwmod.jordan_wigner_two_body(p, q, r, s, c))
            if not ok:
                continue
            jQ = enc_op('qubit', Q.terms)
            n = max(p, q, r, s) + 1
            b.add('jordan_wigner_two_body', case, jQ,
                  {'op': 'c04.two_body', 'p': p, 'q': q, 'r': r, 's': s, 'c': to_gq(c)},
                  oracle('fermion', n, ['two_body', p, q, r, s, to_gq(c)], jQ) if n <= 8 else None,
                  regime_req={'op': 'c04.two_body_ok', 'p': p, 'q': q, 'r': r, 's': s, 'c': to_gq(c)})
        if len(b.items) > 4000:
            b.flush()
    b.flush()
    st.exhaustive = False
    return st


# ---------------------------------------------------------------- InteractionOperator / DCH

def dy(rng, cplx):
    re = rng.randint(-6, 6) / 2 ** rng.randint(0, 2)
    if not cplx:
        return re
    return complex(re, rng.randint(-6, 6) / 2 ** rng.randint(0, 2))


def rand_hermitian_iop(rng, of, n, cplx, density):
    dtype = complex if cplx else float
    one = numpy.zeros((n, n), dtype=dtype)
    two = numpy.zeros((n, n, n, n), dtype=dtype)
    for p in range(n):
        for q in range(p, n):
            if rng.random() < density:
                v = dy(rng, cplx and p != q)
                one[p, q] = v
                one[q, p] = numpy.conj(v)
    for idx in itertools.product(range(n), repeat=4):
        p, q, r, s = idx
        partner = (s, r, q, p)
        if idx > partner:
            continue
        if rng.random() < density:
            v = dy(rng, cplx and idx != partner)
            two[idx] = v
            two[partner] = numpy.conj(v)
    const = rng.choice([0.0, 1.5, -2.0, 0.25])
    return of.InteractionOperator(const, one, two)


def elementwise_hermitian(two):
    two = numpy.asarray(two)
    return bool(numpy.array_equal(two, numpy.conj(numpy.transpose(two, (3, 2, 1, 0)))))


def noncanonical(rng, two, cplx, force=True):
    """move weight between the antisymmetry-related entries of a two-body tensor IN PLACE without changing the
    operator it denotes (a†_p a†_q a_r a_s = -a†_q a†_p a_r a_s = -a†_p a†_q a_s a_r = a†_q a†_p a_s a_r):
      * a stored entry T[pqrs] = v is moved, entirely or in part, to -T[qprs] / -T[pqsr] / +T[qpsr]
        (so a Hermitian pair T[pqrs] = c, T[srqp] = c* becomes e.g. T[pqrs] = c, T[rsqp] = -c*),
      * a common weight w is added to T[pqrs] and T[qprs] (or T[pqsr]),
      * entries with p = q or r = s (which multiply a zero operator) receive arbitrary values.
    The result is in general NOT Hermitian element by element although the operator is.  Dyadic values only.
    Returns the number of modifications."""
    n = two.shape[0]
    if n < 2:
        return 0
    done = 0

    def val():
        return dy(rng, cplx) or 0.5

    def images(idx):
        p, q, r, s = idx
        return [((q, p, r, s), -1), ((p, q, s, r), -1), ((q, p, s, r), 1)]

    nz = [tuple(int(z) for z in idx) for idx in numpy.argwhere(two != 0)]
    nz = [idx for idx in nz if idx[0] != idx[1] and idx[2] != idx[3]]
    rng.shuffle(nz)
    for k, idx in enumerate(nz[:8]):
        if not (rng.random() < 0.6 or (force and k == 0)):
            continue
        v = two[idx]
        tgt, sg = rng.choice(images(idx))
        part = v if rng.random() < 0.6 else v / 2
        two[idx] -= part
        two[tgt] += sg * part
        done += 1
    for _ in range(rng.randint(1, 3)):
        p, q = rng.sample(range(n), 2)
        r, s = rng.randrange(n), rng.randrange(n)
        w = val()
        if rng.random() < 0.5:
            two[p, q, r, s] += w
            two[q, p, r, s] += w
        else:
            two[r, s, p, q] += w
            two[r, s, q, p] += w
        done += 1
    for _ in range(rng.randint(0, 2)):
        p, r, s = rng.randrange(n), rng.randrange(n), rng.randrange(n)
        if rng.random() < 0.5:
            two[p, p, r, s] = val()
        else:
            two[r, s, p, p] = val()
        done += 1
    return done


def flat(a):
    return [to_gq(x) for x in numpy.asarray(a).reshape(-1)]


def stream_tensors(ctx):
    of = ctx.of
    jw = of.transforms.jordan_wigner
    st = Stream('interaction-dch', 'seeded random Hermitian InteractionOperators (real and complex, no symmetry beyond '
                'Hermiticity, dense and sparse, n <= 4 quick / 5 thorough; 60% stored with two_body[pqrs] = '
                'conj(two_body[srqp]) element by element, 40% in NON-canonical storage: weight moved between the '
                'antisymmetry-related entries T[pqrs] / -T[qprs] / -T[pqsr] / T[qpsr] and arbitrary values on '
                'entries with p = q or r = s, so that only the denoted operator is Hermitian) and '
                'DiagonalCoulombHamiltonians (n <= 5, complex Hermitian T, real symmetric V with non-zero diagonal); '
                'Model compared exactly; Spec oracle against the tensor formula written out term by term; compared '
                'exactly with jordan_wigner(get_fermion_operator(.)); distinct = distinct tensors')
    b = Batch(ctx, st)
    rng = rng_for(ctx.seed, 'c04-iop')
    n_iop = budget(ctx.tier, 120, 900)
    if ctx.drift:
        n_iop = max(n_iop, 120)
    for k in range(n_iop):
        n = rng.choice([1, 2, 2, 3, 3, 3, 4, 4] + ([5] if ctx.tier == 'thorough' and k % 4 == 0 else []))
        cplx = rng.random() < 0.6
        density = rng.choice([0.08, 0.3, 1.0]) if n >= 3 else rng.choice([0.5, 1.0])
        iop = rand_hermitian_iop(rng, of, n, cplx, density)
        storage = 'elementwise-hermitian'
        if n >= 2 and k % 5 in (1, 3):
            # the same Hermitian operator in non-canonical storage (weight moved between antisymmetry-related entries)
            noncanonical(rng, iop.two_body_tensor, cplx)
            storage = 'elementwise-hermitian' if elementwise_hermitian(iop.two_body_tensor) else 'non-canonical'
        one, two = flat(iop.one_body_tensor), flat(iop.two_body_tensor)
        const = to_gq(iop.constant)
        case = {'fn': 'jordan_wigner', 'interaction_operator': {'n': n, 'constant': const, 'one': one, 'two': two}}
        st.case(case)
        st.count('iop:n=%d:%s' % (n, 'complex' if cplx else 'real'))
        st.count('iop:storage:' + storage)
        ok, Q = call(st, 'jordan_wigner(InteractionOperator)', case, lambda: jw(iop))
        if not ok:
            continue
        jQ = enc_op('qubit', Q.terms)
        b.add('jordan_wigner(InteractionOperator)', case, jQ,
              {'op': 'c04.iop', 'n': n, 'constant': const, 'one': one, 'two': two},
              oracle('fermion', n, ['iop', n, const, one, two], jQ),
              regime_req={'op': 'c04.iop_ok', 'n': n, 'constant': const, 'one': one, 'two': two})
        ok, QF = call(st, 'jordan_wigner(get_fermion_operator(iop))', case,
                      lambda: jw(of.transforms.get_fermion_operator(iop)))
        if ok and canon_nz(jQ) != canon_nz(enc_op('qubit', QF.terms)):
            st.violate('InteractionOperator path differs from the FermionOperator path', case,
                       {'fast': jQ, 'fermion_path': enc_op('qubit', QF.terms)})
    b.flush()

    rng = rng_for(ctx.seed, 'c04-dch')
    for k in range(budget(ctx.tier, 80, 900)):
        n = rng.randint(1, 5)
        cplx = rng.random() < 0.6
        one = numpy.zeros((n, n), dtype=complex if cplx else float)
        two = numpy.zeros((n, n), dtype=float)
        dens = rng.choice([0.3, 1.0])
        for p in range(n):
            for q in range(p, n):
                if rng.random() < dens:
                    v = dy(rng, cplx and p != q)
                    one[p, q] = v
                    one[q, p] = numpy.conj(v)
                if rng.random() < dens:
                    w = dy(rng, False)
                    two[p, q] = two[q, p] = w
        const = rng.choice([0.0, 0.75, -1.0])
        ok, dch = call(st, 'DiagonalCoulombHamiltonian()', {'n': n},
                       lambda: of.DiagonalCoulombHamiltonian(one.copy(), two.copy(), const))
        if not ok:
            continue
        # the arrays stored in the object are what the transform (and the docstring formula) read
        j1, j2, jc = flat(dch.one_body), flat(dch.two_body), to_gq(dch.constant)
        case = {'fn': 'jordan_wigner', 'diagonal_coulomb': {'n': n, 'constant': jc, 'one': j1, 'two': j2}}
        st.case(case)
        st.count('dch:n=%d:%s' % (n, 'complex' if cplx else 'real'))
        ok, Q = call(st, 'jordan_wigner(DiagonalCoulombHamiltonian)', case, lambda: jw(dch))
        if not ok:
            continue
        jQ = enc_op('qubit', Q.terms)
        # Spec: T and V as given to the constructor (sum over all ordered pairs, n_p n_p = n_p)
        b.add('jordan_wigner(DiagonalCoulombHamiltonian)', case, jQ,
              {'op': 'c04.dch', 'n': n, 'constant': jc, 'one': j1, 'two': j2},
              oracle('fermion', n, ['dch', n, to_gq(const), flat(one), flat(two)], jQ),
              regime_req={'op': 'c04.dch_ok', 'n': n, 'constant': jc, 'one': j1, 'two': j2})
        ok, QF = call(st, 'jordan_wigner(get_fermion_operator(dch))', case,
                      lambda: jw(of.transforms.get_fermion_operator(dch)))
        if ok and canon_nz(jQ) != canon_nz(enc_op('qubit', QF.terms)):
            st.violate('DiagonalCoulombHamiltonian path differs from the FermionOperator path', case,
                       {'fast': jQ, 'fermion_path': enc_op('qubit', QF.terms)})
    b.flush()
    return st


# ---------------------------------------------------------------- reverse JW

def rand_qubit_op(rng, of, n, max_terms):
    op = of.QubitOperator()
    for _ in range(rng.randint(1, max_terms)):
        t = tuple((i, rng.choice('XYZ')) for i in range(n) if rng.random() < 0.55)
        op += of.QubitOperator(t, rand_coeff(rng))
    return op


def stream_reverse(ctx):
    of = ctx.of
    jw = of.transforms.jordan_wigner
    rjw = of.transforms.reverse_jordan_wigner
    st = Stream('reverse', 'reverse_jordan_wigner on every single Pauli X_j, Y_j, Z_j (j <= 7), all two-qubit Pauli '
                'strings on 3 qubits and seeded random QubitOperators (<= 6 qubits, <= 4 strings); Model compared '
                'exactly; Spec oracle: the FermionOperator returned acts like the QubitOperator on all basis states; '
                'normal_ordered(reverse_jw(jw(A))) = normal_ordered(A) exactly on random A; distinct = distinct inputs')
    b = Batch(ctx, st)
    rng = rng_for(ctx.seed, 'c04-reverse')
    ops = []
    for j in range(8):
        for P in 'XYZ':
            ops.append(of.QubitOperator(((j, P),)))
    for i, j in itertools.combinations(range(3), 2):
        for P in 'XYZ':
            for R in 'XYZ':
                ops.append(of.QubitOperator(((i, P), (j, R)), 1.0))
    ops.append(of.QubitOperator((), 2.0))
    ops.append(of.QubitOperator())
    for _ in range(budget(ctx.tier, 120, 800)):
        ops.append(rand_qubit_op(rng, of, rng.randint(1, 6), 4))
    for Q in ops:
        jQ = enc_op('qubit', Q.terms)
        case = {'fn': 'reverse_jordan_wigner', 'qubit': jQ}
        st.case(case)
        st.count('reverse:qubits=%d' % modes_of(jQ))
        ok, F = call(st, 'reverse_jordan_wigner', case, lambda: rjw(Q))
        if not ok:
            continue
        jF = enc_op('fermion', F.terms)
        n = max(modes_of(jQ), modes_of(jF))
        b.add('reverse_jordan_wigner', case, jF, {'op': 'c04.reverse', 'Q': jQ},
              oracle('fermion', n, ['op', jF], jQ), canonical=False, regime_req={'op': 'c04.reverse_ok', 'Q': jQ})
        # right inverse: jordan_wigner(reverse_jordan_wigner(Q)) acts like Q (reverse_jw_right_inverse)
        ok, Q2 = call(st, 'jordan_wigner(reverse_jordan_wigner(Q))', case, lambda: jw(F))
        if ok:
            st.count('right-inverse')
            jQ2 = enc_op('qubit', Q2.terms)
            b.add('jordan_wigner(reverse_jordan_wigner(Q))', case, jQ2, {'op': 'c04.fermion', 'A': jF},
                  oracle('qubit', n, ['op', jQ], jQ2), regime_req={'op': 'c04.fermion_ok', 'A': jF})
            if canon_nz(jQ2) != canon_nz(jQ):
                st.violate('jordan_wigner(reverse_jordan_wigner(Q)) != Q as dictionaries', case, {'result': jQ2})
    b.flush()
    rng = rng_for(ctx.seed, 'c04-roundtrip')
    for _ in range(budget(ctx.tier, 40, 400)):
        A = rand_fermion_op(rng, of, rng.randint(1, 5), 3, 4)
        jA = enc_op('fermion', A.terms)
        case = {'fn': 'normal_ordered(reverse_jordan_wigner(jordan_wigner(A)))', 'fermion': jA}
        st.case(case)
        st.count('roundtrip')
        ok, R = call(st, 'roundtrip', case, lambda: of.transforms.normal_ordered(rjw(jw(A))))
        ok2, N = call(st, 'normal_ordered', case, lambda: of.transforms.normal_ordered(A))
        if ok and ok2 and canon_nz(enc_op('fermion', R.terms)) != canon_nz(enc_op('fermion', N.terms)):
            st.violate('reverse_jordan_wigner is not a left inverse up to normal ordering', case,
                       {'roundtrip': enc_op('fermion', R.terms), 'normal_ordered': enc_op('fermion', N.terms)})
    return st


# ---------------------------------------------------------------- dual-basis jellium (float)

def close_ops(a, b, tol=1e-9):
    """absolute tolerance 1e-9, scaled down with the largest coefficient when that is below 1 (large grid scales)"""
    keys = set(a.terms) | set(b.terms)
    worst = 0.0
    big = 0.0
    for k in keys:
        x, y = complex(a.terms.get(k, 0.0)), complex(b.terms.get(k, 0.0))
        worst = max(worst, abs(x - y))
        big = max(big, abs(x), abs(y))
    return worst <= tol * min(1.0, big if big > 0 else 1.0), worst


def stream_jellium(ctx):
    of = ctx.of
    import importlib
    jl = importlib.import_module('openfermion.hamiltonians.jellium')
    pw = importlib.import_module('openfermion.hamiltonians.plane_wave_hamiltonian')
    from openfermion.utils import Grid
    st = Stream('dual-basis-jellium', 'jordan_wigner_dual_basis_jellium / jordan_wigner_dual_basis_hamiltonian against '
                'jordan_wigner of the FermionOperator Hamiltonian on grids 1-D (length 2..4), 2-D 2x2 (3x3 thorough), 2-D with '
                'unequal lengths (2,3),(3,2) and anisotropic / sheared cells (axis reversal is not a symmetry there), '
                'grid scales 1e3 and 2e3 (larger scales push kinetic coefficients below the pruning threshold 1e-8 of the library), spinless and spinful, with and without constant / nuclei; float comparison, absolute tolerance 1e-9 '
                'on every coefficient of the union of keys')
    jw = of.transforms.jordan_wigner
    import numpy as np
    # scalar cubic grids, grids with unequal lengths per axis, and anisotropic / sheared cells (on the latter
    # two reversing the axes is not a symmetry, so any mix-up of the orbital numbering convention shows)
    grids = [(1, 2, 1.0), (1, 3, 2.0), (1, 4, 1.5), (2, 2, 1.0),
             (2, (2, 3), 1.0), (2, (3, 2), 1.5), (2, 2, np.diag([1.0, 1.7])), (1, 3, 1.0e3), (2, 2, 2.0e3),
             (2, (2, 3), np.array([[1.0, 0.3], [0.0, 1.2]]))]
    if ctx.tier == 'thorough':
        grids += [(2, 3, 2.0), (1, 5, 0.75), (3, 2, 1.0), (3, (2, 1, 3), 1.0), (2, (3, 2), np.diag([0.8, 1.3])),
                  (3, (2, 1, 2), np.diag([1.0, 1.5, 0.7]))]
    for (d, l, scale) in grids:
        cubic = isinstance(scale, float)
        for spinless in (True, False):
            npts = int(np.prod(l)) if not isinstance(l, int) else l ** d
            if npts * (1 if spinless else 2) > 18:
                continue
            shown = [d, list(l) if not isinstance(l, int) else l, scale if cubic else np.asarray(scale).tolist()]
            for const in ((False, True) if cubic else (False,)):
                grid = Grid(d, l, scale)
                case = {'fn': 'jordan_wigner_dual_basis_jellium', 'grid': shown, 'spinless': spinless,
                        'include_constant': const}
                st.case(case)
                st.count('jellium:d=%d:%s' % (d, 'cubic' if cubic and isinstance(l, int) else 'non-symmetric'))
                ok, fast = call(st, 'jordan_wigner_dual_basis_jellium', case,
                                lambda: jl.jordan_wigner_dual_basis_jellium(grid, spinless, const))
                ok2, ref = call(st, 'jordan_wigner(dual_basis_jellium_model)', case,
                                lambda: jw(jl.dual_basis_jellium_model(grid, spinless, True, True, const)))
                if ok and ok2:
                    st.float_comparisons += len(set(fast.terms) | set(ref.terms))
                    good, worst = close_ops(fast, ref)
                    if not good:
                        st.violate('dual-basis jellium fast path differs from jordan_wigner(model)', case,
                                   {'max_abs_difference': worst})
            cell = np.asarray(scale) if not cubic else np.diag([scale] * d)
            geometry = [('H', tuple(cell.dot(np.array([0.25] * d)))), ('He', tuple(cell.dot(np.array([0.6, 0.35, 0.8][:d]))))]
            grid = Grid(d, l, scale)
            case = {'fn': 'jordan_wigner_dual_basis_hamiltonian', 'grid': shown, 'spinless': spinless,
                    'geometry': geometry}
            st.case(case)
            st.count('hamiltonian:d=%d:%s' % (d, 'cubic' if cubic and isinstance(l, int) else 'non-symmetric'))
            ok, fast = call(st, 'jordan_wigner_dual_basis_hamiltonian', case,
                            lambda: pw.jordan_wigner_dual_basis_hamiltonian(grid, geometry, spinless, False))
            ok2, ref = call(st, 'jordan_wigner(plane_wave_hamiltonian)', case,
                            lambda: jw(pw.plane_wave_hamiltonian(grid, geometry, spinless, False, False)))
            if ok and ok2:
                st.float_comparisons += len(set(fast.terms) | set(ref.terms))
                good, worst = close_ops(fast, ref)
                if not good:
                    st.violate('dual-basis Hamiltonian fast path differs from jordan_wigner(model)', case,
                               {'max_abs_difference': worst})
    return st




# ---------------------------------------------------------------- dual-basis jellium: Model over the index structure

def jellium_tables(grid, np):
    """K(delta), P(delta) of dual_basis_jellium_model, computed with the very float operations (and order) of
    the library loop, as exact dyadic rationals; indexed by the tensor factor of the displacement"""
    n_points = grid.num_points
    position_prefactor = 2.0 * np.pi / grid.volume_scale()
    pts = list(grid.all_points_indices())
    momenta_of = {i: grid.momentum_vector(i) for i in pts}
    origin = (0,) * grid.dimensions
    r0 = grid.position_vector(origin)
    kin, pot = {}, {}
    for b in pts:
        diff = grid.position_vector(b) - r0
        kc = 0.0
        pc = 0.0
        for mi in pts:
            momenta = momenta_of[mi]
            msq = momenta.dot(momenta)
            if msq == 0:
                continue
            cos_difference = np.cos(momenta.dot(diff))
            kc += cos_difference * msq / (2.0 * float(n_points))
            pc += position_prefactor * cos_difference / msq
        kin[b] = kc
        pot[b] = pc

    def tf(idx):
        t, stride = 0, 1
        for d, i in enumerate(idx):
            t += i * stride
            stride *= grid.length[d]
        return t
    K = [0.0] * n_points
    P = [0.0] * n_points
    for b in pts:
        K[tf(b)] = kin[b]
        P[tf(b)] = pot[b]
    return pts, kin, pot, K, P


def stream_jellium_model(ctx):
    of = ctx.of
    import importlib
    import numpy as np
    jl = importlib.import_module('openfermion.hamiltonians.jellium')
    from openfermion.utils import Grid
    st = Stream('dual-basis-jellium-model', 'Model of dual_basis_jellium_model and jordan_wigner_dual_basis_jellium over '
                'the exact index structure (all_points_indices, orbital_id, grid_indices, shifts modulo the lengths, spin '
                'bookkeeping, skipped strings) with the momentum sums K(delta), P(delta) as given tables (computed with the '
                'library loop\'s own float operations, passed as exact dyadics): the FermionOperator model is compared EXACTLY '
                '(keys and coefficients); the direct qubit form is compared exactly on its set of strings and to 1e-9 on '
                'coefficients (its four momentum sums are closed forms in K(0), P(0), K(delta), P(delta) in the Model); the '
                'hypotheses of jw_jellium_direct_sound (K, P even, sum of P over the grid = 0) are evaluated numerically; '
                'grids 1-D..3-D, unequal lengths, sheared cells, spinless / spinful, with / without Madelung constant')
    grids = [(1, 2, 1.0), (1, 3, 2.0), (1, 4, 1.5), (2, 2, 1.0), (2, (2, 3), 1.0), (2, (3, 2), 1.5),
             (2, 2, np.diag([1.0, 1.7])), (2, (2, 3), np.array([[1.0, 0.3], [0.0, 1.2]])), (1, 5, 0.75)]
    if ctx.tier == 'thorough' or ctx.drift:
        grids += [(2, 3, 2.0), (3, 2, 1.0), (3, (2, 1, 3), 1.0), (2, (3, 2), np.diag([0.8, 1.3])),
                  (3, (2, 1, 2), np.diag([1.0, 1.5, 0.7])), (1, 7, 1.0), (2, (4, 2), 1.0)]
    reqs = []
    for (d, l, scale) in grids:
        cubic = isinstance(scale, float)
        for spinless in (True, False):
            grid = Grid(d, l, scale)
            npts = grid.num_points
            if npts * (1 if spinless else 2) > 18:
                continue
            lengths = [int(x) for x in grid.length]
            ok, tabs = call(st, 'grid vectors', {'grid': [d, lengths]}, lambda: jellium_tables(grid, np))
            if not ok:
                continue
            pts, kin, pot, K, P = tabs
            # hypotheses of the theorem, numerically
            sub = lambda a, b: tuple((x - y) % L for x, y, L in zip(a, b, lengths))     # noqa: E731
            zero = tuple([0] * d)
            even = max([abs(kin[sub(zero, b)] - kin[b]) + abs(pot[sub(zero, b)] - pot[b]) for b in pts])
            psum = abs(sum(pot[b] for b in pts))
            scale_p = max(1.0, max(abs(pot[b]) for b in pts))
            st.float_comparisons += 2 * len(pts) + 1
            st.count('hypothesis K, P even: %s' % ('holds to 1e-9' if even <= 1e-9 * scale_p else 'FAILS'))
            st.count('hypothesis sum P = 0: %s' % ('holds to 1e-9' if psum <= 1e-9 * scale_p * len(pts) else 'FAILS'))
            for const in ((False, True) if cubic else (False,)):
                cval = (2.8372 / grid.volume_scale() ** (1.0 / grid.dimensions)) if const else None
                shown = [d, lengths, scale if cubic else np.asarray(scale).tolist()]
                case = {'fn': 'dual_basis_jellium_model / jordan_wigner_dual_basis_jellium', 'grid': shown,
                        'spinless': spinless, 'include_constant': const}
                st.case(case)
                st.count('jellium-model:d=%d:%s' % (d, 'spinless' if spinless else 'spinful'))
                args = {'lengths': lengths, 'spinless': spinless, 'kin': [to_gq(x) for x in K],
                        'pot': [to_gq(x) for x in P], 'constant': None if cval is None else to_gq(cval)}
                ok1, F = call(st, 'dual_basis_jellium_model', case,
                              lambda: jl.dual_basis_jellium_model(grid, spinless, True, True, const))
                ok2, Q = call(st, 'jordan_wigner_dual_basis_jellium', case,
                              lambda: jl.jordan_wigner_dual_basis_jellium(grid, spinless, const))
                if ok1:
                    reqs.append(('model', case, enc_op('fermion', F.terms), dict(args, op='c04.jellium_model')))
                    reqs.append(('ok', case, None, dict(args, op='c04.jellium_model_ok')))
                if ok2:
                    reqs.append(('direct', case, enc_op('qubit', Q.terms), dict(args, op='c04.jellium_direct')))
                    reqs.append(('ok', case, None, dict(args, op='c04.jellium_direct_ok')))
        ok, mp = call(st, 'all_points_indices', {'grid': [d, lengths]}, lambda: [list(map(int, x)) for x in Grid(d, l, scale).all_points_indices()])
        if ok:
            reqs.append(('points', {'fn': 'all_points_indices', 'lengths': lengths}, mp,
                         {'op': 'c04.jellium_points', 'lengths': lengths}))
    answers = ctx.driver.run([r[3] for r in reqs])
    from common import from_gq
    for (kind, case, impl, _), mo in zip(reqs, answers):
        if kind == 'ok':
            st.count('float tables, exact-regime flag of this path: %s' %
                     ('holds' if mo else 'fails (a coefficient that is an exact-zero sum evaluated to ~1e-15 was deleted by '
                      '+=; Model mirrors the deletion, comparison with the Model stays exact; the two library paths are then '
                      'tied by the numeric 1e-9 comparison of stream dual-basis-jellium only)'))
        elif kind == 'points':
            if impl != mo:
                st.disagree('all_points_indices: order differs', case, impl, mo)
        elif kind == 'model':
            if canon_op_json(impl) != canon_op_json(mo):
                st.disagree('dual_basis_jellium_model: terms differ', case, impl, mo)
        else:
            ki = {json_key(t): c for t, c in impl}
            km = {json_key(t): c for t, c in mo}
            if set(ki) != set(km):
                st.disagree('jordan_wigner_dual_basis_jellium: set of strings differs', case,
                            sorted(set(ki) - set(km))[:5], sorted(set(km) - set(ki))[:5])
                continue
            big = max([1.0] + [abs(complex(*[float(x) for x in from_gq(c)])) for c in km.values()])
            worst = 0.0
            for k in ki:
                a = complex(*[float(x) for x in from_gq(ki[k])])
                b2 = complex(*[float(x) for x in from_gq(km[k])])
                worst = max(worst, abs(a - b2))
            st.float_comparisons += len(ki)
            if worst > 1e-9 * big:
                st.violate('jordan_wigner_dual_basis_jellium: coefficient differs from the Model closed form', case,
                           {'max_abs_difference': worst})
    return st


def stream_dual_basis_hamiltonian_model(ctx):
    of = ctx.of
    import importlib
    import numpy as np
    pw = importlib.import_module('openfermion.hamiltonians.plane_wave_hamiltonian')
    md = importlib.import_module('openfermion.chem.molecular_data')
    from openfermion.utils import Grid
    st = Stream('dual-basis-hamiltonian-model', 'Model of jordan_wigner_dual_basis_hamiltonian and of '
                'plane_wave_hamiltonian(plane_wave=False) with a geometry (external potential of nuclei on top of the jellium '
                'Model): index structure exact (loops over momenta / qubits / nuclei resp. positions / nuclei / momenta / '
                'spins, orbital numbering, skipped zero momentum, "operator = first term", Q((), c) - Q(Z_p, c) pairs, final '
                '+), coefficient table ext[k][x][j] = (-2 pi / Omega) / k^2 Z_j cos(k.(R_j - r_x)) computed with the '
                'library\'s own float operations (the FermionOperator form uses exactly twice it): both paths '
                'accumulate many float coefficients on one key (rounding) where the Model adds the same numbers exactly, so '
                'both are compared exactly on their sets of strings (coefficients above 1e-7) and to 1e-9 on coefficients; '
                'grids 1-D / 2-D, unequal lengths, sheared cell, spinless / spinful, 1-2 nuclei')
    grids = [(1, 2, 1.0), (1, 3, 2.0), (1, 4, 1.5), (2, 2, 1.0), (2, (2, 3), 1.0), (2, (3, 2), 1.5),
             (2, 2, np.diag([1.0, 1.7])), (2, (2, 3), np.array([[1.0, 0.3], [0.0, 1.2]]))]
    if ctx.tier == 'thorough' or ctx.drift:
        grids += [(1, 5, 0.75), (3, 2, 1.0), (2, 3, 2.0)]
    reqs = []
    for (d, l, scale) in grids:
        cubic = isinstance(scale, float)
        cell = np.asarray(scale) if not cubic else np.diag([scale] * d)
        geos = [[('H', tuple(cell.dot(np.array([0.25] * d))))],
                [('H', tuple(cell.dot(np.array([0.25] * d)))), ('He', tuple(cell.dot(np.array([0.6, 0.35, 0.8][:d]))))]]
        for spinless in (True, False):
            grid = Grid(d, l, scale)
            if grid.num_points * (1 if spinless else 2) > 16:
                continue
            lengths = [int(x) for x in grid.length]
            ok, tabs = call(st, 'grid vectors', {'grid': [d, lengths]}, lambda: jellium_tables(grid, np))
            if not ok:
                continue
            pts, kin, pot, K, P = tabs
            for geometry in geos:
                def tables():
                    volume = grid.volume_scale()
                    prefactor = -2 * np.pi / volume
                    n = grid.num_points
                    tf = lambda idx: sum(i * int(np.prod(lengths[:dd])) for dd, i in enumerate(idx))   # noqa: E731
                    skip = [False] * n
                    ext = [[[0.0] * len(geometry) for _ in range(n)] for _ in range(n)]
                    for k in pts:
                        momenta = grid.momentum_vector(k)
                        msq = momenta.dot(momenta)
                        if msq == 0:
                            skip[tf(k)] = True
                            continue
                        for x in pts:
                            coordinate_p = grid.position_vector(x)
                            for j, nuc in enumerate(geometry):
                                coordinate_j = np.array(nuc[1], float)
                                cos_index = momenta.dot(coordinate_j - coordinate_p)
                                ext[tf(k)][tf(x)][j] = (prefactor / msq * md.periodic_hash_table[nuc[0]] * np.cos(cos_index))
                    return skip, ext
                ok, se = call(st, 'external potential table', {'grid': [d, lengths]}, tables)
                if not ok:
                    continue
                skip, ext = se
                shown = [d, lengths, scale if cubic else np.asarray(scale).tolist()]
                case = {'fn': 'jordan_wigner_dual_basis_hamiltonian / plane_wave_hamiltonian(plane_wave=False)',
                        'grid': shown, 'spinless': spinless, 'geometry': [[a, list(map(float, b))] for a, b in geometry]}
                st.case(case)
                st.count('hamiltonian-model:d=%d:%s:%d nuclei' % (d, 'spinless' if spinless else 'spinful', len(geometry)))
                args = {'lengths': lengths, 'spinless': spinless, 'kin': [to_gq(x) for x in K], 'pot': [to_gq(x) for x in P],
                        'constant': None, 'nuclei': len(geometry), 'skip': skip,
                        'ext': [[[to_gq(float(c)) for c in row] for row in plane] for plane in ext]}
                ok1, F = call(st, 'plane_wave_hamiltonian(plane_wave=False)', case,
                              lambda: pw.plane_wave_hamiltonian(grid, geometry, spinless, False, False))
                ok2, Q = call(st, 'jordan_wigner_dual_basis_hamiltonian', case,
                              lambda: pw.jordan_wigner_dual_basis_hamiltonian(grid, geometry, spinless, False))
                if ok1:
                    reqs.append(('model', case, enc_op('fermion', F.terms), dict(args, op='c04.dbh_model')))
                    reqs.append(('ok', case, None, dict(args, op='c04.dbh_model_ok')))
                if ok2:
                    reqs.append(('direct', case, enc_op('qubit', Q.terms), dict(args, op='c04.dbh_direct')))
                    reqs.append(('ok', case, None, dict(args, op='c04.dbh_direct_ok')))
    answers = ctx.driver.run([r[3] for r in reqs])
    from common import from_gq
    for (kind, case, impl, _), mo in zip(reqs, answers):
        if kind == 'ok':
            st.count('float tables, exact-regime flag of this path: %s' % ('holds' if mo else 'fails (a partial sum of '
                     'rounding size, ~1e-17, is deleted by += in the exact-rational run of the Model)'))
        else:
            # both paths accumulate many float coefficients on the same key (sum over momenta and nuclei), which
            # rounds; the Model adds the same numbers exactly: keys are compared exactly, coefficients to 1e-9
            ki = {json_key(t): c for t, c in impl}
            km = {json_key(t): c for t, c in mo}
            tiny = lambda c: abs(complex(*[float(x) for x in from_gq(c)])) < 1e-7      # noqa: E731
            if {k for k in ki if not tiny(ki[k])} != {k for k in km if not tiny(km[k])}:
                st.disagree(('plane_wave_hamiltonian(plane_wave=False)' if kind == 'model' else
                             'jordan_wigner_dual_basis_hamiltonian') + ': set of strings differs', case,
                            sorted(set(ki) - set(km))[:5], sorted(set(km) - set(ki))[:5])
                continue
            big = max([1.0] + [abs(complex(*[float(x) for x in from_gq(c)])) for c in km.values()])
            worst = 0.0
            zero = [0, 1, 0, 1]
            for k in set(ki) | set(km):
                a = complex(*[float(x) for x in from_gq(ki.get(k, zero))])
                b2 = complex(*[float(x) for x in from_gq(km.get(k, zero))])
                worst = max(worst, abs(a - b2))
            st.float_comparisons += len(set(ki) | set(km))
            if worst > 1e-9 * big:
                st.violate(('plane_wave_hamiltonian(plane_wave=False)' if kind == 'model' else
                            'jordan_wigner_dual_basis_hamiltonian') + ': coefficient differs from the Model', case,
                           {'max_abs_difference': worst})
    return st


COS_TABLE = {1: {0: 1}, 2: {0: 1, 1: -1}, 3: {0: 1, 1: Fraction(-1, 2), 2: Fraction(-1, 2)},
             4: {0: 1, 1: 0, 2: -1, 3: 0},
             6: {0: 1, 1: Fraction(1, 2), 2: Fraction(-1, 2), 3: -1, 4: Fraction(-1, 2), 5: Fraction(1, 2)}}


def stream_jellium_exact(ctx):
    """instances on which EVERY hypothesis of jw_jellium_direct_sound holds exactly"""
    import math
    from openfermion.utils import Grid
    st = Stream('dual-basis-jellium-exact-tables', 'grids whose cosines are rational (lcm of the lengths in {1,2,3,4,6}): '
                'K(delta) = sum_k cos(k.r_delta) |m_k|^2 / 2n and P(delta) = sum_k cos(k.r_delta) / |m_k|^2 computed as exact '
                'rationals from the library\'s momentum integers (units 2 pi / a = 1, prefactor 2 pi / Omega = 1); on these the '
                'driver evaluates ALL hypotheses of jw_jellium_direct_sound_of_flags and (with two nuclei placed on grid points, '
                'ext[k][x][j] = -Z_j cos(k.(R_j - r_x)) / |m_k|^2) of jw_dual_basis_hamiltonian_sound (K, P even and sum P = 0 '
                'exactly; both exact-regime flags) and the Spec oracle re-checks the conclusion (the Model direct form acts like the Model '
                'FermionOperator on every basis state, n_qubits <= 10); spinless and spinful, with and without a constant')
    shapes = [(2,), (3,), (4,), (6,), (2, 2), (2, 3), (3, 2), (3, 3), (2, 4), (4, 2), (2, 2, 2), (6, 1), (1, 3, 2)]
    if ctx.tier == 'thorough' or ctx.drift:
        shapes += [(4, 4), (2, 6), (3, 6), (2, 2, 3), (3, 2, 2), (2, 3, 2)]
    reqs, meta = [], []
    for shape in shapes:
        d = len(shape)
        D = 1
        for L in shape:
            D = D * L // math.gcd(D, L)
        if D not in COS_TABLE:
            continue
        n = 1
        for L in shape:
            n *= L
        grid = Grid(d, shape, 1.0)
        pts = [tuple(int(x) for x in p) for p in grid.all_points_indices()]
        mints = {p: [int(x) for x in grid.index_to_momentum_ints(p)] for p in pts}
        K = [Fraction(0)] * n
        P = [Fraction(0)] * n
        for b in pts:
            kc, pc = Fraction(0), Fraction(0)
            for kpt in pts:
                m = mints[kpt]
                msq = sum(x * x for x in m)
                if msq == 0:
                    continue
                r = sum(mi * bi * (D // L) for mi, bi, L in zip(m, b, shape)) % D
                c = Fraction(COS_TABLE[D][r])
                kc += c * msq / (2 * n)
                pc += c / msq
            t, stride = 0, 1
            for i, L in zip(b, shape):
                t += i * stride
                stride *= L
            K[t], P[t] = kc, pc
        for spinless in (True, False):
            nq = n * (1 if spinless else 2)
            if nq > 12:
                continue
            for const in (None, Fraction(7, 4)):
                case = {'fn': 'jw_jellium_direct_sound (exact tables)', 'lengths': list(shape), 'spinless': spinless,
                        'constant': None if const is None else to_gq(const)}
                st.case(case)
                st.count('exact-tables:d=%d:%s' % (d, 'spinless' if spinless else 'spinful'))
                args = {'lengths': list(shape), 'spinless': spinless, 'kin': [to_gq(x) for x in K],
                        'pot': [to_gq(x) for x in P], 'constant': None if const is None else to_gq(const)}
                for op in ('c04.jellium_hyp', 'c04.jellium_direct_ok', 'c04.jellium_model_ok', 'c04.jellium_direct',
                           'c04.jellium_model'):
                    reqs.append(dict(args, op=op))
                meta.append((case, nq))
            # with nuclei sitting on grid points (rational cosines): jw_dual_basis_hamiltonian_sound
            nuclei = [(pts[0], 1), (pts[-1], 2)]
            skip = [False] * n
            ext = [[[Fraction(0)] * len(nuclei) for _ in range(n)] for _ in range(n)]
            tfi = lambda idx: sum(i * int(numpy.prod(shape[:dd])) for dd, i in enumerate(idx))     # noqa: E731
            for kpt in pts:
                m = mints[kpt]
                msq = sum(x * x for x in m)
                if msq == 0:
                    skip[tfi(kpt)] = True
                    continue
                for xpt in pts:
                    for j, (rj, zj) in enumerate(nuclei):
                        r = sum(mi * (a - b2) * (D // L) for mi, a, b2, L in zip(m, rj, xpt, shape)) % D
                        ext[tfi(kpt)][tfi(xpt)][j] = -Fraction(zj) * Fraction(COS_TABLE[D][r]) / msq
            case = {'fn': 'jw_dual_basis_hamiltonian_sound (exact tables)', 'lengths': list(shape), 'spinless': spinless,
                    'nuclei_at': [list(rj) for rj, _ in nuclei]}
            st.case(case)
            st.count('exact-tables with nuclei:d=%d:%s' % (d, 'spinless' if spinless else 'spinful'))
            args = {'lengths': list(shape), 'spinless': spinless, 'kin': [to_gq(x) for x in K], 'pot': [to_gq(x) for x in P],
                    'constant': None, 'nuclei': len(nuclei), 'skip': skip,
                    'ext': [[[to_gq(c) for c in row] for row in plane] for plane in ext]}
            for op in ('c04.jellium_hyp', 'c04.dbh_direct_ok', 'c04.dbh_model_ok', 'c04.dbh_direct', 'c04.dbh_model'):
                reqs.append(dict(args, op=op))
            meta.append((case, nq))
    ans = ctx.driver.run(reqs)
    oreqs, ocases = [], []
    for i, (case, nq) in enumerate(meta):
        hyp, okd, okm, Q, A = ans[5 * i: 5 * i + 5]
        st.count('hypotheses K, P even and sum P = 0 (exact): %s' % ('hold' if hyp else 'FAIL'))
        st.count('exact-regime flags (direct, model): %s' % ('both hold' if okd and okm else 'direct=%s model=%s' % (okd, okm)))
        if not hyp:
            st.violate('exact rational tables do not satisfy the hypotheses of jw_jellium_direct_sound', case, {})
        if hyp and okd and okm:
            st.count('theorem applies (all hypotheses hold)')
            if nq <= 10:
                oreqs.append(oracle('fermion', nq, ['op', A], Q))
                ocases.append(case)
    for case, a in zip(ocases, ctx.driver.run(oreqs)):
        st.count('oracle:checked')
        if not a['eq']:
            st.violate('Model direct form does not act like the Model FermionOperator although all hypotheses hold', case,
                       {'witness_state': a['state']})
    return st


def json_key(t):
    return tuple(tuple(f) for f in t)


# ---------------------------------------------------------------- replay of a recorded failing input

def _op_from_json(of, cls, jop):
    from common import dec_term, gq_to_complex
    C = {'fermion': of.FermionOperator, 'qubit': of.QubitOperator}[cls]
    op = C()
    for t, c in jop:
        op += C(dec_term(cls, t), gq_to_complex(c))
    return op


def _arr(lst, shape):
    from common import gq_to_complex
    return numpy.array([gq_to_complex(c) for c in lst], dtype=complex).reshape(shape)


def impl_output(ctx, case):
    """re-run the implementation on a recorded case -> protocol operator (or None if not replayable)"""
    import importlib
    from common import gq_to_complex, dec_term
    of = ctx.of
    jw = of.transforms.jordan_wigner
    fn = case.get('fn')
    if fn == 'jordan_wigner' and 'fermion' in case:
        f = case['fermion']
        if f and not isinstance(f[0][0], list) or (f and len(f) == 2 and isinstance(f[1], int)):
            f = [[f[0], [f[1], 1, 0, 1]]]
        return enc_op('qubit', jw(_op_from_json(of, 'fermion', f)).terms)
    if fn == 'jordan_wigner' and 'majorana' in case:
        f = case['majorana']
        if len(f) == 2 and isinstance(f[1], int):
            f = [[[[i, 0] for i in f[0]], [f[1], 1, 0, 1]]]
        M = of.MajoranaOperator.from_dict({tuple(i for i, _ in t): gq_to_complex(c) for t, c in f})
        return enc_op('qubit', jw(M).terms)
    if fn == 'jordan_wigner' and 'interaction_operator' in case:
        d = case['interaction_operator']
        n = d['n']
        iop = of.InteractionOperator(gq_to_complex(d['constant']), _arr(d['one'], (n, n)), _arr(d['two'], (n,) * 4))
        return enc_op('qubit', jw(iop).terms)
    if fn == 'jordan_wigner' and 'diagonal_coulomb' in case:
        d = case['diagonal_coulomb']
        n = d['n']
        dch = of.DiagonalCoulombHamiltonian(_arr(d['one'], (n, n)), numpy.real(_arr(d['two'], (n, n))).copy(),
                                            gq_to_complex(d['constant']).real)
        return enc_op('qubit', jw(dch).terms)
    jwmod = importlib.import_module('openfermion.transforms.opconversions.jordan_wigner')
    if fn == 'jordan_wigner_one_body':
        return enc_op('qubit', jwmod.jordan_wigner_one_body(case['p'], case['q'], gq_to_complex(case['c'])).terms)
    if fn == 'jordan_wigner_two_body':
        return enc_op('qubit', jwmod.jordan_wigner_two_body(*case['pqrs'], gq_to_complex(case['c'])).terms)
    if fn == 'reverse_jordan_wigner':
        return enc_op('fermion', of.transforms.reverse_jordan_wigner(_op_from_json(of, 'qubit', case['qubit'])).terms)
    return None


def replay(ctx, payload):
    """True: the recorded input no longer fails; False: still fails; None: not replayable"""
    v = payload.get('violation')
    if not v:
        return None
    case, detail = v.get('input', {}), v.get('detail', {})
    req = detail.get('request')
    try:
        out = impl_output(ctx, case)
    except Exception:
        return False
    if out is None or not req:
        return None
    req = dict(req)
    if case.get('fn') == 'reverse_jordan_wigner':
        req['A'] = ['op', out]
    else:
        req['Q'] = out
    return bool(ctx.driver.one(req)['eq'])


# ---------------------------------------------------------------- hardening: State, Types, Bands, Asymmetry

BAND = [2.0 ** -15, 2.0 ** -16, 2.0 ** -17, 2.0 ** -18, 2.0 ** -19]     # 3.1e-5 .. 1.9e-6, exact in binary


def band_val(rng, cplx):
    """a dyadic value of magnitude 1.9e-6 .. 8.7e-5 < 1e-4 (real, purely imaginary or complex)"""
    re = rng.choice([1, -1, 2, -2]) * rng.choice(BAND)
    if not cplx:
        return re
    kind = rng.random()
    if kind < 0.4:
        return complex(0.0, re)
    return complex(re, rng.choice([1, -1, 2]) * rng.choice(BAND))


def soft(st, tag, f):
    """a call with an argument type the tree under test may legitimately reject: an exception only excludes the type"""
    import signal
    old = signal.signal(signal.SIGALRM, _alarm)
    signal.setitimer(signal.ITIMER_REAL, CALL_TIMEOUT_S)
    try:
        return True, f()
    except ImplTimeout:
        st.count('type-probe-timeout:' + tag)
        return False, None
    except Exception:
        st.count('type-rejected-by-this-tree:' + tag)
        return False, None
    finally:
        signal.setitimer(signal.ITIMER_REAL, 0)
        signal.signal(signal.SIGALRM, old)


def herm_tensors(rng, n, cplx, density, integer=False):
    """Hermitian one-/two-body arrays (complex128): two[p,q,r,s] = conj(two[s,r,q,p]); purely imaginary
    off-diagonal entries are frequent (zero real part)"""
    def val(c):
        if integer:
            return float(rng.randint(-4, 4))
        re = rng.randint(-6, 6) / 2 ** rng.randint(0, 2)
        if not c:
            return re
        im = rng.randint(-6, 6) / 2 ** rng.randint(0, 2)
        return complex(0.0, im or 0.5) if rng.random() < 0.35 else complex(re, im)
    one = numpy.zeros((n, n), dtype=complex)
    two = numpy.zeros((n, n, n, n), dtype=complex)
    for p in range(n):
        for q in range(p, n):
            if rng.random() < density:
                v = val(cplx and p != q)
                one[p, q] = v
                one[q, p] = numpy.conj(v)
    for idx in itertools.product(range(n), repeat=4):
        partner = idx[::-1]
        if idx > partner:
            continue
        if rng.random() < density:
            v = val(cplx and idx != partner)
            two[idx] = v
            two[partner] = numpy.conj(v)
    return one, two


ARRAY_KINDS = ['float64', 'complex128', 'complex64', 'float32', 'int64', 'int32', 'fortran-complex128',
               'fortran-float64', 'clongdouble', 'longdouble', 'fortran-complex64']

# tensor dtypes whose scalars are / are not instances of Python complex / float (complex64 and clongdouble are not)
COMPLEX_KINDS = ['complex64', 'clongdouble', 'complex128', 'fortran-complex64']


def is_complex_kind(kind):
    return 'complex' in kind or 'clongdouble' in kind


def cast(arr, kind):
    a = numpy.asarray(arr)
    if not is_complex_kind(kind):
        a = a.real
    if kind.startswith('fortran-'):
        return numpy.asfortranarray(a.astype(kind.split('-')[1]))
    return numpy.ascontiguousarray(a.astype(kind))


QUARTIC_STORAGE = ['canonical', 'partner-moved', 'mixed']


def quartic_tensors(rng, n, cplx, storage, background=0.04):
    """sparse Hermitian tensors (complex128 arrays, dyadic entries exact in float32) for n >= 4 that are guaranteed
    to contain
      * a two-body entry on FOUR DISTINCT modes with non-zero real AND imaginary part (when cplx),
      * a number-excitation entry (three distinct modes) and a hopping with non-zero imaginary part (when cplx);
    storage = 'canonical'     : T[srqp] = conj T[pqrs] element by element;
              'partner-moved' : the Hermitian partner of the quartic entry is stored on an antisymmetry-related
                                entry, e.g. T[pqrs] = c, T[rsqp] = -conj(c) — Hermitian operator, non-Hermitian storage
                                (for real c: a real non-symmetric tensor);
              'mixed'         : additionally weight moved at random between antisymmetry-related entries (noncanonical)"""
    one, two = herm_tensors(rng, n, cplx, background)

    def val(c):
        re = rng.choice([-3, -2, -1, 1, 2, 3]) / 2 ** rng.randint(0, 2)
        if not c:
            return re
        return complex(re, rng.choice([-3, -2, -1, 1, 2, 3]) / 2 ** rng.randint(0, 2))

    def clear(idx):
        a, b, c, d = idx
        for z in ((a, b, c, d), (a, b, d, c), (b, a, d, c), (b, a, c, d)):
            two[z] = 0
            two[z[::-1]] = 0

    p, q, r, s = rng.sample(range(n), 4)
    clear((p, q, r, s))
    v = val(cplx)
    two[p, q, r, s] = v
    if storage == 'canonical':
        two[s, r, q, p] = numpy.conj(v)
    else:
        tgt, sg = rng.choice([((r, s, q, p), -1), ((s, r, p, q), -1), ((r, s, p, q), 1)])
        two[tgt] = sg * numpy.conj(v)
    i3, j3, k3 = rng.sample(range(n), 3)
    idx = rng.choice([(i3, j3, k3, i3), (j3, i3, i3, k3), (i3, j3, i3, k3)])
    clear(idx)
    w = val(cplx)
    two[idx] = w
    two[idx[::-1]] = numpy.conj(w)
    a, c = rng.sample(range(n), 2)
    h = val(cplx)
    one[a, c] = h
    one[c, a] = numpy.conj(h)
    if storage == 'mixed':
        noncanonical(rng, two, cplx)
    return one, two


def sparse_spec_op(const, one, two):
    """the tensor formula written out from the non-zero entries (independent of the library)"""
    A = [[[], to_gq(const)]]
    for (a, c), v in numpy.ndenumerate(numpy.asarray(one)):
        if v != 0:
            A.append([[[a, 1], [c, 0]], to_gq(v)])
    for (a, c, d, e), v in numpy.ndenumerate(numpy.asarray(two)):
        if v != 0:
            A.append([[[a, 1], [c, 1], [d, 0], [e, 0]], to_gq(v)])
    return A


FORCED_BAND = ['diag', 'offdiag', 'coulomb', 'numexc', 'quartic-ijkl', 'quartic-ikjl', 'quartic-iljk']


def band_tensors(rng, n, cplx, forced, st):
    """Hermitian tensors with an O(1) background and small (4e-6 .. 6e-5) entries; `forced` names the entry class
    that is guaranteed to be present and alone in its (anti)symmetrised combination"""
    one, two = herm_tensors(rng, n, cplx, 0.12 if n <= 6 else 0.0)

    def put2(idx, v):
        a, b, c, d = idx
        for z in ((a, b, c, d), (a, b, d, c), (b, a, d, c), (b, a, c, d)):
            two[z] = 0
            two[z[::-1]] = 0
        two[idx] = v
        two[idx[::-1]] = numpy.conj(v)

    def put(kind):
        if kind == 'diag':
            one[rng.randrange(n), rng.randrange(n)] = 0
            p = rng.randrange(n)
            one[p, p] = band_val(rng, False)
        elif kind == 'offdiag' or n < 3:
            p, q = rng.sample(range(n), 2)
            v = band_val(rng, cplx)
            one[p, q] = v
            one[q, p] = numpy.conj(v)
            kind = 'offdiag'
        elif kind == 'coulomb':
            i3, j3 = rng.sample(range(n), 2)
            put2(rng.choice([(i3, j3, j3, i3), (i3, j3, i3, j3)]), band_val(rng, False))
        elif kind == 'numexc' or n < 4:
            i3, j3, k3 = rng.sample(range(n), 3)
            put2(rng.choice([(i3, j3, k3, i3), (j3, i3, i3, k3), (i3, j3, i3, k3)]), band_val(rng, cplx))
            kind = 'numexc'
        else:
            i, j, k, l = sorted(rng.sample(range(n), 4), reverse=True)
            idx = {'quartic-ijkl': (i, j, k, l), 'quartic-ikjl': (i, k, j, l), 'quartic-iljk': (i, l, j, k)}[kind]
            put2(idx, band_val(rng, cplx))
        st.count('band-entry:' + kind)
    put(forced)
    for _ in range(rng.randint(0, 2)):
        put(rng.choice(FORCED_BAND))
    # keep the diagonal one-body entries Hermitian (real) after the random zeroing above
    for p in range(n):
        one[p, p] = one[p, p].real
    for p in range(n):
        for q in range(p + 1, n):
            one[q, p] = numpy.conj(one[p, q])
    return one, two


SCALARS = [('int', 2), ('int', -3), ('float', 1.5), ('complex', 0.5 - 2j), ('complex-imag', 0.75j), ('bool', True),
           ('numpy.float64', numpy.float64(-0.75)), ('numpy.complex128', numpy.complex128(1 + 0.5j)),
           ('numpy.float32', numpy.float32(1.5)), ('numpy.complex64', numpy.complex64(0.5 - 2j)),
           ('numpy.int64', numpy.int64(-3)), ('numpy.int32', numpy.int32(2))]


def arrays_equal(a, b):
    a, b = numpy.asarray(a), numpy.asarray(b)
    return a.shape == b.shape and a.dtype == b.dtype and bool(numpy.array_equal(a, b))


def twice(st, what, case, compute, jenc, mutate):
    """(S) call, mutate the returned value in place, call again: the second result must equal the first
    (as computed before the mutation) and must be a different object"""
    ok, r1 = call(st, what, case, compute)
    if not ok:
        return None
    first = jenc(r1)
    try:
        mutate(r1)
    except Exception:
        pass
    ok, r2 = call(st, what + ' (second call)', case, compute)
    if not ok:
        return None
    st.count('state:called-twice-around-mutation')
    if r2 is r1:
        st.violate(what + ': the second call returned the same object as the first', case, {})
    elif canon_op_json(jenc(r2)) != canon_op_json(first):
        st.violate(what + ': the second call differs after the first result was modified in place', case,
                   {'first': first, 'second': jenc(r2)})
    return r2


def mutate_operator(op):
    op *= 3
    op.terms[()] = 99.0
    for k in list(op.terms)[:1]:
        if k != ():
            del op.terms[k]


def stream_hardening(ctx):
    import importlib
    import copy
    of = ctx.of
    jw = of.transforms.jordan_wigner
    rjw = of.transforms.reverse_jordan_wigner
    jwmod = importlib.import_module('openfermion.transforms.opconversions.jordan_wigner')
    st = Stream('hardening', '(S) every path is called twice around an in-place modification of its first result, '
                'arguments are snapshotted before / after (including the arrays inside tensor objects), objects edited in '
                'place (+=, *=, array assignment) are re-transformed and compared with a freshly built equal object; '
                '(T) tensors as float64 / complex128 / complex64 / clongdouble / longdouble / float32 / int64 / int32 / '
                'Fortran-ordered arrays, every complex dtype with a guaranteed four-distinct-mode entry, a number-excitation '
                'entry and a hopping with non-zero imaginary parts (n = 4, 5), '
                'helper coefficients as Python int / float / complex / bool and numpy scalar types, numpy scalars placed '
                'into .terms (a type this tree rejects is excluded and counted, never an alarm); (B) dyadic entries of '
                'magnitude 2e-6 .. 9e-5 next to O(1) ones in FermionOperators, InteractionOperators and '
                'DiagonalCoulombHamiltonians, sizes 9 .. 20, indices >= 257; (A) complex constants, purely imaginary '
                'entries, non-Hermitian tensors (Model comparison only), Hermitian operators in NON-canonical storage '
                '(Hermitian partner stored on an antisymmetry-related entry with the opposite sign, weight split between '
                'T[pqrs] / -T[qprs] / -T[pqsr] / T[qpsr], junk on p = q / r = s entries; oracle = the operator the stored '
                'tensor denotes), both operand orders.  Everything is compared '
                'exactly with the Model and, where the input is admissible, with the Spec oracle; '
                'distinct = distinct (check, input)')
    b = Batch(ctx, st)
    rng = rng_for(ctx.seed, 'c04-hardening')
    reps = budget(ctx.tier, 1, 4) * (2 if ctx.drift else 1)

    # ---- (T) helper coefficients of every scalar type, (S) on the helpers
    for rep in range(reps):
        for tag, c in SCALARS:
            p, q, r, s = rng.choice([(3, 1, 0, 2), (0, 2, 0, 1), (2, 0, 2, 0), (1, 4, 2, 1), (5, 3, 3, 0),
                                     (0, 1, 2, 3), (2, 1, 1, 2)])
            case = {'fn': 'jordan_wigner_two_body', 'pqrs': [p, q, r, s], 'c': to_gq(c), 'coefficient_type': tag}
            st.case(case)
            ok, Q = soft(st, 'two_body:' + tag, lambda: jwmod.jordan_wigner_two_body(p, q, r, s, c))
            if ok:
                st.count('type-accepted:two_body:' + tag)
                jQ = enc_op('qubit', Q.terms)
                b.add('jordan_wigner_two_body[%s]' % tag, case, jQ,
                      {'op': 'c04.two_body', 'p': p, 'q': q, 'r': r, 's': s, 'c': to_gq(c)},
                      oracle('fermion', max(p, q, r, s) + 1, ['two_body', p, q, r, s, to_gq(c)], jQ))
            case = {'fn': 'jordan_wigner_one_body', 'p': p, 'q': r, 'c': to_gq(c), 'coefficient_type': tag}
            st.case(case)
            ok, Q = soft(st, 'one_body:' + tag, lambda: jwmod.jordan_wigner_one_body(p, r, c))
            if ok:
                st.count('type-accepted:one_body:' + tag)
                jQ = enc_op('qubit', Q.terms)
                b.add('jordan_wigner_one_body[%s]' % tag, case, jQ, {'op': 'c04.one_body', 'p': p, 'q': r, 'c': to_gq(c)},
                      oracle('fermion', max(p, r) + 1, ['one_body', p, r, to_gq(c)], jQ))
            # numpy scalar placed directly into .terms
            A = of.FermionOperator()
            A.terms[((2, 1), (0, 0))] = c
            A.terms[((1, 1),)] = 0.5
            case = {'fn': 'jordan_wigner', 'fermion': enc_op('fermion', A.terms), 'coefficient_type': tag}
            st.case(case)
            ok, Q = soft(st, 'terms:' + tag, lambda: jw(A))
            if ok:
                st.count('type-accepted:terms:' + tag)
                jA, jQ = enc_op('fermion', A.terms), enc_op('qubit', Q.terms)
                b.add('jordan_wigner(.terms holds %s)' % tag, case, jQ, {'op': 'c04.fermion', 'A': jA},
                      oracle('fermion', 3, ['op', jA], jQ))
        case = {'fn': 'jordan_wigner_two_body', 'pqrs': [3, 0, 1, 3], 'c': to_gq(0.5 - 1.5j), 'check': 'state'}
        st.case(case)
        twice(st, 'jordan_wigner_two_body', case, lambda: jwmod.jordan_wigner_two_body(3, 0, 1, 3, 0.5 - 1.5j),
              lambda Q: enc_op('qubit', Q.terms), mutate_operator)
        twice(st, 'jordan_wigner_one_body', case, lambda: jwmod.jordan_wigner_one_body(4, 1, 0.5 - 1.5j),
              lambda Q: enc_op('qubit', Q.terms), mutate_operator)
    b.flush()

    # ---- (S) FermionOperator / MajoranaOperator / QubitOperator paths
    for rep in range(3 * reps):
        A = rand_fermion_op(rng, of, rng.randint(2, 5), 3, 4)
        B = rand_fermion_op(rng, of, rng.randint(2, 5), 2, 3)
        snap = copy.deepcopy(A.terms)
        jA = enc_op('fermion', A.terms)
        case = {'fn': 'jordan_wigner', 'fermion': jA, 'check': 'state'}
        st.case(case)
        Q = twice(st, 'jordan_wigner(FermionOperator)', case, lambda: jw(A), lambda Q: enc_op('qubit', Q.terms),
                  mutate_operator)
        if A.terms != snap or enc_op('fermion', A.terms) != jA:
            st.violate('jordan_wigner modified its FermionOperator argument', case, {'after': enc_op('fermion', A.terms)})
        # edited in place, then transformed again: must agree with a freshly built equal operator
        A += B
        A *= 2
        fresh = of.FermionOperator()
        for t, c in A.terms.items():
            fresh += of.FermionOperator(t, c)
        ok1, Qa = call(st, 'jordan_wigner(edited operator)', case, lambda: jw(A))
        ok2, Qf = call(st, 'jordan_wigner(fresh operator)', case, lambda: jw(fresh))
        st.count('state:edited-in-place-then-requeried')
        if ok1 and ok2 and canon_nz(enc_op('qubit', Qa.terms)) != canon_nz(enc_op('qubit', Qf.terms)):
            st.violate('jordan_wigner of an operator edited in place differs from a freshly built equal operator',
                       {'fermion': enc_op('fermion', A.terms)}, {})
        # both operand orders
        for X, Y in ((A, B), (B, A)):
            if len(X.terms) * len(Y.terms) <= 12:
                ok1, l = call(st, 'jw(X*Y)', case, lambda: jw(X * Y))
                ok2, r = call(st, 'jw(X)*jw(Y)', case, lambda: jw(X) * jw(Y))
                st.count('asymmetry:both-operand-orders')
                if ok1 and ok2 and canon_nz(enc_op('qubit', l.terms)) != canon_nz(enc_op('qubit', r.terms)):
                    st.violate('jw(X*Y) != jw(X)*jw(Y)', {'X': enc_op('fermion', X.terms), 'Y': enc_op('fermion', Y.terms)}, {})
        Qb = rand_qubit_op(rng, of, rng.randint(1, 5), 3)
        jQb = enc_op('qubit', Qb.terms)
        case = {'fn': 'reverse_jordan_wigner', 'qubit': jQb, 'check': 'state'}
        st.case(case)
        twice(st, 'reverse_jordan_wigner', case, lambda: rjw(Qb), lambda F: enc_op('fermion', F.terms), mutate_operator)
        if enc_op('qubit', Qb.terms) != jQb:
            st.violate('reverse_jordan_wigner modified its argument', case, {})
        M = rand_majorana_op(rng, of, rng.randint(2, 8), 3, 4)
        jM = enc_op('majorana', M.terms)
        case = {'fn': 'jordan_wigner', 'majorana': jM, 'check': 'state'}
        st.case(case)
        twice(st, 'jordan_wigner(MajoranaOperator)', case, lambda: jw(M), lambda Q: enc_op('qubit', Q.terms),
              mutate_operator)
        if enc_op('majorana', M.terms) != jM:
            st.violate('jordan_wigner modified its MajoranaOperator argument', case, {})

    # ---- (T)(A)(S) InteractionOperator: array types, complex constant, non-Hermitian (Model only), in-place edits
    for rep in range(reps):
        for kind in ARRAY_KINDS:
            n = rng.choice([2, 3, 3, 4])
            real = not is_complex_kind(kind)
            integer = kind.startswith('int')
            one, two = herm_tensors(rng, n, not real, rng.choice([0.3, 1.0]), integer)
            const = rng.choice([0.0, 1.5, 0.5 - 0.25j, 2j])
            c1, c2 = cast(one, kind), cast(two, kind)
            s1, s2 = c1.copy(), c2.copy()
            ok, iop = soft(st, 'InteractionOperator:' + kind, lambda: of.InteractionOperator(const, c1, c2))
            if not ok:
                continue
            j1, j2, jc = flat(iop.one_body_tensor), flat(iop.two_body_tensor), to_gq(const)
            case = {'fn': 'jordan_wigner', 'interaction_operator': {'n': n, 'constant': jc, 'one': j1, 'two': j2},
                    'array_type': kind}
            st.case(case)
            ok, Q = soft(st, 'jw(InteractionOperator):' + kind, lambda: jw(iop))
            if not ok:
                continue
            st.count('type-accepted:InteractionOperator:' + kind)
            jQ = enc_op('qubit', Q.terms)
            b.add('jordan_wigner(InteractionOperator[%s])' % kind, case, jQ,
                  {'op': 'c04.iop', 'n': n, 'constant': jc, 'one': j1, 'two': j2},
                  oracle('fermion', n, ['op', sparse_spec_op(const, s1, s2)], jQ))
            if not (arrays_equal(iop.one_body_tensor, s1) and arrays_equal(iop.two_body_tensor, s2)
                    and arrays_equal(c1, s1) and arrays_equal(c2, s2)):
                st.violate('jordan_wigner modified the tensors of its InteractionOperator argument', case, {})
            twice(st, 'jordan_wigner(InteractionOperator)', case, lambda: jw(iop), lambda Q: enc_op('qubit', Q.terms),
                  mutate_operator)
            # edit in place (keeping it Hermitian), re-transform, compare with a freshly built operator
            if n >= 2 and not integer:
                v = 0.75 if real else (0.75 - 0.5j)
                iop.one_body_tensor[0, 1] = v
                iop.one_body_tensor[1, 0] = numpy.conj(v)
                iop.two_body_tensor[0, 1, 1, 0] = 1.25
                fresh_iop = of.InteractionOperator(const, iop.one_body_tensor.copy(), iop.two_body_tensor.copy())
                if kind in ('clongdouble', 'longdouble'):
                    # scalars of these dtypes are not accepted as QubitOperator coefficients by the unmodified tree:
                    # whether a transform raises depends on which entries are non-zero, so the edited calls are probes
                    ok1, Qa = soft(st, 'jw(edited InteractionOperator):' + kind, lambda: jw(iop))
                    ok2, Qf = soft(st, 'jw(fresh InteractionOperator):' + kind, lambda: jw(fresh_iop))
                    if ok1 != ok2:
                        st.violate('jordan_wigner accepts an InteractionOperator edited in place but not a fresh equal one '
                                   '(or vice versa)', case, {})
                else:
                    ok1, Qa = call(st, 'jw(edited InteractionOperator)', case, lambda: jw(iop))
                    ok2, Qf = call(st, 'jw(fresh InteractionOperator)', case, lambda: jw(fresh_iop))
                st.count('state:edited-in-place-then-requeried')
                if ok1 and ok2 and canon_op_json(enc_op('qubit', Qa.terms)) != canon_op_json(enc_op('qubit', Qf.terms)):
                    st.violate('jordan_wigner of an InteractionOperator edited in place differs from a fresh one', case, {})
        # non-Hermitian tensors: the code symmetrises; only the Model (which mirrors it) is compared
        n = rng.choice([2, 3])
        one = numpy.array([[complex(rng.randint(-4, 4) / 2, rng.randint(-4, 4) / 4) for _ in range(n)] for _ in range(n)])
        two = numpy.zeros((n,) * 4, dtype=complex)
        for idx in itertools.product(range(n), repeat=4):
            if rng.random() < 0.4:
                two[idx] = complex(rng.randint(-4, 4) / 2, rng.randint(-4, 4) / 4)
        iop = of.InteractionOperator(0.5j, one, two)
        case = {'fn': 'jordan_wigner', 'interaction_operator': {'n': n, 'constant': to_gq(0.5j), 'one': flat(one),
                                                               'two': flat(two)}, 'check': 'non-Hermitian, Model only'}
        st.case(case)
        st.count('asymmetry:non-hermitian-tensor')
        ok, Q = call(st, 'jordan_wigner(non-Hermitian InteractionOperator)', case, lambda: jw(iop))
        if ok:
            b.add('jordan_wigner(non-Hermitian InteractionOperator)', case, enc_op('qubit', Q.terms),
                  {'op': 'c04.iop', 'n': n, 'constant': to_gq(0.5j), 'one': flat(one), 'two': flat(two)})
    b.flush()

    # ---- (T)(A) complex four-distinct-mode entries in every complex dtype (complex64 / clongdouble scalars are not
    #      Python complex); Hermitian operators whose STORAGE is not Hermitian element by element
    for rep in range(2 * reps):
        for ki, kind in enumerate(COMPLEX_KINDS + ['float64', 'float32']):
            n = rng.choice([4, 4, 5])
            storage = QUARTIC_STORAGE[(rep + ki) % len(QUARTIC_STORAGE)]
            one, two = quartic_tensors(rng, n, is_complex_kind(kind), storage)
            const = rng.choice([0.0, 1.5, 0.5 - 0.25j])
            c1, c2 = cast(one, kind), cast(two, kind)
            s1, s2 = c1.copy(), c2.copy()
            ok, iop = soft(st, 'InteractionOperator:' + kind, lambda: of.InteractionOperator(const, c1, c2))
            if not ok:
                continue
            j1, j2, jc = flat(iop.one_body_tensor), flat(iop.two_body_tensor), to_gq(const)
            case = {'fn': 'jordan_wigner', 'interaction_operator': {'n': n, 'constant': jc, 'one': j1, 'two': j2},
                    'array_type': kind, 'storage': storage}
            st.case(case)
            ok, Q = soft(st, 'jw(InteractionOperator):' + kind, lambda: jw(iop))
            if not ok:
                continue
            st.count('quartic-entry:%s:%s' % (kind, storage))
            st.count('storage:' + ('elementwise-hermitian' if elementwise_hermitian(s2) else 'non-canonical'))
            jQ = enc_op('qubit', Q.terms)
            b.add('jordan_wigner(InteractionOperator[%s], %s storage)' % (kind, storage), case, jQ,
                  {'op': 'c04.iop', 'n': n, 'constant': jc, 'one': j1, 'two': j2},
                  oracle('fermion', n, ['op', sparse_spec_op(const, s1, s2)], jQ))
            ok, QF = soft(st, 'jw(get_fermion_operator(iop)):' + kind, lambda: jw(of.transforms.get_fermion_operator(iop)))
            if ok and canon_nz(jQ) != canon_nz(enc_op('qubit', QF.terms)):
                st.violate('InteractionOperator path differs from the FermionOperator path (%s, %s storage)'
                           % (kind, storage), case, {'fast': jQ, 'fermion_path': enc_op('qubit', QF.terms)})
    b.flush()

    # ---- (T)(B)(S) DiagonalCoulombHamiltonian: one_body of every float / complex type, band entries
    for rep in range(2 * reps):
        for kind in ['complex128', 'complex64', 'float64', 'float32', 'fortran-complex128', 'fortran-float64', 'int64',
                     'clongdouble']:
            n = rng.randint(2, 4)
            real = not is_complex_kind(kind)
            one, _ = herm_tensors(rng, n, not real, 1.0, kind == 'int64')
            two = numpy.zeros((n, n))
            for p in range(n):
                for q in range(p, n):
                    two[p, q] = two[q, p] = rng.randint(-4, 4) / 2
            if rep % 2 == 1 and kind in ('complex128', 'float64'):
                # a small hopping and a small interaction next to O(1) ones
                v = band_val(rng, not real)
                one[0, n - 1] = v
                one[n - 1, 0] = numpy.conj(v)
                two[0, 1] = two[1, 0] = band_val(rng, False)
            const = rng.choice([0.0, 0.75, -1.0])
            o_in = cast(one, kind)
            t_in = numpy.asfortranarray(two) if kind.startswith('fortran') else two.copy()
            ok, dch = soft(st, 'DiagonalCoulombHamiltonian:' + kind,
                           lambda: of.DiagonalCoulombHamiltonian(o_in.copy(), t_in.copy(), const))
            if not ok:
                continue
            j1, j2, jc = flat(dch.one_body), flat(dch.two_body), to_gq(dch.constant)
            s1, s2 = dch.one_body.copy(), dch.two_body.copy()
            case = {'fn': 'jordan_wigner', 'diagonal_coulomb': {'n': n, 'constant': jc, 'one': j1, 'two': j2},
                    'array_type': kind}
            st.case(case)
            ok, Q = soft(st, 'jw(DiagonalCoulombHamiltonian):' + kind, lambda: jw(dch))
            if not ok:
                continue
            st.count('type-accepted:DiagonalCoulombHamiltonian:' + kind)
            jQ = enc_op('qubit', Q.terms)
            b.add('jordan_wigner(DiagonalCoulombHamiltonian[%s])' % kind, case, jQ,
                  {'op': 'c04.dch', 'n': n, 'constant': jc, 'one': j1, 'two': j2},
                  oracle('fermion', n, ['dch', n, to_gq(const), flat(o_in), flat(t_in)], jQ))
            if not (arrays_equal(dch.one_body, s1) and arrays_equal(dch.two_body, s2)):
                st.violate('jordan_wigner modified the arrays of its DiagonalCoulombHamiltonian argument', case, {})
            twice(st, 'jordan_wigner(DiagonalCoulombHamiltonian)', case, lambda: jw(dch),
                  lambda Q: enc_op('qubit', Q.terms), mutate_operator)
            ok, QF = soft(st, 'jw(get_fermion_operator(dch)):' + kind, lambda: jw(of.transforms.get_fermion_operator(dch)))
            if ok and canon_nz(jQ) != canon_nz(enc_op('qubit', QF.terms)):
                st.violate('DiagonalCoulombHamiltonian path differs from the FermionOperator path', case, {})
    b.flush()

    # ---- (B) small entries next to O(1) ones: InteractionOperator and FermionOperator; sizes 9..20; indices >= 257
    for rep in range(len(FORCED_BAND) * reps):
        forced = FORCED_BAND[rep % len(FORCED_BAND)]
        n = rng.choice([4, 4, 5, 6] + ([9] if rep % 7 == 3 else []))
        cplx = rng.random() < 0.6
        one, two = band_tensors(rng, n, cplx, forced, st)
        iop = of.InteractionOperator(rng.choice([0.0, 1.5]), one, two)
        j1, j2, jc = flat(one), flat(two), to_gq(iop.constant)
        case = {'fn': 'jordan_wigner', 'interaction_operator_sparse': {'n': n, 'terms': sparse_spec_op(iop.constant, one, two)},
                'check': 'band 2e-6..9e-5 next to O(1)'}
        st.case(case)
        ok, Q = call(st, 'jordan_wigner(InteractionOperator with small entries)', case, lambda: jw(iop))
        if ok:
            jQ = enc_op('qubit', Q.terms)
            b.add('jordan_wigner(InteractionOperator with small entries)', case, jQ,
                  {'op': 'c04.iop', 'n': n, 'constant': jc, 'one': j1, 'two': j2},
                  oracle('fermion', n, ['op', sparse_spec_op(iop.constant, one, two)], jQ))
            ok, QF = call(st, 'jw(get_fermion_operator(iop))', case, lambda: jw(of.transforms.get_fermion_operator(iop)))
            if ok and canon_nz(jQ) != canon_nz(enc_op('qubit', QF.terms)):
                st.violate('InteractionOperator path differs from the FermionOperator path (small entries)', case, {})
        A = of.FermionOperator()
        nm = rng.randint(2, 6)
        for _ in range(3):
            t = tuple((rng.randrange(nm), rng.randint(0, 1)) for _ in range(rng.randint(1, 3)))
            A += of.FermionOperator(t, band_val(rng, True) if rng.random() < 0.6 else rand_coeff(rng))
        jA = enc_op('fermion', A.terms)
        case = {'fn': 'jordan_wigner', 'fermion': jA, 'check': 'band'}
        st.case(case)
        ok, Q = call(st, 'jordan_wigner(FermionOperator with small coefficients)', case, lambda: jw(A))
        if ok:
            jQ = enc_op('qubit', Q.terms)
            b.add('jordan_wigner(FermionOperator with small coefficients)', case, jQ, {'op': 'c04.fermion', 'A': jA},
                  oracle('fermion', max(modes_of(jA), 1), ['op', jA], jQ))
    for rep in range(reps):
        modes = sorted(rng.sample(range(9, 21), 3)) + [0]
        A = of.FermionOperator()
        for _ in range(2):
            t = tuple((rng.choice(modes), rng.randint(0, 1)) for _ in range(rng.randint(1, 3)))
            A += of.FermionOperator(t, rand_coeff(rng))
        jA = enc_op('fermion', A.terms)
        case = {'fn': 'jordan_wigner', 'fermion': jA, 'check': 'sizes 9..20'}
        st.case(case)
        st.count('size:9..20')
        ok, Q = call(st, 'jordan_wigner(FermionOperator on 9..20 modes)', case, lambda: jw(A))
        if ok:
            b.add('jordan_wigner(FermionOperator on 9..20 modes)', case, enc_op('qubit', Q.terms),
                  {'op': 'c04.fermion', 'A': jA})
        for (p, q, r, s) in [(257, 1, 300, 258), (258, 257, 257, 0), (300, 257, 300, 257)]:
            c = rand_coeff(rng, 'complex')
            case = {'fn': 'jordan_wigner_two_body', 'pqrs': [p, q, r, s], 'c': to_gq(c), 'check': 'indices >= 257'}
            st.case(case)
            st.count('index>=257')
            ok, Q = call(st, 'jordan_wigner_two_body(indices >= 257)', case, lambda: jwmod.jordan_wigner_two_body(p, q, r, s, c))
            if ok:
                b.add('jordan_wigner_two_body(indices >= 257)', case, enc_op('qubit', Q.terms),
                      {'op': 'c04.two_body', 'p': p, 'q': q, 'r': r, 's': s, 'c': to_gq(c)})
        Al = of.FermionOperator(((257, 1), (300, 0)), 0.5 - 1j)
        jA = enc_op('fermion', Al.terms)
        case = {'fn': 'jordan_wigner', 'fermion': jA, 'check': 'indices >= 257'}
        st.case(case)
        ok, Q = call(st, 'jordan_wigner(indices >= 257)', case, lambda: jw(Al))
        if ok:
            b.add('jordan_wigner(indices >= 257)', case, enc_op('qubit', Q.terms), {'op': 'c04.fermion', 'A': jA})
    b.flush()
    return st


# ---------------------------------------------------------------- histories of grids in one process (shared state)

def _own_vectors(np, cell, lengths):
    """position / momentum vectors of every grid point from the cell matrix alone (no Grid method):
    r(n) = sum_i (n_i - L_i // 2) / L_i * cell[:, i],  k(n) = sum_i (n_i - L_i // 2) * (2 pi inv(cell).T)[:, i]"""
    import itertools as it
    recip = 2.0 * np.pi * np.linalg.inv(cell).T
    pts = list(it.product(*[range(L) for L in lengths]))
    pos = {n: sum((float(n[i] - lengths[i] // 2) / lengths[i]) * cell[:, i] for i in range(len(lengths))) for n in pts}
    mom = {n: sum((n[i] - lengths[i] // 2) * recip[:, i] for i in range(len(lengths))) for n in pts}
    return pts, pos, mom


def _own_dual_basis(of, np, cell, lengths, spinless, geometry=None):
    """the dual-basis jellium Hamiltonian (arXiv:1706.00023, eq. of dual_basis_jellium_model), optionally with the
    external potential of nuclei, as a FermionOperator built from the cell matrix alone"""
    pts, pos, mom = _own_vectors(np, cell, lengths)
    n_points = len(pts)
    volume = abs(float(np.linalg.det(cell)))
    spins = [None] if spinless else [0, 1]

    def orb(n, spin):
        t, stride = 0, 1
        for i, v in enumerate(n):
            t += v * stride
            stride *= lengths[i]
        return t if spin is None else 2 * t + spin
    op = of.FermionOperator()
    origin = (0,) * len(lengths)
    for b in pts:
        diff = pos[b] - pos[origin]
        kc = pc = 0.0
        for k in pts:
            k2 = float(mom[k].dot(mom[k]))
            if k2 == 0:
                continue
            c = float(np.cos(mom[k].dot(diff)))
            kc += c * k2 / (2.0 * n_points)
            pc += (2.0 * np.pi / volume) * c / k2
        for shift in pts:
            a_idx = tuple((origin[i] + shift[i]) % lengths[i] for i in range(len(lengths)))
            b_idx = tuple((b[i] + shift[i]) % lengths[i] for i in range(len(lengths)))
            for sp in spins:
                op += of.FermionOperator(((orb(a_idx, sp), 1), (orb(b_idx, sp), 0)), kc)
            for sa in spins:
                for sb in spins:
                    pa, pb = orb(a_idx, sa), orb(b_idx, sb)
                    if pa != pb:
                        op += of.FermionOperator(((pa, 1), (pa, 0), (pb, 1), (pb, 0)), pc)
    if geometry:
        charges = {'H': 1, 'He': 2, 'Li': 3}
        for n in pts:
            for sym, xyz in geometry:
                rj = np.array(xyz, float)
                for k in pts:
                    k2 = float(mom[k].dot(mom[k]))
                    if k2 == 0:
                        continue
                    coef = (-4.0 * np.pi / volume) / k2 * charges[sym] * float(np.cos(mom[k].dot(rj - pos[n])))
                    for sp in spins:
                        op += of.FermionOperator(((orb(n, sp), 1), (orb(n, sp), 0)), coef)
    return op


def _fresh(f):
    """run f() in a forked child of the current process and return its (picklable) result: the child inherits the
    state of the library as it is NOW and its own calls do not touch the parent"""
    import os
    import pickle
    r, w = os.pipe()
    pid = os.fork()
    if pid == 0:
        try:
            os.close(r)
            try:
                out = ('ok', f())
            except BaseException as e:   # noqa
                out = ('exc', '%s: %s' % (type(e).__name__, str(e)[:300]))
            with os.fdopen(w, 'wb') as fh:
                pickle.dump(out, fh)
        finally:
            os._exit(0)
    os.close(w)
    with os.fdopen(r, 'rb') as fh:
        data = fh.read()
    os.waitpid(pid, 0)
    return pickle.loads(data) if data else ('exc', 'child died')


def _terms(x):
    """picklable, order-preserving view of a result"""
    import numpy as np
    if hasattr(x, 'terms'):
        return ('op', [(k, complex(v)) for k, v in x.terms.items()])
    return ('array', np.asarray(x).tolist())


def _same(a, b, tol):
    """exact on the keys (strings) and their order-insensitive set, tol on coefficients"""
    if a[0] != b[0]:
        return False, 'kinds differ'
    if a[0] == 'array':
        import numpy as np
        x, y = np.asarray(a[1], complex), np.asarray(b[1], complex)
        if x.shape != y.shape:
            return False, 'shapes differ'
        w = float(np.max(np.abs(x - y))) if x.size else 0.0
        return w <= tol, 'max abs difference %.3e' % w
    da, db = dict(a[1]), dict(b[1])
    if set(da) != set(db):
        return False, 'term sets differ (%d keys only in one of them)' % len(set(da) ^ set(db))
    w = max([abs(da[k] - db[k]) for k in da] or [0.0])
    return w <= tol, 'max abs difference %.3e' % w


def stream_grid_histories(ctx):
    """state shared across CALLS: histories of different grids in one process"""
    of = ctx.of
    import importlib
    import numpy as np
    jl = importlib.import_module('openfermion.hamiltonians.jellium')
    pw = importlib.import_module('openfermion.hamiltonians.plane_wave_hamiltonian')
    from openfermion.utils import Grid
    jw = of.transforms.jordan_wigner
    st = Stream('grid-histories', 'state shared across calls: HISTORIES of grids in one process — grid A, then grids with the same '
                'dimensions, the same per-axis lengths and the same cell VOLUME but a different cell SHAPE (diag(1,4) -> diag(2,2) '
                '-> sheared [[2,1],[0,2]] -> diag(4,1); cubic scale 1.0 -> diag(2,0.5); lengths (2,2), (2,3), (3,2); 3-D in the '
                'thorough tier), then A again; at every step jordan_wigner_dual_basis_jellium, jordan_wigner_dual_basis_hamiltonian, '
                'dual_basis_jellium_model, plane_wave_hamiltonian (dual basis and plane waves), jellium_model (plane waves), '
                'dual_basis_external_potential, plane_wave_external_potential, dual_basis_kinetic / _potential, '
                'plane_wave_kinetic / _potential and the position / momentum vectors of all points are evaluated; each '
                'result must equal (exact on the strings, 1e-12 on coefficients) the result of the SAME call in a FRESH history '
                '(a child forked before the first call of the stream, which runs before every other jellium stream), the two '
                'visits of A must agree, the fast Jordan-Wigner paths must equal jordan_wigner of an INDEPENDENT construction '
                'of the Hamiltonian from the cell matrix alone (no Grid method; 1e-9) and the vectors must equal r(n), k(n) '
                'computed from the cell matrix (1e-12); distinct = (history step, function, spin)')
    histories = [
        ((2, 2), [np.diag([1.0, 4.0]), np.diag([2.0, 2.0]), np.array([[2.0, 1.0], [0.0, 2.0]]), np.diag([4.0, 1.0])]),
        ((3, 2), [1.0, np.diag([2.0, 0.5])]),
        ((2, 3), [np.diag([1.0, 4.0]), np.array([[2.0, 1.0], [0.0, 2.0]]), np.diag([4.0, 1.0])]),
    ]
    if ctx.tier == 'thorough':
        histories += [
            ((3, 2), [np.diag([1.0, 4.0]), np.diag([2.0, 2.0]), np.array([[2.0, 1.0], [0.0, 2.0]]), np.diag([4.0, 1.0])]),
            ((2, 1, 2), [np.diag([1.0, 1.0, 4.0]), np.diag([2.0, 2.0, 1.0]), np.array([[2.0, 1.0, 0.0], [0.0, 1.0, 0.5], [0.0, 0.0, 2.0]])]),
            ((3, 3), [2.0, np.diag([1.0, 4.0]), np.array([[4.0, 1.0], [0.0, 1.0]])]),
        ]

    def calls(lengths, scale, spinless):
        d = len(lengths)
        cell = np.diag([scale] * d) if isinstance(scale, float) else np.asarray(scale, float)
        geometry = [('H', tuple(cell.dot(np.array([0.25] * d)))), ('He', tuple(cell.dot(np.array([0.6, 0.35, 0.8][:d]))))]

        def G():
            return Grid(d, lengths, scale)
        out = [
            ('jordan_wigner_dual_basis_jellium', lambda: jl.jordan_wigner_dual_basis_jellium(G(), spinless, False)),
            ('jordan_wigner_dual_basis_hamiltonian', lambda: pw.jordan_wigner_dual_basis_hamiltonian(G(), geometry, spinless, False)),
            ('dual_basis_jellium_model', lambda: jl.dual_basis_jellium_model(G(), spinless, True, True, False)),
            ('plane_wave_hamiltonian(dual basis)', lambda: pw.plane_wave_hamiltonian(G(), geometry, spinless, False, False)),
        ]
        if spinless:
            out += [
                ('plane_wave_hamiltonian(plane waves)', lambda: pw.plane_wave_hamiltonian(G(), geometry, True, True, False)),
                ('jellium_model(plane waves)', lambda: jl.jellium_model(G(), True, True, False)),
                ('dual_basis_external_potential', lambda: pw.dual_basis_external_potential(G(), geometry, True)),
                ('plane_wave_external_potential', lambda: pw.plane_wave_external_potential(G(), geometry, True)),
                ('dual_basis_kinetic', lambda: jl.dual_basis_kinetic(G(), True)),
                ('dual_basis_potential', lambda: jl.dual_basis_potential(G(), True)),
                ('plane_wave_kinetic', lambda: jl.plane_wave_kinetic(G(), True)),
                ('plane_wave_potential', lambda: jl.plane_wave_potential(G(), True)),
                ('position_vector(all points)', lambda: [G().position_vector(n) for n in G().all_points_indices()]),
                ('momentum_vector(all points)', lambda: [G().momentum_vector(n) for n in G().all_points_indices()]),
                ('volume_scale / reciprocal_scale', lambda: [[G().volume_scale()] + list(np.ravel(G().reciprocal_scale))]),
            ]
        return cell, geometry, out

    # 1. the fresh results: one forked child per (grid, spin, function), all forked BEFORE the first call in this process
    steps = []
    for lengths, scales in histories:
        seq = list(scales) + [scales[0]]
        for pos_in_history, scale in enumerate(seq):
            for spinless in (True, False):
                if int(np.prod(lengths)) * (1 if spinless else 2) > 12:
                    continue
                steps.append((lengths, scale, spinless, pos_in_history, pos_in_history == len(seq) - 1))
    fresh = {}
    for lengths, scale, spinless, _, _ in steps:
        cell, geometry, cs = calls(lengths, scale, spinless)
        for name, f in cs:
            key = (lengths, cell.tobytes(), spinless, name)
            if key not in fresh:
                fresh[key] = _fresh(lambda f=f: _terms(f()))
    # 2. the histories, in this process
    first_visit = {}
    for lengths, scale, spinless, pos_in_history, last in steps:
        cell, geometry, cs = calls(lengths, scale, spinless)
        shown = {'lengths': list(lengths), 'cell': cell.tolist(), 'spinless': spinless, 'step': pos_in_history,
                 'history': 'same lengths and volume, different cell shapes; the first grid is revisited at the end'}
        for name, f in cs:
            case = dict(shown, fn=name)
            st.case(case)
            st.count('%s:%s' % (name, 'revisit' if last else ('first' if pos_in_history == 0 else 'other shape')))
            ok, res = call(st, name, case, f)
            if not ok:
                continue
            here = _terms(res)
            status, ref = fresh[(lengths, cell.tobytes(), spinless, name)]
            st.float_comparisons += 1
            if status != 'ok':
                st.violate('%s raised in a fresh history but not in this one: %s' % (name, ref), case, {})
            else:
                good, why = _same(here, ref, 1e-12)
                if not good:
                    st.violate('%s depends on the grids evaluated BEFORE in the same process: differs from the same call in a '
                               'fresh history' % name, case, {'detail': why})
            key = (lengths, cell.tobytes(), spinless, name)
            if key in first_visit:
                good, why = _same(here, first_visit[key], 1e-12)
                if not good:
                    st.violate('%s: the second visit of the same grid differs from the first' % name, case, {'detail': why})
            else:
                first_visit[key] = here
            # independent constructions from the cell matrix alone
            if name in ('jordan_wigner_dual_basis_jellium', 'jordan_wigner_dual_basis_hamiltonian'):
                own = jw(_own_dual_basis(of, np, cell, lengths, spinless,
                                         geometry if name.endswith('hamiltonian') else None))
                st.float_comparisons += len(set(own.terms) | set(res.terms))
                good, worst = close_ops(res, own)
                if not good:
                    st.violate('%s differs from jordan_wigner of the Hamiltonian built from the cell matrix alone' % name, case,
                               {'max_abs_difference': worst})
            elif name in ('dual_basis_jellium_model', 'plane_wave_hamiltonian(dual basis)'):
                own = of.normal_ordered(_own_dual_basis(of, np, cell, lengths, spinless,
                                                        geometry if name.startswith('plane_wave') else None))
                st.float_comparisons += 1
                good, worst = close_ops(of.normal_ordered(res), own)
                if not good:
                    st.violate('%s differs from the Hamiltonian built from the cell matrix alone' % name, case,
                               {'max_abs_difference': worst})
            elif name.startswith('position_vector') or name.startswith('momentum_vector'):
                pts, pos, mom = _own_vectors(np, cell, lengths)
                want = [(pos if name.startswith('position') else mom)[n] for n in pts]
                st.float_comparisons += 1
                if float(np.max(np.abs(np.asarray(res) - np.asarray(want)))) > 1e-12 * max(1.0, float(np.max(np.abs(want)))):
                    st.violate('%s differs from the vectors computed from the cell matrix' % name, case, {})
    return st


def stream_flag_cross(ctx):
    """geometry x include_constant x spinless, positional and keyword, for the dual-basis Hamiltonian helpers"""
    of = ctx.of
    import importlib
    import numpy as np
    pw = importlib.import_module('openfermion.hamiltonians.plane_wave_hamiltonian')
    jl = importlib.import_module('openfermion.hamiltonians.jellium')
    from openfermion.utils import Grid
    from openfermion.linalg import get_sparse_operator
    jw = of.transforms.jordan_wigner
    st = Stream('hamiltonian-flag-cross', 'the full cross geometry in {None, one nucleus, two nuclei} x include_constant in '
                '{False, True} x spinless in {False, True}, arguments passed positionally AND by keyword, on cubic, unequal-length '
                'and anisotropic grids (1-D, 2-D; 3-D thorough), for jordan_wigner_dual_basis_hamiltonian, '
                'plane_wave_hamiltonian(plane_wave=False / True) and, without nuclei, jordan_wigner_dual_basis_jellium / '
                'jellium_model / dual_basis_jellium_model: (i) geometry with include_constant=True must raise ValueError in every '
                'path; (ii) otherwise the fast path equals jordan_wigner(plane_wave_hamiltonian(.., plane_wave=False, '
                'include_constant)) and jordan_wigner of the INDEPENDENT construction from the cell matrix + the Madelung constant '
                '2.8372 / V^(1/d) (1e-9 on every coefficient); (iii) the IDENTITY coefficient of every path is compared '
                'separately (1e-12): for the FermionOperator paths it is exactly the constant (0 without it), for the qubit '
                'paths the constant plus the identity part of the independent construction; (iv) positional and keyword calls '
                'agree exactly; (v) plane-wave and dual-basis Hamiltonians have the same spectrum (<= 8 orbitals, 1e-8); '
                'distinct = (grid, geometry, flags, function)')
    grids = [(1, (3,), 2.0), (2, (2, 2), 1.5), (2, (2, 3), 1.0), (2, (2, 2), np.diag([1.0, 1.7])), (1, (4,), 1.0)]
    if ctx.tier == 'thorough':
        grids += [(2, (3, 2), np.array([[1.0, 0.3], [0.0, 1.2]])), (3, (2, 1, 2), 1.25), (2, (3, 3), 2.0), (1, (5,), 0.75)]
    for d, lengths, scale in grids:
        cell = np.diag([scale] * d) if isinstance(scale, float) else np.asarray(scale, float)
        volume = abs(float(np.linalg.det(cell)))
        madelung = 2.8372 / volume ** (1.0 / d)
        geos = [None,
                [('H', tuple(cell.dot(np.array([0.25] * d))))],
                [('H', tuple(cell.dot(np.array([0.25] * d)))), ('He', tuple(cell.dot(np.array([0.6, 0.35, 0.8][:d]))))]]
        for gi, geometry in enumerate(geos):
            for const in (False, True):
                for spinless in (True, False):
                    n_orb = int(np.prod(lengths)) * (1 if spinless else 2)
                    if n_orb > 12:
                        continue
                    shown = {'grid': [d, list(lengths), cell.tolist()], 'geometry': geometry, 'spinless': spinless,
                             'include_constant': const}

                    def G():
                        return Grid(d, list(lengths), scale)
                    paths = {
                        'jordan_wigner_dual_basis_hamiltonian(positional)':
                            lambda: pw.jordan_wigner_dual_basis_hamiltonian(G(), geometry, spinless, const),
                        'jordan_wigner_dual_basis_hamiltonian(keywords)':
                            lambda: pw.jordan_wigner_dual_basis_hamiltonian(grid=G(), geometry=geometry, spinless=spinless,
                                                                            include_constant=const),
                        'plane_wave_hamiltonian(plane_wave=False, positional)':
                            lambda: pw.plane_wave_hamiltonian(G(), geometry, spinless, False, const),
                        'plane_wave_hamiltonian(plane_wave=False, keywords)':
                            lambda: pw.plane_wave_hamiltonian(G(), geometry=geometry, spinless=spinless, plane_wave=False,
                                                              include_constant=const),
                        'plane_wave_hamiltonian(plane_wave=True, positional)':
                            lambda: pw.plane_wave_hamiltonian(G(), geometry, spinless, True, const),
                        'plane_wave_hamiltonian(plane_wave=True, keywords)':
                            lambda: pw.plane_wave_hamiltonian(G(), geometry=geometry, spinless=spinless, plane_wave=True,
                                                              include_constant=const),
                    }
                    if geometry is None:
                        paths.update({
                            'jordan_wigner_dual_basis_jellium(positional)':
                                lambda: jl.jordan_wigner_dual_basis_jellium(G(), spinless, const),
                            'jordan_wigner_dual_basis_jellium(keywords)':
                                lambda: jl.jordan_wigner_dual_basis_jellium(G(), spinless=spinless, include_constant=const),
                            'jellium_model(plane_wave=False, keywords)':
                                lambda: jl.jellium_model(G(), spinless=spinless, plane_wave=False, include_constant=const),
                            'jellium_model(plane_wave=True, positional)':
                                lambda: jl.jellium_model(G(), spinless, True, const),
                            'dual_basis_jellium_model(keywords)':
                                lambda: jl.dual_basis_jellium_model(G(), spinless=spinless, include_constant=const),
                            'jordan_wigner_dual_basis_hamiltonian(geometry omitted)':
                                lambda: pw.jordan_wigner_dual_basis_hamiltonian(G(), spinless=spinless, include_constant=const),
                        })
                    results = {}
                    for name, f in paths.items():
                        case = dict(shown, fn=name)
                        st.case(case)
                        st.count('geometry=%s:include_constant=%s' % (['None', 'one nucleus', 'two nuclei'][gi], const))
                        if geometry is not None and const:
                            # documented: "Constant term unsupported for non-uniform systems"
                            try:
                                f()
                                st.violate('%s accepts a geometry together with include_constant=True (must raise ValueError)'
                                           % name, case, {})
                            except ValueError:
                                st.count('ValueError as documented')
                            except Exception as e:   # noqa
                                st.violate('%s raised %s instead of ValueError' % (name, type(e).__name__), case, {})
                            continue
                        ok, res = call(st, name, case, f)
                        if ok:
                            results[name] = (case, res)
                    if not results:
                        continue
                    own_f = _own_dual_basis(of, np, cell, lengths, spinless, geometry)
                    if const:
                        own_f = own_f + of.FermionOperator((), madelung)
                    own_q = jw(own_f)
                    want_const = madelung if const else 0.0
                    for name, (case, res) in results.items():
                        qubit = name.startswith('jordan_wigner')
                        plane = 'plane_wave=True' in name
                        # (iii) the identity coefficient
                        st.float_comparisons += 1
                        got_id = complex(res.terms.get((), 0.0))
                        want_id = complex(own_q.terms.get((), 0.0)) if qubit else want_const
                        tol_id = 1e-12 * max(1.0, abs(want_id)) if not qubit else 1e-9 * max(1.0, abs(want_id))
                        if abs(got_id - want_id) > tol_id:
                            st.violate('%s: identity coefficient %r, expected %r (Madelung constant 2.8372 / V^(1/d) = %r %s)'
                                       % (name, got_id, want_id, madelung, 'included' if const else 'not included'), case, {})
                        # (ii) the whole operator
                        if qubit:
                            st.float_comparisons += len(set(res.terms) | set(own_q.terms))
                            good, worst = close_ops(res, own_q)
                            if not good:
                                st.violate('%s differs from jordan_wigner of the independent construction' % name, case,
                                           {'max_abs_difference': worst})
                        elif not plane:
                            st.float_comparisons += 1
                            good, worst = close_ops(of.normal_ordered(res), of.normal_ordered(own_f))
                            if not good:
                                st.violate('%s differs from the independent construction' % name, case,
                                           {'max_abs_difference': worst})
                    # fast path against jordan_wigner of the library's own FermionOperator path
                    a = results.get('jordan_wigner_dual_basis_hamiltonian(positional)')
                    b = results.get('plane_wave_hamiltonian(plane_wave=False, positional)')
                    if a and b:
                        ref = jw(b[1])
                        st.float_comparisons += len(set(ref.terms) | set(a[1].terms))
                        good, worst = close_ops(a[1], ref)
                        if not good:
                            st.violate('jordan_wigner_dual_basis_hamiltonian differs from jordan_wigner(plane_wave_hamiltonian('
                                       'plane_wave=False)) with the same flags', a[0], {'max_abs_difference': worst})
                    # (iv) positional == keyword, exactly
                    for stem in ('jordan_wigner_dual_basis_hamiltonian', 'plane_wave_hamiltonian(plane_wave=False',
                                 'plane_wave_hamiltonian(plane_wave=True', 'jordan_wigner_dual_basis_jellium'):
                        same = [v for k2, v in results.items() if k2.startswith(stem)]
                        for other in same[1:]:
                            if dict(other[1].terms) != dict(same[0][1].terms):
                                st.violate('%s: positional and keyword calls differ' % stem, other[0], {})
                    # (v) plane-wave and dual basis are unitarily equivalent
                    pwv = results.get('plane_wave_hamiltonian(plane_wave=True, positional)')
                    # (not for non-orthogonal cells: there the position-space Hamiltonian is not the Fourier transform
                    # of the momentum-space one when a grid length is even — known finding C13-jellium-sheared-even,
                    # which belongs to property C13, not to the Jordan-Wigner statements of C04)
                    orthogonal = bool(np.allclose(cell, np.diag(np.diag(cell))))
                    if pwv and b and n_orb <= 8 and not orthogonal:
                        st.count('spectrum comparison skipped: non-orthogonal cell (C13 known finding)')
                    if pwv and b and n_orb <= 8 and orthogonal:
                        st.float_comparisons += 1
                        e1 = np.linalg.eigvalsh(get_sparse_operator(pwv[1], n_qubits=n_orb).toarray())
                        e2 = np.linalg.eigvalsh(get_sparse_operator(b[1], n_qubits=n_orb).toarray())
                        if float(np.max(np.abs(e1 - e2))) > 1e-8 * max(1.0, float(np.max(np.abs(e2)))):
                            st.violate('plane-wave and dual-basis Hamiltonians have different spectra', pwv[0],
                                       {'max_abs_difference': float(np.max(np.abs(e1 - e2)))})
    return st


def run(ctx):
    # stream_grid_histories first: its fresh-history children must be forked before any other jellium call of this process
    hist = stream_grid_histories(ctx)
    return [stream_fermion(ctx), stream_helpers(ctx), stream_tensors(ctx), stream_reverse(ctx), hist, stream_flag_cross(ctx),
            stream_jellium(ctx), stream_jellium_model(ctx), stream_jellium_exact(ctx), stream_dual_basis_hamiltonian_model(ctx),
            stream_hardening(ctx)]
