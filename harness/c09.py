"""C09 — binary codes and BinaryPolynomial.

Streams
  poly-programs   random programs over BinaryPolynomial objects (string / sequence / integer
                  constructors, + * ** shift, in-place forms, numpy integers, `a += a`, `q = p ** k; q += r`), every
                  variable compared exactly with the Lean Model after every statement; Spec
                  oracle: the result denotes the GF(2) function the statement promises
                  (all assignments of the support), canonical monomials, evaluate().
  codes           every built-in code at all small sizes and random code expressions (+, int *,
                  concatenation *): encoder / decoder compared with the Model; Spec oracle:
                  decode(encode v) = v for every v of the domain, injectivity.
  transform       binary_code_transform on random domain-preserving fermionic operators:
                  compared with the Model; Spec oracle: action on every encoded basis state of
                  the domain = encoded image of the fermionic action; term-for-term comparison
                  with jordan_wigner / bravyi_kitaev for the JW / BK codes.
"""
import copy
import json
import itertools

import numpy

from common import (Stream, budget, enc_op, canon_op_json, to_gq, dyadic, rng_for, show)

ONE = 'one'

OPEN_STATEMENTS = [
    'weight_two_segment_code valid on its whole domain: FALSE on the current tree (known finding C09-w2seg-decoder); '
    'proved on 13 of the 15 vectors (weight_two_segment_code_valid_partial)',
    'binary_code_transform_sound is proved for the tolerance-free Model (binary_code_transform_sound: for a code valid on a set '
    'of occupation vectors and a Hamiltonian whose terms map that set to itself, <e(u)| R |e(v)> = <u| h |v>; pieces: '
    'binary_code_transform_term_sound, bct_hypotheses_from_validity, update_operator_sound, encoding_identity, '
    'binary_code_transform_term_encoded, binary_code_transform_sum; instances for every n: bct_jw_matrix, bct_bk_matrix, '
    'bct_parity_matrix, bct_interleaved_matrix, bct_checksum_matrix (parity sector); bct_jw_eq_jw: same matrix elements as the '
    'C04 Model of jordan_wigner; bk_encoder_rows, bk_code_encoding_is_spec, bct_bk_eq_bk: same matrix elements between '
    'encoded states as the C05 Model of bravyi_kitaev); the structural hypotheses hold for every constructor and are closed under c + d and k * c '
    'and concatenation c * d (constructors_struct, struct_closed, struct_closed_concat), with soundness for derived codes '
    '(bct_append_sound, bct_int_mul_sound, bct_concat_sound); not proved: the regime where __isub__ / += / compress() drop a non-zero coefficient below '
    '1e-8, and equality of the term dictionaries (not only of the operators) with jordan_wigner / bravyi_kitaev (covered by the transform '
    'stream: Model correspondence + Spec oracle on every encoded domain state + term-for-term comparison with jordan_wigner / '
    'bravyi_kitaev)',
    'Shaped and the decoder structure are proved for every constructor and every code expression the driver builds '
    '(constructors_shaped, code_expression_shaped_struct); ValidOn for a whole code expression follows by composing '
    'concat_valid / append_valid / int_mul_valid with the per-constructor validity theorems (not stated as one induction over '
    'expressions because the domain is expression dependent; the codes stream checks it on the computed domains)',
]
TRUSTED = [
    'C09: string tokenisation of BinaryPolynomial(str) (str.split / isdigit / int) is done by the harness '
    'exactly as the source does and is not modelled; numpy / scipy.sparse matrix kernels (identity, tril, kron, '
    'bmat, dot, reshape) are mirrored by list functions in the Model and tied by the correspondence stream only',
]
ASSUMPTIONS = [
    'domains of the built-in codes are the documented ones (all vectors; even / odd weight; weight 1; weight <= 1 '
    'on 3 modes; weight 1..2 on 5 modes); + gives the product domain, c * c2 the vectors of dom(c) whose encoding '
    'lies in dom(c2)',
    'mode counts n >= 1 (checksum n >= 2, interleaved even n >= 2, binary addressing exponent >= 1) are admissible',
]

ERRNAMES = ('ValueError', 'TypeError', 'BinaryPolynomialError', 'BinaryCodeError', 'AttributeError', 'IndexError')


def errname(e):
    n = type(e).__name__
    return n if n in ERRNAMES else 'other:' + n


# ------------------------------------------------------------------ encodings

def enc_term(t):
    return [-1 if (isinstance(f, str) and f == ONE) else int(f) for f in t]


def enc_poly(p):
    return [enc_term(t) for t in p.terms]


def canon_poly(jp):
    return sorted(tuple(t) for t in jp)


def tokens(s):
    """cut a constructor string as BinaryPolynomial does: [[ [kind, value], …], …]"""
    summands = s.split(' + ') if '+' in s else [s]
    out = []
    for sm in summands:
        toks = []
        for f in sm.split():
            if f.isdigit():
                toks.append([0, int(f)])
            elif f[1:].isdigit():
                toks.append([1, int(f[1:])])
            else:
                toks.append([2, 0])
        out.append(toks)
    return out


def is_canonical_terms(terms):
    """every monomial is ('one',) or a non-empty strictly increasing tuple of ints; no duplicates"""
    seen = set()
    for t in terms:
        t = tuple(t)
        if t in seen:
            return False
        seen.add(t)
        if t == (ONE,):
            continue
        if len(t) == 0:
            return False
        if not all(isinstance(f, (int, numpy.integer)) and not isinstance(f, bool) for f in t):
            return False
        if any(a >= b for a, b in zip(t, t[1:])):
            return False
    return True


def support(jp):
    return {f for t in jp for f in t if f >= 0}


def mkint(v, flavour):
    return {'int': int, 'i64': numpy.int64, 'i32': numpy.int32}[flavour](v)


# ------------------------------------------------------------------ polynomial programs

def rand_index(rng, small):
    if small:
        return rng.randint(0, 4)
    return rng.choice([0, 1, 2, 3, 5, 7, 8, 9, 11, 16, 17, 31, 32, 40, 256, 257, 300, 1000])


def rand_string(rng, small, malformed):
    ns = rng.choice([1, 1, 2, 2, 3, 4])
    summands = []
    for _ in range(ns):
        nf = rng.choice([1, 1, 2, 2, 3, 4])
        fs = []
        for _ in range(nf):
            r = rng.random()
            if r < 0.70:
                fs.append(rng.choice('wWx') + str(rand_index(rng, small)))
            elif r < 0.85:
                fs.append('1')
            elif r < 0.90:
                fs.append(rng.choice(['3', '12', '0']))
            elif r < 0.95:
                fs.append('0')
            elif malformed:
                fs.append(rng.choice(['w', 'ww1', '-1', 'w1w', 'w-2', '+w1']))
            else:
                fs.append('w' + str(rand_index(rng, small)))
        sep = ' ' if rng.random() < 0.85 else '  '
        summands.append(sep.join(fs))
    s = ' + '.join(summands)
    if rng.random() < 0.1:
        s = ' ' + s
    return s


def rand_seq(rng, small, malformed):
    out = []
    for _ in range(rng.choice([0, 1, 2, 2, 3, 4])):
        nf = rng.choice([1, 1, 2, 2, 3, 4])
        t = []
        for _ in range(nf):
            r = rng.random()
            if r < 0.78:
                v = rand_index(rng, small)
                t.append(v if rng.random() < 0.7 else rng.choice([numpy.int64, numpy.int32])(v))
            elif r < 0.93:
                t.append(ONE)
            elif malformed:
                t.append(-1 - rng.randint(0, 2))
            else:
                t.append(rand_index(rng, small))
        if malformed and rng.random() < 0.05:
            t = [ONE, ONE, ONE] + t
        out.append(tuple(t) if rng.random() < 0.8 else list(t))
    return out


def gen_poly_program(rng, nvars, nstmts, small):
    malformed = rng.random() < 0.15
    prog, bound = [], []

    def rint():
        return (rng.randint(-3, 5), rng.choice(['int', 'int', 'i64', 'i32']))
    for x in range(rng.randint(1, min(3, nvars))):
        prog.append(rand_new(rng, x, small, malformed))
        bound.append(x)
    while len(prog) < nstmts:
        r = rng.random()
        x = rng.randrange(nvars)
        y, z = rng.choice(bound), rng.choice(bound)
        if r < 0.12:
            st = rand_new(rng, x, small, malformed)
        elif r < 0.27:
            st = ['add', x, y, z]
        elif r < 0.42:
            st = ['mul', x, y, z]
        elif r < 0.48:
            st = [rng.choice(['addi', 'raddi']), x, y, rint()]
        elif r < 0.54:
            st = [rng.choice(['muli', 'rmuli']), x, y, rint()]
        elif r < 0.58:
            st = ['pow', x, y, (rng.choice([0, 1, 2, 3]), rng.choice(['int', 'i64']))]
        elif r < 0.70:
            x = rng.choice(bound)
            st = ['iadd', x, x if rng.random() < 0.12 else y]
        elif r < 0.80:
            x = rng.choice(bound)
            st = ['imul', x, x if rng.random() < 0.15 else y]
        elif r < 0.85:
            st = ['iaddi', rng.choice(bound), rint()]
        elif r < 0.89:
            st = ['imuli', rng.choice(bound), rint()]
        elif r < 0.94:
            st = ['shift', rng.choice(bound), (rng.choice([0, 1, 2, 3, 8]), rng.choice(['int', 'i64']))]
        else:
            st = ['eval', y, None]      # bits chosen at execution time (depends on the value)
        prog.append(st)
        if st[0] in ('str', 'seq', 'int', 'add', 'mul', 'addi', 'raddi', 'muli', 'rmuli', 'pow') and st[1] not in bound:
            bound.append(st[1])
    return prog


def rand_new(rng, x, small, malformed):
    r = rng.random()
    if r < 0.5:
        return ['str', x, rand_string(rng, small, malformed)]
    if r < 0.9:
        return ['seq', x, rand_seq(rng, small, malformed)]
    return ['int', x, (rng.randint(-3, 4), rng.choice(['int', 'i64', 'i32']))]


def exec_poly(of, env, st, rng):
    """run one statement on the real code; -> None or ('value', n, bits)"""
    BP = of.BinaryPolynomial
    k = st[0]
    if k == 'str':
        env[st[1]] = BP(st[2])
    elif k == 'seq':
        env[st[1]] = BP(st[2])
    elif k == 'int':
        env[st[1]] = BP(mkint(*st[2]))
    elif k == 'add':
        env[st[1]] = env[st[2]] + env[st[3]]
    elif k == 'mul':
        env[st[1]] = env[st[2]] * env[st[3]]
    elif k == 'addi':
        env[st[1]] = env[st[2]] + mkint(*st[3])
    elif k == 'raddi':
        env[st[1]] = mkint(*st[3]) + env[st[2]]
    elif k == 'muli':
        env[st[1]] = env[st[2]] * mkint(*st[3])
    elif k == 'rmuli':
        env[st[1]] = mkint(*st[3]) * env[st[2]]
    elif k == 'pow':
        env[st[1]] = env[st[2]] ** mkint(*st[3])
    elif k == 'iadd':
        a = env[st[1]]
        a += env[st[2]]
        env[st[1]] = a
    elif k == 'imul':
        a = env[st[1]]
        a *= env[st[2]]
        env[st[1]] = a
    elif k == 'iaddi':
        a = env[st[1]]
        a += mkint(*st[2])
        env[st[1]] = a
    elif k == 'imuli':
        a = env[st[1]]
        a *= mkint(*st[2])
        env[st[1]] = a
    elif k == 'shift':
        env[st[1]].shift(mkint(*st[2]))
    elif k == 'eval':
        bits = st[2]
        v = env[st[1]].evaluate(bits if rng is None or rng.random() < 0.7 else ''.join(map(str, bits)))
        return ('value', int(v))
    else:
        raise AssertionError(k)
    return None


def enc_poly_stmt(st):
    k = st[0]
    if k == 'str':
        return ['str', st[1], tokens(st[2])]
    if k == 'seq':
        neg = any((not isinstance(f, str)) and int(f) < 0 for t in st[2] for f in t)
        return ['seq', st[1], neg, [[-1 if isinstance(f, str) else max(int(f), 0) for f in t] for t in st[2]]]
    if k == 'int':
        return ['int', st[1], st[2][0]]
    if k in ('addi', 'raddi'):
        return ['addi', st[1], st[2], st[3][0]]
    if k in ('muli', 'rmuli'):
        return ['muli', st[1], st[2], st[3][0]]
    if k == 'pow':
        return ['pow', st[1], st[2], st[3][0]]
    if k in ('iaddi', 'imuli', 'shift'):
        return [k, st[1], st[2][0]]
    return list(st)


def leaf(jp):
    return ['leaf', jp]


def string_spec(s):
    """the GF(2) meaning of a constructor string, or None when it has no agreed meaning"""
    toks = tokens(s)
    e = None
    for sm in toks:
        if not sm or any(t[0] == 2 for t in sm):
            return None
        m = None
        for kind, v in sm:
            f = ['const', v] if kind == 0 else leaf([[v]])
            m = f if m is None else ['mul', m, f]
        e = m if e is None else ['add', e, m]
    return e


def seq_spec(terms):
    e = ['const', 0]
    for t in terms:
        if len(t) == 0:
            return None
        m = None
        for f in t:
            if not isinstance(f, str) and int(f) < 0:
                return None
            g = ['const', 1] if isinstance(f, str) else leaf([[int(f)]])
            m = g if m is None else ['mul', m, g]
        e = ['add', e, m]
    return e


def expr_support(e, shift=0):
    k = e[0]
    if k == 'leaf':
        return {i + shift for i in support(e[1])}
    if k == 'const':
        return set()
    if k in ('add', 'mul'):
        return expr_support(e[1], shift) | expr_support(e[2], shift)
    if k == 'pow':
        return expr_support(e[1], shift)
    if k == 'shift':
        return expr_support(e[1], shift + e[2])
    raise AssertionError(k)


def poly_spec_rhs(st, before):
    """expression (over the implementation's own previous values) the statement must denote"""
    k = st[0]

    def v(x):
        return leaf(before[x])
    if k == 'str':
        return string_spec(st[2])
    if k == 'seq':
        return seq_spec(st[2])
    if k == 'int':
        return ['const', st[2][0]]
    if k == 'add':
        return ['add', v(st[2]), v(st[3])]
    if k == 'mul':
        return ['mul', v(st[2]), v(st[3])]
    if k in ('addi', 'raddi'):
        return ['add', v(st[2]), ['const', st[3][0]]]
    if k in ('muli', 'rmuli'):
        return ['mul', v(st[2]), ['const', st[3][0]]]
    if k == 'pow':
        return ['pow', v(st[2]), st[3][0]] if st[3][0] >= 0 else None
    if k == 'iadd':
        return ['add', v(st[1]), v(st[2])]
    if k == 'imul':
        return ['mul', v(st[1]), v(st[2])]
    if k == 'iaddi':
        return ['add', v(st[1]), ['const', st[2][0]]]
    if k == 'imuli':
        return ['mul', v(st[1]), ['const', st[2][0]]]
    if k == 'shift':
        return ['shift', v(st[1]), st[2][0]]
    return None


def admissible_poly_stmt(st):
    """inputs on which the implementation must not raise"""
    k = st[0]
    if k == 'str':
        return string_spec(st[2]) is not None
    if k == 'seq':
        return seq_spec(st[2]) is not None and all(sum(1 for f in t if isinstance(f, str)) <= 1 for t in st[2])
    if k == 'pow':
        return st[3][0] >= 0
    if k == 'eval':
        return False      # decided separately (length of the list)
    return True


def reads(st):
    k = st[0]
    if k in ('str', 'seq', 'int'):
        return []
    if k in ('add', 'mul'):
        return [st[2], st[3]]
    if k in ('addi', 'raddi', 'muli', 'rmuli', 'pow'):
        return [st[2]]
    if k in ('iadd', 'imul'):
        return [st[1], st[2]]
    return [st[1]]


def check_poly_programs(ctx, stream, progs, nvars):
    of = ctx.of
    rng = rng_for(ctx.seed, 'c09-eval')
    # run the implementation first (evaluate statements pick their bits from the live value);
    # statements reading a variable whose creation failed are dropped from the program
    runs = []
    progs = [list(p) for p in progs]
    for pi, p in enumerate(progs):
        env, outs, kept = {}, [], []
        idl = []
        for st in p:
            if any(x not in env for x in reads(st)):
                continue
            kept.append(st)
            if st[0] == 'eval' and st[2] is None:
                q = env[st[1]].enumerate_qubits() if st[1] in env else []
                n = (max(q) + 1 if q else 0) + rng.choice([0, 0, 0, 1, 2])
                if rng.random() < 0.12 and n > 0:
                    n -= 1
                st[2] = [rng.randint(0, 1) for _ in range(n)]
            try:
                r = exec_poly(of, env, st, rng)
                if r is not None:
                    outs.append({'value': r[1]})
                else:
                    outs.append({'vars': [enc_poly(env[x]) if x in env else None for x in range(nvars)]})
            except Exception as e:  # noqa: BLE001
                outs.append({'error': errname(e)})
            idl.append([id(env[x]) if x in env else None for x in range(nvars)])
        progs[pi] = kept
        runs.append((outs, idl))
    reqs = [{'op': 'c09.poly_prog', 'nvars': nvars, 'prog': [enc_poly_stmt(s) for s in p]} for p in progs]
    model = ctx.driver.run(reqs)
    oracle = []
    for p, (io, idl), mo in zip(progs, runs, model):
        case = {'nvars': nvars, 'prog': p}
        stream.case(case)
        before = [None] * nvars
        for i, (st, a, b) in enumerate(zip(p, io, mo)):
            ids_prev = idl[i - 1] if i > 0 else [None] * nvars
            same_obj = st[0] in ('iadd', 'imul') and ids_prev[st[1]] is not None and ids_prev[st[1]] == ids_prev[st[2]]
            tag = st[0] + (':alias' if same_obj else '')
            stream.count('stmt:' + tag)
            if 'error' in a:
                stream.count('error:' + a['error'])
                adm = admissible_poly_stmt(st)
                if st[0] == 'eval':
                    sup = support(before[st[1]])
                    adm = len(st[2]) > (max(sup) if sup else -1)
                if adm:
                    stream.violate('statement %d raised %s on an admissible input (%s)' % (i, a['error'], show(st)),
                                   case, {'statement': st})
                if a != b:
                    stream.disagree('error kind at statement %d (%s)' % (i, show(st)), case, a, b)
                    break
                continue
            if 'error' in b:
                stream.disagree('model raises at statement %d (%s)' % (i, show(st)), case, a, b)
                break
            if 'value' in a:
                if a != b:
                    stream.disagree('evaluate at statement %d' % i, case, a, b)
                ones = [k for k, bit in enumerate(st[2]) if bit]
                oracle.append((case, i, st, {'op': 'c09.spec_eval', 'poly': before[st[1]], 'ones': ones}, a['value']))
                continue
            snap_a, snap_b = a['vars'], b['vars']
            ca = [None if v is None else canon_poly(v) for v in snap_a]
            cb = [None if v is None else canon_poly(v) for v in snap_b]
            stop = False
            if ca != cb:
                stream.disagree('terms after statement %d (%s)' % (i, show(st)), case, snap_a, snap_b)
                stop = True     # the Spec oracle still judges this statement on the implementation's value
            # no other variable changes
            target = st[1]
            for x in range(nvars):
                if x != target and before[x] is not None and canon_poly(before[x]) != ca[x]:
                    stream.violate('statement %d changed variable %d which is not its target' % (i, x), case,
                                   {'statement': st, 'variable': x,
                                    'same_object_as_target': ids_prev[x] is not None and ids_prev[x] == ids_prev[target]})
            # canonical monomials (on the implementation's own value)
            new = snap_a[target]
            if not is_canonical_terms([tuple(ONE if f < 0 else f for f in t) for t in new]):
                stream.violate('non-canonical monomials after statement %d (%s)' % (i, show(st)), case,
                               {'terms': new})
            rhs = poly_spec_rhs(st, before)
            if rhs is not None:
                lhs = leaf(new)
                vs = sorted(expr_support(lhs) | expr_support(rhs))
                base = []
                if len(vs) > 10:
                    rng.shuffle(vs)
                    base = sorted(v for v in vs[10:] if rng.random() < 0.5)
                    vs = sorted(vs[:10])
                    stream.count('oracle:sampled-assignments')
                oracle.append((case, i, st, {'op': 'c09.spec_poly', 'vars': vs, 'base': base, 'lhs': lhs, 'rhs': rhs},
                               same_obj))
            else:
                stream.count('oracle:no-agreed-meaning')
            before = list(snap_a)
            if stop:
                break
    if oracle:
        answers = ctx.driver.run([r for _, _, _, r, _ in oracle])
        for (case, i, st, r, expect), ans in zip(oracle, answers):
            stream.count('oracle:checked')
            if r['op'] == 'c09.spec_eval':
                if int(bool(ans)) != expect:
                    stream.violate('evaluate() disagrees with GF(2) evaluation at statement %d' % i, case,
                                   {'statement': st, 'implementation': expect, 'spec': int(bool(ans)), 'terms': r['poly']})
            elif not ans['eq']:
                stream.violate('statement %d (%s) does not denote the GF(2) function it promises' % (i, show(st)),
                               case, {'statement': st, 'assignment_ones': ans['ones'], 'implementation': ans['lhs'],
                                      'spec': ans['rhs'], 'result_terms': r['lhs'][1],
                                      'alias': bool(expect)})


# ------------------------------------------------------------------ codes

def popcount(x):
    return bin(x).count('1')


class CodeInfo:
    """Spec-side description of a code expression: sizes, domain (list of masks), operator flavour"""

    def __init__(self, nm, nq, dom, segs):
        self.nm, self.nq, self.dom, self.segs = nm, nq, dom, segs


def base_info(e):
    k = e[0]
    if k in ('jw', 'bk', 'parity', 'interleaved'):
        n = e[1]
        return CodeInfo(n, n, list(range(2 ** n)), [(0, n, 'any')])
    if k == 'checksum':
        n, odd = e[1], e[2]
        return CodeInfo(n, n - 1, [v for v in range(2 ** n) if popcount(v) % 2 == (1 if odd else 0)],
                        [(0, n, 'parity')])
    if k == 'w1ba':
        n = 2 ** e[1]
        return CodeInfo(n, e[1], [1 << i for i in range(n)], [(0, n, 'number')])
    if k == 'w1seg':
        return CodeInfo(3, 2, [v for v in range(8) if popcount(v) <= 1], [(0, 3, 'lower')])
    if k == 'w2seg':
        return CodeInfo(5, 4, [v for v in range(32) if popcount(v) in (1, 2)], [(0, 5, 'number')])
    raise AssertionError(k)


STRICT = {'any': 0, 'parity': 1, 'lower': 2, 'number': 3}


def encode_mask(enc, v):
    w = 0
    for q, row in enumerate(enc):
        s = 0
        for m, e in enumerate(row):
            if e and (v >> m) & 1:
                s += int(e)
        if s % 2:
            w |= 1 << q
    return w


def build_impl(of, e):
    """the real code object of a code expression"""
    from openfermion.transforms.opconversions import binary_codes as bc
    k = e[0]
    if k == 'jw':
        return bc.jordan_wigner_code(e[1])
    if k == 'bk':
        return bc.bravyi_kitaev_code(e[1])
    if k == 'parity':
        return bc.parity_code(e[1])
    if k == 'checksum':
        return bc.checksum_code(e[1], e[2])
    if k == 'w1ba':
        return bc.weight_one_binary_addressing_code(e[1])
    if k == 'w1seg':
        return bc.weight_one_segment_code()
    if k == 'w2seg':
        return bc.weight_two_segment_code()
    if k == 'interleaved':
        return bc.interleaved_code(e[1])
    if k == 'add':
        return build_impl(of, e[1]) + build_impl(of, e[2])
    if k == 'mulint':
        kk = mkint(*e[2])
        a = build_impl(of, e[1])
        return a * kk if e[3] == 'r' else kk * a
    if k == 'concat':
        return build_impl(of, e[1]) * build_impl(of, e[2])
    raise AssertionError(k)


def enc_cexpr(e):
    k = e[0]
    if k == 'mulint':
        return ['mulint', enc_cexpr(e[1]), e[2][0]]
    if k in ('add', 'concat'):
        return [k, enc_cexpr(e[1]), enc_cexpr(e[2])]
    return list(e)


def info(of, e):
    """CodeInfo of an expression (domain computed with the sub-codes' encoders)"""
    k = e[0]
    if k == 'add':
        a, b = info(of, e[1]), info(of, e[2])
        return CodeInfo(a.nm + b.nm, a.nq + b.nq, [va | (vb << a.nm) for vb in b.dom for va in a.dom],
                        a.segs + [(o + a.nm, n, f) for o, n, f in b.segs])
    if k == 'mulint':
        a = info(of, e[1])
        r = a
        for _ in range(e[2][0] - 1):
            r = CodeInfo(r.nm + a.nm, r.nq + a.nq, [vr | (va << r.nm) for va in a.dom for vr in r.dom],
                         r.segs + [(o + r.nm, n, f) for o, n, f in a.segs])
        return r
    if k == 'concat':
        a, b = info(of, e[1]), info(of, e[2])
        ca = build_impl(of, e[1])
        enc = numpy.mod(numpy.asarray(ca.encoder.toarray(), dtype=int), 2).tolist()
        bd = set(b.dom)
        fl = max([f for _, _, f in a.segs + b.segs], key=lambda f: STRICT[f])
        return CodeInfo(a.nm, b.nq, [v for v in a.dom if encode_mask(enc, v) in bd], [(0, a.nm, fl)])
    return base_info(e)


def code_json(code):
    """observable state of a real BinaryCode"""
    enc = numpy.asarray(code.encoder.toarray()).tolist()
    dec = []
    for d in list(code.decoder):
        if hasattr(d, 'terms'):
            dec.append(enc_poly(d))
        else:
            dec.append('int0' if isinstance(d, (int, numpy.integer)) and d == 0 else 'other:' + type(d).__name__)
    return {'enc': [[int(x) for x in r] for r in enc], 'dec': dec, 'nq': int(code.n_qubits), 'nm': int(code.n_modes)}


def canon_code(j):
    return {'enc': j['enc'], 'nq': j['nq'], 'nm': j['nm'],
            'dec': [d if isinstance(d, str) else canon_poly(d) for d in j['dec']]}


def base_codes(tier, drift):
    big = tier == 'thorough' or drift
    out = []
    for n in range(1, 13 if big else 9):
        out += [['jw', n], ['bk', n], ['parity', n]]
    for n in range(2, 13 if big else 9):
        out += [['checksum', n, False], ['checksum', n, True]]
    for e in range(1, 4 if big else 4):
        out.append(['w1ba', e])
    out += [['w1seg'], ['w2seg']]
    for n in range(2, 13 if big else 9, 2):
        out.append(['interleaved', n])
    return out


def sizes(e):
    """(n_modes, n_qubits) of a well-formed expression, computed syntactically"""
    k = e[0]
    if k in ('jw', 'bk', 'parity', 'interleaved'):
        return e[1], e[1]
    if k == 'checksum':
        return e[1], e[1] - 1
    if k == 'w1ba':
        return 2 ** e[1], e[1]
    if k == 'w1seg':
        return 3, 2
    if k == 'w2seg':
        return 5, 4
    if k == 'add':
        a, b = sizes(e[1]), sizes(e[2])
        return a[0] + b[0], a[1] + b[1]
    if k == 'mulint':
        a = sizes(e[1])
        return a[0] * e[2][0], a[1] * e[2][0]
    if k == 'concat':
        return sizes(e[1])[0], sizes(e[2])[1]
    raise AssertionError(k)


def rand_base(rng, nm=None, max_modes=8):
    """a random built-in code; with `nm` given, one with exactly that many modes (or None)"""
    cands = []
    rng_n = [nm] if nm is not None else list(range(1, max_modes + 1))
    for n in rng_n:
        if n < 1 or n > max_modes:
            continue
        cands += [['jw', n], ['bk', n], ['parity', n]] if n >= 2 else [['jw', n], ['bk', n]]
        if n >= 2:
            cands += [['checksum', n, False], ['checksum', n, True]]
        if n % 2 == 0:
            cands.append(['interleaved', n])
        if n in (2, 4, 8):
            cands.append(['w1ba', {2: 1, 4: 2, 8: 3}[n]])
        if n == 3:
            cands += [['w1seg']] * 3
        if n == 5:
            cands += [['w2seg']] * 3
    return rng.choice(cands) if cands else None


def rand_cexpr(rng, depth, max_modes):
    """random code expression with at most `max_modes` modes"""
    if depth == 0 or max_modes < 2 or rng.random() < 0.3:
        return rand_base(rng, None, max_modes)
    r = rng.random()
    if r < 0.4:
        a = rand_cexpr(rng, depth - 1, max_modes - 1)
        rest = max_modes - sizes(a)[0]
        if rest < 1:
            return a
        b = rand_cexpr(rng, depth - 1, rest)
        return ['add', a, b]
    if r < 0.6:
        k = rng.choice([1, 2, 2, 3])
        a = rand_cexpr(rng, depth - 1, max(1, max_modes // k))
        return ['mulint', a, (k, rng.choice(['int', 'i64', 'i32'])), rng.choice('lr')]
    a = rand_cexpr(rng, depth - 1, max_modes)
    nq = sizes(a)[1]
    # inner code with nq modes: a built-in, or a sum of two built-ins
    if nq >= 2 and rng.random() < 0.35:
        s = rng.randint(1, nq - 1)
        b1, b2 = rand_base(rng, s, 12), rand_base(rng, nq - s, 12)
        b = ['add', b1, b2] if b1 and b2 else rand_base(rng, nq, 12)
    else:
        b = rand_base(rng, nq, 12)
    if b is None:
        return a
    return ['concat', a, b]


def mixed_int_exprs(rng, count):
    """code expressions of depth 2-3 mixing a numpy-integer (or Python int) repetition with appending and
    concatenation, in every order: (k * a) + b, b + (k * a), k * (a + b), ((k * a) + b) * c, (k * a) * c + b, ..."""
    small = [['jw', 1], ['jw', 2], ['bk', 2], ['parity', 2], ['bk', 3], ['checksum', 3, False], ['checksum', 3, True],
             ['w1seg'], ['checksum', 2, True], ['interleaved', 2], ['w1ba', 1]]
    out = []
    # the fixed core: every numpy flavour, left and right multiplication, followed by an append
    for fl in ('i64', 'i32', 'int'):
        for side in 'lr':
            out.append(['add', ['mulint', ['jw', 2], (2, fl), side], ['jw', 2]])
            out.append(['add', ['bk', 2], ['mulint', ['parity', 2], (2, fl), side]])
    out.append(['add', ['add', ['mulint', ['jw', 1], (3, 'i64'), 'l'], ['w1seg']], ['mulint', ['bk', 2], (2, 'i32'), 'r']])
    out.append(['mulint', ['add', ['mulint', ['jw', 1], (2, 'i64'), 'r'], ['parity', 2]], (2, 'i32'), 'l'])
    out.append(['concat', ['add', ['mulint', ['jw', 2], (2, 'i64'), 'l'], ['jw', 2]], ['bk', 6]])
    out.append(['add', ['concat', ['mulint', ['jw', 2], (2, 'i32'), 'r'], ['parity', 4]], ['bk', 2]])
    out.append(['add', ['mulint', ['w1seg'], (2, 'i64'), 'l'], ['checksum', 3, False]])
    while len(out) < count:
        a, b, c = rng.choice(small), rng.choice(small), rng.choice(small)
        k = (rng.choice([1, 2, 2, 3]), rng.choice(['i64', 'i32', 'int']))
        side = rng.choice('lr')
        shape = rng.randrange(6)
        if shape == 0:
            e = ['add', ['mulint', a, k, side], b]
        elif shape == 1:
            e = ['add', b, ['mulint', a, k, side]]
        elif shape == 2:
            e = ['mulint', ['add', a, b], k, side]
        elif shape == 3:
            e = ['add', ['add', ['mulint', a, k, side], b], c]
        elif shape == 4:
            inner = ['add', ['mulint', a, k, side], b]
            nq = sizes(inner)[1]
            e = ['concat', inner, rng.choice([['jw', nq], ['bk', nq], ['parity', nq]] if nq >= 2 else [['jw', nq]])]
        else:
            inner = ['mulint', a, k, side]
            nq = sizes(inner)[1]
            e = ['add', ['concat', inner, rng.choice([['bk', nq], ['parity', nq]] if nq >= 2 else [['jw', nq]])], b]
        if sizes(e)[0] <= 9:
            out.append(e)
    return out


SPECIAL_CODES = [
    # a concatenation whose outer decoder has a component without terms, concatenated again
    # (these left an int in the decoder before the fix a441cb87)
    ['concat', ['concat', ['checksum', 3, False], ['checksum', 2, False]], ['jw', 1]],
    ['concat', ['concat', ['checksum', 4, False], ['checksum', 3, False]], ['bk', 2]],
    ['concat', ['checksum', 4, False], ['checksum', 3, False]],
    ['concat', ['checksum', 4, True], ['checksum', 3, True]],
    ['concat', ['interleaved', 4], ['add', ['jw', 2], ['parity', 2]]],
    ['add', ['w1seg'], ['w1seg']],
    ['mulint', ['w1seg'], (2, 'int'), 'r'],
    ['mulint', ['checksum', 3, True], (3, 'i64'), 'l'],
    ['concat', ['parity', 4], ['bk', 4]],
    ['concat', ['bk', 5], ['checksum', 5, False]],
    ['concat', ['jw', 4], ['w1ba', 2]],
    ['concat', ['jw', 3], ['w1seg']],
    ['concat', ['parity', 5], ['w2seg']],
    ['add', ['w2seg'], ['checksum', 3, False]],
]


def check_codes(ctx, stream, exprs, validate=True):
    of = ctx.of
    reqs = [{'op': 'c09.code', 'expr': enc_cexpr(e)} for e in exprs]
    model = ctx.driver.run(reqs)
    oracle = []
    for e, mo in zip(exprs, model):
        case = {'code': e}
        stream.case(case)
        stream.count('code:' + e[0])
        try:
            code = build_impl(of, e)
            a = code_json(code)
        except Exception as ex:  # noqa: BLE001
            a = {'error': errname(ex)}
        if 'error' in a:
            stream.count('error:' + a['error'])
            stream.violate('building the code raised %s' % a['error'], case, {'expr': e, 'error': a['error']})
            if a != mo:
                stream.disagree('error kind', case, a, mo)
            continue
        if 'error' in mo:
            stream.disagree('model raises', case, a, mo)
            continue
        if canon_code(a) != canon_code(mo):
            stream.disagree('encoder / decoder', case, a, mo)
        if any(isinstance(d, str) for d in a['dec']):
            stream.violate('decoder component is not a BinaryPolynomial', case, {'expr': e, 'decoder': a['dec']})
        for d in a['dec']:
            if not isinstance(d, str) and not is_canonical_terms([tuple(ONE if f < 0 else f for f in t) for t in d]):
                stream.violate('decoder component with non-canonical monomials', case, {'expr': e, 'terms': d})
        if e[0] == 'interleaved':
            # documented order: even-odd -> up-then-down, mode 2i -> qubit i, mode 2i+1 -> qubit n/2 + i
            n = e[1]
            for m in range(n):
                want = 1 << (m // 2 if m % 2 == 0 else n // 2 + m // 2)
                if encode_mask(a['enc'], 1 << m) != want:
                    stream.violate('interleaved_code does not map mode %d to the documented qubit' % m, case,
                                   {'expr': e, 'encoder': a['enc']})
                    break
        if not validate:
            continue
        try:
            inf = info(of, e)
        except Exception as ex:  # noqa: BLE001
            stream.count('oracle:domain-not-computable:' + errname(ex))
            continue
        if (inf.nm, inf.nq) != (a['nm'], a['nq']) or len(a['enc']) != inf.nq or any(len(r) != inf.nm for r in a['enc']) \
                or len(a['dec']) != inf.nm:
            stream.violate('code has the wrong shape', case, {'expr': e, 'expected': [inf.nm, inf.nq],
                                                              'got': [a['nm'], a['nq']]})
            continue
        if len(inf.dom) == 0:
            stream.count('oracle:empty-domain')
            continue
        if len(inf.dom) > 4096:
            rng = rng_for(ctx.seed, 'c09-dom')
            dom = rng.sample(inf.dom, 4096)
            stream.count('oracle:sampled-domain')
        else:
            dom = inf.dom
        oracle.append((case, e, {'op': 'c09.spec_valid', 'enc': a['enc'],
                                 'dec': [[] if isinstance(d, str) else d for d in a['dec']], 'dom': dom}))
        stream.count('domain-vectors', len(dom))
    if oracle:
        answers = ctx.driver.run([r for _, _, r in oracle])
        for (case, e, r), ans in zip(oracle, answers):
            stream.count('oracle:checked')
            if not ans['ok']:
                stream.violate('decode(encode v) != v or encoding not injective on the domain', case,
                               {'expr': e, 'v_mask': ans['v'], 'encoded_mask': ans['w'], 'decoded_or_clash': ans['d'],
                                'encoder': r['enc'], 'decoder': r['dec']})


LARGE_SIZES = (16, 17, 20, 33)


def large_codes():
    out = []
    for n in LARGE_SIZES:
        out += [['jw', n], ['bk', n], ['parity', n], ['checksum', n, False], ['checksum', n, True]]
        if n % 2 == 0:
            out.append(['interleaved', n])
    out += [['interleaved', 34], ['w1ba', 4], ['w1ba', 5]]
    return out


def sample_domain(rng, e, count):
    """random occupation masks of the documented domain of a (large) built-in code"""
    k = e[0]
    if k == 'w1ba':
        return [1 << i for i in range(2 ** e[1])]
    n = e[1]
    out = set()
    # structured vectors first: empty, full, single modes around the powers of two, then random ones
    cands = [0, (1 << n) - 1] + [1 << i for i in range(n)]
    while len(cands) < count:
        cands.append(rng.getrandbits(n))
    for v in cands:
        if k == 'checksum' and popcount(v) % 2 != (1 if e[2] else 0):
            v ^= 1 << rng.randrange(n)
        out.add(v)
    return sorted(out)


def check_large_codes(ctx, stream):
    """parametrised codes at n in {16, 17, 20, 33}: beyond the first sizes at which the loops of
    _encoder_bk / _decoder_bk (repetition >= 3) and the other constructors could differ"""
    of = ctx.of
    rng = rng_for(ctx.seed, 'c09-large')
    exprs = large_codes()
    model = ctx.driver.run([{'op': 'c09.code', 'expr': enc_cexpr(e)} for e in exprs])
    oracle = []
    for e, mo in zip(exprs, model):
        case = {'code': e}
        stream.case(case)
        stream.count('large:' + e[0])
        try:
            a = code_json(build_impl(of, e))
        except Exception as ex:  # noqa: BLE001
            stream.violate('building the code raised %s' % errname(ex), case, {'expr': e, 'error': errname(ex)})
            continue
        if 'error' in mo:
            stream.disagree('model raises', case, a, mo)
        elif canon_code(a) != canon_code(mo):
            stream.disagree('encoder / decoder', case, {'nq': a['nq'], 'nm': a['nm']}, {'nq': mo['nq'], 'nm': mo['nm']})
        if any(isinstance(d, str) for d in a['dec']):
            stream.violate('decoder component is not a BinaryPolynomial', case, {'expr': e, 'decoder': a['dec']})
            continue
        nm, nq = sizes(e)
        if (nm, nq) != (a['nm'], a['nq']):
            stream.violate('code has the wrong shape', case, {'expr': e, 'expected': [nm, nq], 'got': [a['nm'], a['nq']]})
            continue
        if e[0] == 'interleaved':
            n = e[1]
            for m in range(n):
                if encode_mask(a['enc'], 1 << m) != 1 << (m // 2 if m % 2 == 0 else n // 2 + m // 2):
                    stream.violate('interleaved_code does not map mode %d to the documented qubit' % m, case,
                                   {'expr': e, 'encoder': a['enc']})
                    break
        dom = sample_domain(rng, e, budget(ctx.tier, 300, 2000))
        oracle.append((case, e, {'op': 'c09.spec_valid', 'enc': a['enc'], 'dec': a['dec'], 'dom': dom}))
        stream.count('domain-vectors', len(dom))
    for (case, e, r), ans in zip(oracle, ctx.driver.run([r for _, _, r in oracle])):
        stream.count('oracle:checked')
        if not ans['ok']:
            stream.violate('decode(encode v) != v or encoding not injective on the domain', case,
                           {'expr': e, 'v_mask': ans['v'], 'encoded_mask': ans['w'], 'decoded_or_clash': ans['d']})


def check_large_transform(ctx, stream):
    """binary_code_transform with the JW / BK codes at n in {16, 17, 20, 33} on operators touching
    mode 15 and a mode >= 16: compared with the Model and term for term with jordan_wigner / bravyi_kitaev"""
    of = ctx.of
    from openfermion.transforms.opconversions.binary_code_transform import binary_code_transform
    rng = rng_for(ctx.seed, 'c09-large-bct')
    cases = []
    for n in LARGE_SIZES:
        hi = [m for m in range(16, n)] or [15]
        for kind in ('jw', 'bk'):
            ops = [{((15, 1), (rng.choice(hi), 0)): 1.0, ((rng.choice(hi), 1), (15, 0)): dyadic(rng, max_num=4, max_pow=2)},
                   {((rng.choice(hi), 1), (15, 1), (rng.randrange(n), 0), (rng.randrange(n), 0)): dyadic(rng, max_num=4, max_pow=2)},
                   {((15, 1), (15, 0)): 0.5, ((n - 1, 1), (n - 1, 0)): -1.0, ((n - 1, 1),): 0.25}]
            for f in ops:
                cases.append(([kind, n], {t: c for t, c in f.items() if c != 0}))
    model = ctx.driver.run([{'op': 'c09.bct', 'expr': enc_cexpr(e), 'f': enc_op('fermion', f)} for e, f in cases])
    codes = {}
    for (e, f), mo in zip(cases, model):
        case = {'code': e, 'fermion_op': [[list(map(list, t)), to_gq(c)] for t, c in f.items()]}
        stream.case(case)
        stream.count('large:' + e[0])
        key = show(e)
        try:
            if key not in codes:
                codes[key] = build_impl(of, e)
            H = of.FermionOperator()
            for t, c in f.items():
                H += of.FermionOperator(t, c)
            q = binary_code_transform(H, codes[key])
        except Exception as ex:  # noqa: BLE001
            stream.violate('binary_code_transform raised %s' % errname(ex), case, {'expr': e, 'error': errname(ex)})
            continue
        a = enc_op('qubit', q.terms)
        if 'error' in mo:
            stream.disagree('model raises', case, a, mo)
        elif canon_op_json(a) != canon_op_json(mo['q']):
            stream.disagree('transformed operator', case, a, mo)
        ref = of.jordan_wigner(H) if e[0] == 'jw' else of.bravyi_kitaev(H, n_qubits=e[1])
        stream.count('term-for-term:' + e[0])
        if canon_qop(ref.terms) != canon_qop(q.terms):
            stream.violate('binary_code_transform with the %s code differs term for term from %s'
                           % (e[0], 'jordan_wigner' if e[0] == 'jw' else 'bravyi_kitaev'), case,
                           {'transform': a, 'reference': enc_op('qubit', ref.terms)})


# ------------------------------------------------------------------ binary_code_transform

def rand_term(rng, lo, n, flavour):
    """one ladder product on modes lo .. lo+n-1 of the given flavour"""
    def idx():
        return lo + rng.randrange(n)
    if flavour == 'lower' and rng.random() < 0.25:
        return tuple((idx(), 0) for _ in range(rng.choice([1, 1, 2])))
    if flavour in ('number', 'lower'):
        k = rng.choice([1, 1, 1, 2])
        if rng.random() < 0.6:
            return tuple([(idx(), 1) for _ in range(k)] + [(idx(), 0) for _ in range(k)])
        t = [(idx(), 1) for _ in range(k)] + [(idx(), 0) for _ in range(k)]
        rng.shuffle(t)
        return tuple(t)
    if flavour == 'parity':
        L = rng.choice([2, 2, 2, 4])
    else:
        L = rng.choice([1, 1, 2, 2, 3, 4])
    return tuple((idx(), rng.randint(0, 1)) for _ in range(L))


def rand_fermion_op(rng, inf):
    nterms = rng.choice([1, 1, 2, 3])
    terms = {}
    for _ in range(nterms):
        segs = inf.segs
        if len(segs) > 1 and rng.random() < 0.35:
            # product of operators on two segments
            s1, s2 = rng.sample(segs, 2)
            t = rand_term(rng, *s1) + rand_term(rng, *s2)
        elif len(segs) > 1 and rng.random() < 0.15:
            # one operator across all modes, strictest flavour
            fl = max([f for _, _, f in segs], key=lambda f: STRICT[f])
            t = rand_term(rng, 0, inf.nm, fl)
        else:
            t = rand_term(rng, *rng.choice(segs))
        terms[t] = terms.get(t, 0) + (rng.choice(BAND) if rng.random() < 0.2 else dyadic(rng, max_num=4, max_pow=2))
    return {t: c for t, c in terms.items() if c != 0}


def canon_qop(terms):
    return canon_op_json([e for e in enc_op('qubit', terms) if (e[1][0], e[1][2]) != (0, 0)])


def check_transform(ctx, stream, cases):
    """cases: list of (expr, fermion terms dict)"""
    of = ctx.of
    from openfermion.transforms.opconversions.binary_code_transform import binary_code_transform
    reqs = [{'op': 'c09.bct', 'expr': enc_cexpr(e), 'f': enc_op('fermion', f)} for e, f in cases]
    model = ctx.driver.run(reqs)
    oracle, linear = [], []
    codes, infos = {}, {}
    for (e, f), mo in zip(cases, model):
        key = show(e)
        case = {'code': e, 'fermion_op': [[list(map(list, t)), to_gq(c)] for t, c in f.items()]}
        stream.case(case)
        stream.count('code:' + e[0])
        try:
            if key not in codes:
                codes[key] = build_impl(of, e)
                infos[key] = info(of, e)
            code, inf = codes[key], infos[key]
        except Exception as ex:  # noqa: BLE001
            stream.count('code-error:' + errname(ex))
            continue
        # exact regime: the library drops coefficients below EQ_TOLERANCE = 1e-8 in `+=`; a product of L
        # projectors over decoder monomials of degree D has coefficients down to about 2^-(L (D + 1) + 3),
        # so deep products over high-degree decoders would (legitimately) lose terms.  Such cases are not judged.
        deg = max([len(t) for d in list(code.decoder) if hasattr(d, 'terms') for t in d.terms] + [1])
        maxlen = max([len(t) for t in f] + [0])
        import math
        small = max([0] + [-math.floor(math.log2(min(abs(x) for x in (complex(c).real, complex(c).imag) if x != 0)))
                           for c in f.values() if c != 0])
        if maxlen * (deg + 1) + 3 + small > 24:
            stream.count('skipped:outside-exact-regime')
            continue
        H = of.FermionOperator()
        for t, c in f.items():
            H += of.FermionOperator(t, c)
        enc = [[int(x) for x in r] for r in numpy.asarray(code.encoder.toarray()).tolist()]
        try:
            q = binary_code_transform(H, code)
            a = {'q': enc_op('qubit', q.terms)}
        except Exception as ex:  # noqa: BLE001
            a = {'error': errname(ex)}
        if 'error' in a:
            stream.count('error:' + a['error'])
            # admissible whenever the operator maps the domain to itself: ask the Spec with Q = 0
            oracle.append((case, e, f, {'op': 'c09.spec_bct', 'enc': enc, 'dom': inf.dom[:4096],
                                        'f': enc_op('fermion', f), 'q': []}, a['error'],
                           any(not hasattr(d, 'terms') for d in list(code.decoder))))
            if a['error'] != mo.get('error'):
                stream.disagree('error kind', case, a, mo)
            continue
        if 'error' in mo:
            stream.disagree('model raises', case, a, mo)
            continue
        if canon_op_json(a['q']) != canon_op_json(mo['q']):
            stream.disagree('transformed operator', case, a, mo)
        oracle.append((case, e, f, {'op': 'c09.spec_bct', 'enc': enc, 'dom': inf.dom[:4096],
                                    'f': enc_op('fermion', f), 'q': a['q']}, None, False))
        if e[0] in ('jw', 'bk'):
            ref = of.jordan_wigner(H) if e[0] == 'jw' else of.bravyi_kitaev(H, n_qubits=e[1])
            stream.count('term-for-term:' + e[0])
            if canon_qop(ref.terms) != canon_qop(q.terms):
                stream.violate('binary_code_transform with the %s code differs term for term from %s'
                               % (e[0], 'jordan_wigner' if e[0] == 'jw' else 'bravyi_kitaev'), case,
                               {'transform': enc_op('qubit', q.terms), 'reference': enc_op('qubit', ref.terms)})
    if oracle:
        answers = ctx.driver.run([r for _, _, _, r, _, _ in oracle])
        for (case, e, f, r, err, int_dec), ans in zip(oracle, answers):
            if ans['verdict'] == 'leaves':
                stream.count('oracle:inadmissible(operator leaves the domain)')
                continue
            if err is not None:
                stream.count('oracle:checked')
                stream.violate('binary_code_transform raised %s on a domain-preserving operator' % err, case,
                               {'expr': e, 'error': err, 'int_in_decoder': int_dec})
                continue
            stream.count('oracle:checked')
            if ans['verdict'] != 'ok':
                stream.violate('transformed operator acts differently on an encoded basis state', case,
                               {'expr': e, 'v_mask': ans['v'], 'qubit_side': ans['lhs'], 'fermion_side_encoded': ans['rhs'],
                                'int_in_decoder': False})


# ------------------------------------------------------------------ hardening: state, types, bands, asymmetry

BAND = [2.0 ** -10, 3 * 2.0 ** -13, -5 * 2.0 ** -14, 1j * 2.0 ** -11, (3 - 2j) * 2.0 ** -13, 2j, -0.5j, 1.5 - 0.25j]


def h_canon(x):
    """exact comparison form of polynomials, codes, operators, lists of them"""
    import openfermion
    if isinstance(x, openfermion.BinaryPolynomial):
        return ('poly', canon_poly(enc_poly(x)))
    if isinstance(x, openfermion.BinaryCode):
        return ('code', show(canon_code(code_json(x)), 10 ** 7))
    if isinstance(x, openfermion.QubitOperator):
        return ('qop', canon_qop(x.terms))
    if isinstance(x, openfermion.FermionOperator):
        return ('fop', canon_op_json(enc_op('fermion', x.terms)))
    if isinstance(x, numpy.ndarray):
        if x.dtype == object:
            return ('list', [h_canon(y) for y in x.ravel()])
        return ('arr', x.shape, [to_gq(y) for y in x.ravel()])
    if isinstance(x, (list, tuple)):
        return ('list', [h_canon(y) for y in x])
    if isinstance(x, (bool, numpy.bool_)):
        return ('n', (int(x), 1, 0, 1))
    if isinstance(x, (int, float, complex, numpy.number)):
        return ('n', tuple(to_gq(x)))
    if isinstance(x, str) or x is None:
        return x
    return ('repr', repr(x))


def h_mutate(x, depth=0):
    """in-place modification of a value a caller received"""
    import openfermion
    if isinstance(x, openfermion.BinaryPolynomial):
        x += 1
        x *= openfermion.BinaryPolynomial('w0 + w3')
        x.shift(2)
    elif isinstance(x, openfermion.BinaryCode):
        for d in list(x.decoder):
            h_mutate(d, depth + 1)
        try:
            x.encoder = x.encoder.tolil()
            x.encoder[0, 0] = 5
        except Exception:  # noqa: BLE001
            pass
    elif isinstance(x, (openfermion.QubitOperator, openfermion.FermionOperator)):
        x += type(x)((), 2.5)
        x *= 3
    elif isinstance(x, numpy.ndarray):
        if x.dtype == object:
            for y in x.ravel():
                h_mutate(y, depth + 1)
        elif x.size and x.flags.writeable:
            x += 1
    elif isinstance(x, list):
        if depth < 2:
            for y in x:
                h_mutate(y, depth + 1)
        x.append(x[0] if x else 0)
        x.reverse()


def h_objects(x):
    """the mutable library objects reachable from a value"""
    import openfermion
    if isinstance(x, openfermion.BinaryCode):
        return [x] + [o for d in list(x.decoder) for o in h_objects(d)]
    if isinstance(x, (openfermion.BinaryPolynomial, openfermion.SymbolicOperator)):
        return [x]
    if isinstance(x, numpy.ndarray):
        return [x] + ([o for y in x.ravel() for o in h_objects(y)] if x.dtype == object else [])
    if isinstance(x, (list, tuple)):
        return ([x] if isinstance(x, list) else []) + [o for y in x for o in h_objects(y)]
    return []


def h_state(stream, name, make_args, call, extra=None):
    """(S): arguments untouched, a second call after modifying the first result in place gives the same value"""
    case = {'fn': name, 'check': 'state'}
    case.update(extra or {})
    stream.case(case)
    stream.count('state:' + name)
    try:
        args = make_args()
        snap = h_canon(list(args))
        r1 = call(*args)
        if h_canon(list(args)) != snap:
            stream.violate('%s modified its arguments' % name, case, {})
            return
        c1 = h_canon(r1)
        if {id(o) for o in h_objects(r1)} & {id(o) for o in h_objects(list(args))}:
            stream.violate('%s returns an object that is (part of) one of its arguments' % name, case, {})
            return
        h_mutate(r1)
        if h_canon(list(args)) != snap:
            stream.violate('modifying the result of %s in place changed an argument' % name, case, {})
            return
        c2 = h_canon(call(*args))
        if c2 != c1:
            stream.violate('%s: a second call after modifying the first result in place gives a different value' % name,
                           case, {'first': show(c1, 500), 'second': show(c2, 500)})
        if h_canon(call(*make_args())) != c1:
            stream.violate('%s is not deterministic on fresh arguments' % name, case, {})
    except Exception as e:  # noqa: BLE001
        stream.violate('%s raised %s in the state check' % (name, errname(e)), case, {})


def h_types(stream, name, reference, variants):
    try:
        ref = h_canon(reference())
    except Exception as e:  # noqa: BLE001
        stream.violate('%s raised %s' % (name, errname(e)), {'fn': name, 'check': 'types'}, {})
        return
    for label, f in variants:
        case = {'fn': name, 'check': 'types', 'variant': label}
        stream.case(case)
        stream.count('types:' + name)
        try:
            got = h_canon(f())
        except Exception as e:  # noqa: BLE001
            stream.violate('%s raised %s for argument types accepted by the library (%s)' % (name, errname(e), label), case, {})
            continue
        if got != ref:
            stream.violate('%s gives a different value for argument types %s' % (name, label), case,
                           {'reference': show(ref, 500), 'got': show(got, 500)})


def check_hardening(ctx, stream):
    of = ctx.of
    from openfermion.transforms.opconversions import binary_codes as bc
    from openfermion.transforms.opconversions.binary_code_transform import (binary_code_transform, extractor, dissolve,
                                                                             make_parity_list)
    from openfermion.ops.operators.binary_code import shift_decoder, double_decoding
    BP, BCode, FO = of.BinaryPolynomial, of.BinaryCode, of.FermionOperator
    rng = rng_for(ctx.seed, 'c09-hard')
    I64, I32 = numpy.int64, numpy.int32

    # ---------------- (S) constructors and code algebra
    builders = [('jordan_wigner_code', lambda: bc.jordan_wigner_code(4)), ('bravyi_kitaev_code', lambda: bc.bravyi_kitaev_code(5)),
                ('parity_code', lambda: bc.parity_code(4)), ('checksum_code', lambda: bc.checksum_code(4, 1)),
                ('weight_one_binary_addressing_code', lambda: bc.weight_one_binary_addressing_code(2)),
                ('weight_one_segment_code', bc.weight_one_segment_code), ('weight_two_segment_code', bc.weight_two_segment_code),
                ('interleaved_code', lambda: bc.interleaved_code(4))]
    for name, b in builders:
        h_state(stream, name, lambda: (), b)
    pairs = [(lambda: bc.jordan_wigner_code(2), lambda: bc.checksum_code(3, 0)),
             (lambda: bc.weight_one_segment_code(), lambda: bc.parity_code(2)),
             (lambda: bc.bravyi_kitaev_code(3), lambda: bc.weight_one_segment_code())]
    for ma, mb in pairs:
        h_state(stream, 'BinaryCode.__add__', lambda: (ma(), mb()), lambda a, b: a + b)
        h_state(stream, 'BinaryCode.__add__', lambda: (mb(), ma()), lambda a, b: a + b)
        h_state(stream, 'BinaryCode.__mul__(int)', lambda: (ma(), 3), lambda a, k: a * k)
        h_state(stream, 'BinaryCode.__rmul__(int)', lambda: (mb(), I64(2)), lambda a, k: k * a)
    concat = [(lambda: bc.jordan_wigner_code(3), lambda: bc.weight_one_segment_code()),
              (lambda: bc.parity_code(4), lambda: bc.bravyi_kitaev_code(4)),
              (lambda: bc.checksum_code(4, 0), lambda: bc.checksum_code(3, 0)),
              (lambda: bc.interleaved_code(4), lambda: bc.jordan_wigner_code(2) + bc.parity_code(2))]
    for ma, mb in concat:
        h_state(stream, 'BinaryCode.__mul__(code)', lambda: (ma(), mb()), lambda a, b: a * b)
    # in-place forms: same value as the out-of-place form, the other operand untouched, and the mutated object
    # keeps answering consistently (transform after +=)
    for ma, mb in pairs + concat[:2]:
        for opname, inplace, outplace in (('+=', lambda a, b: a.__iadd__(b), lambda a, b: a + b),):
            case = {'fn': 'BinaryCode.__iadd__', 'check': 'state'}
            stream.case(case)
            stream.count('state:BinaryCode.__iadd__')
            try:
                a, b = ma(), mb()
                want = h_canon(outplace(ma(), mb()))
                sb = h_canon(b)
                r = inplace(a, b)
                if r is not a or h_canon(a) != want or h_canon(b) != sb:
                    stream.violate('a += b differs from a + b, rebinds, or modifies b', case, {})
                h_mutate(b)
                if h_canon(a) != want:
                    stream.violate('modifying b after a += b changed a', case, {})
            except Exception as e:  # noqa: BLE001
                stream.violate('BinaryCode += raised %s' % errname(e), case, {})
    for ma, mb in concat:
        case = {'fn': 'BinaryCode.__imul__', 'check': 'state'}
        stream.case(case)
        stream.count('state:BinaryCode.__imul__')
        try:
            a, b = ma(), mb()
            want = h_canon(ma() * mb())
            sb = h_canon(b)
            a *= b
            if h_canon(a) != want or h_canon(b) != sb:
                stream.violate('a *= b differs from a * b or modifies b', case, {})
            a2 = ma()
            want2 = h_canon(ma() * 2)
            a2 *= 2
            if h_canon(a2) != want2:
                stream.violate('a *= 2 differs from a * 2', case, {})
        except Exception as e:  # noqa: BLE001
            stream.violate('BinaryCode *= raised %s' % errname(e), case, {})
    # helpers
    M = [[1, 0, 1], [0, 1, 1], [1, 1, 1]]
    h_state(stream, 'linearize_decoder', lambda: (numpy.array(M),), bc.linearize_decoder)
    h_state(stream, 'linearize_decoder', lambda: ([list(r) for r in M],), bc.linearize_decoder)
    for c in (3, 0, I64(0), 1):
        h_state(stream, 'shift_decoder', lambda: (bc.weight_one_segment_code().decoder, c), shift_decoder, {'shift': int(c)})
    h_state(stream, 'BinaryPolynomial.shift(0) on a copy', lambda: (BP('w0 w1 + w2'),),
            lambda p: [q for q in [copy.deepcopy(p)] if q.shift(0) is None][0])
    h_state(stream, 'double_decoding', lambda: (bc.checksum_code(3, 1).decoder, bc.weight_one_segment_code().decoder[:2]),
            double_decoding)
    for mk in (lambda: bc.weight_two_segment_code(), lambda: bc.bravyi_kitaev_code(4), lambda: 2 * bc.weight_one_segment_code()):
        h_state(stream, 'make_parity_list', lambda: (mk(),), make_parity_list)
    for ps in ('w0 w1 + 1', 'w2', 'w0 w1 w3 + w1 + w2 w3', '1', 'w300 w257 + w1000'):
        h_state(stream, 'extractor', lambda: (BP(ps),), extractor, {'poly': ps})
        h_state(stream, 'BinaryPolynomial.enumerate_qubits', lambda: (BP(ps),), lambda p: p.enumerate_qubits())
        h_state(stream, 'BinaryPolynomial.__add__', lambda: (BP(ps), BP('w1 + 1')), lambda p, q: p + q)
        h_state(stream, 'BinaryPolynomial.__mul__', lambda: (BP(ps), BP('w1 + w5')), lambda p, q: p * q)
        h_state(stream, 'BinaryPolynomial.__rmul__', lambda: (BP(ps), I64(3)), lambda p, k: k * p)
        h_state(stream, 'BinaryPolynomial.__pow__', lambda: (BP(ps), 2), lambda p, k: p ** k)
        h_state(stream, 'BinaryPolynomial.__radd__', lambda: (BP(ps), 1), lambda p, k: k + p)
    h_state(stream, 'dissolve', lambda: ((0, 2, 5),), dissolve)
    h_state(stream, 'BinaryPolynomial(list)', lambda: ([(1, 2), (0,), ('one',)],), BP)
    h_state(stream, 'BinaryPolynomial.zero/identity', lambda: (), lambda: [BP.zero(), BP.identity()])
    # the transform: operator and code untouched, repeatable, also after the code object was used / queried
    codes = [lambda: bc.bravyi_kitaev_code(4), lambda: bc.checksum_code(4, 0), lambda: bc.weight_one_segment_code() * 2,
             lambda: bc.jordan_wigner_code(3) * bc.weight_one_segment_code(), lambda: bc.parity_code(4)]
    for mk in codes:
        def mkargs(mk=mk):
            return (FO('2^ 0', 1.5) + FO('1^ 1', -0.5j) + FO('2^ 1^ 2 1', 2.0) + FO('0^ 2', 2.0 ** -10), mk())
        h_state(stream, 'binary_code_transform', mkargs, binary_code_transform)

    # ---------------- (T) containers / numpy types accepted by the library
    enc = [[1, 0, 1], [0, 1, 1]]
    dec = ['w0 w1 + w0', 'w0 w1 + w1', 'w0 w1']
    h_types(stream, 'BinaryCode', lambda: BCode(enc, dec),
            [(lab, (lambda E=E: BCode(E, dec))) for lab, E in
             [('int64 array', numpy.array(enc)), ('int32 array', numpy.array(enc, dtype=I32)), ('uint8 array', numpy.array(enc, dtype=numpy.uint8)),
              ('float array', numpy.array(enc, dtype=float)), ('bool array', numpy.array(enc, dtype=bool)),
              ('fortran array', numpy.asfortranarray(numpy.array(enc)))]] +
            [(lab, (lambda D=D: BCode(enc, D()))) for lab, D in
             [('tuple lists', lambda: [[(0, 1), (0,)], [(0, 1), (1,)], [(0, 1)]]),
              ('polynomials', lambda: [BP(x) for x in dec]),
              ('object array', lambda: numpy.array([BP(x) for x in dec], dtype=object)),
              ('mixed', lambda: [dec[0], BP(dec[1]), [(1, 0)]]),
              ('numpy int tuples', lambda: [[(I64(0), I32(1)), (I64(0),)], [(I32(1), I64(0)), (I32(1),)], [(I64(0), I64(1))]])]])
    for ps, bits in [('w0 w2 + w1 + 1', [1, 0, 1]), ('w1 w2 w3 + w0', [0, 1, 1, 1, 0]), ('1', []), ('w0 + w0 w1', [1, 1])]:
        p = BP(ps)
        h_types(stream, 'BinaryPolynomial.evaluate', lambda: int(p.evaluate(list(bits))),
                [('tuple', lambda: int(p.evaluate(tuple(bits)))), ('int64 array', lambda: int(p.evaluate(numpy.array(bits, dtype=I64)))),
                 ('int8 array', lambda: int(p.evaluate(numpy.array(bits, dtype=numpy.int8)))),
                 ('bool list', lambda: int(p.evaluate([bool(b) for b in bits]))),
                 ('bool array', lambda: int(p.evaluate(numpy.array(bits, dtype=bool)))),
                 ('str', lambda: int(p.evaluate(''.join(map(str, bits))))),
                 ('float list', lambda: int(p.evaluate([float(b) for b in bits]))),
                 ('numpy int list', lambda: int(p.evaluate([I64(b) if i % 2 else numpy.int8(b) for i, b in enumerate(bits)])))])
    for n in (3, 6):
        h_types(stream, 'jordan_wigner_code', lambda: bc.jordan_wigner_code(n), [('int64', lambda: bc.jordan_wigner_code(I64(n))), ('int32', lambda: bc.jordan_wigner_code(I32(n))), ('uint8', lambda: bc.jordan_wigner_code(numpy.uint8(n)))])
        h_types(stream, 'bravyi_kitaev_code', lambda: bc.bravyi_kitaev_code(n), [('int64', lambda: bc.bravyi_kitaev_code(I64(n))), ('int32', lambda: bc.bravyi_kitaev_code(I32(n)))])
        h_types(stream, 'parity_code', lambda: bc.parity_code(n), [('int64', lambda: bc.parity_code(I64(n))), ('int32', lambda: bc.parity_code(I32(n)))])
        h_types(stream, 'checksum_code', lambda: bc.checksum_code(n, 1), [('int64, numpy.bool_', lambda: bc.checksum_code(I64(n), numpy.bool_(True))), ('int32, True', lambda: bc.checksum_code(I32(n), True)), ('int, int64 1', lambda: bc.checksum_code(n, I64(1)))])
        h_types(stream, 'checksum_code', lambda: bc.checksum_code(n, 0), [('int64, numpy.bool_', lambda: bc.checksum_code(I64(n), numpy.bool_(False))), ('int, False', lambda: bc.checksum_code(n, False))])
    h_types(stream, 'interleaved_code', lambda: bc.interleaved_code(6), [('int64', lambda: bc.interleaved_code(I64(6)))])
    h_types(stream, 'weight_one_binary_addressing_code', lambda: bc.weight_one_binary_addressing_code(3),
            [('int64', lambda: bc.weight_one_binary_addressing_code(I64(3)))])
    h_types(stream, 'shift_decoder', lambda: shift_decoder(bc.bravyi_kitaev_code(3).decoder, 4),
            [('int64', lambda: shift_decoder(bc.bravyi_kitaev_code(3).decoder, I64(4))),
             ('object array decoder', lambda: shift_decoder(numpy.array(bc.bravyi_kitaev_code(3).decoder, dtype=object), I32(4)))])
    h_types(stream, 'linearize_decoder', lambda: bc.linearize_decoder(M),
            [('int64 array', lambda: bc.linearize_decoder(numpy.array(M))), ('float array', lambda: bc.linearize_decoder(numpy.array(M, dtype=float))),
             ('bool array', lambda: bc.linearize_decoder(numpy.array(M, dtype=bool))), ('fortran', lambda: bc.linearize_decoder(numpy.asfortranarray(numpy.array(M)))),
             ('tuples', lambda: bc.linearize_decoder(tuple(map(tuple, M))))])
    h_types(stream, 'dissolve', lambda: dissolve((0, 2, 3)), [('numpy ints', lambda: dissolve((I64(0), I32(2), I64(3)))), ('list', lambda: dissolve([0, 2, 3]))])
    h_types(stream, 'BinaryPolynomial(list)', lambda: BP([(300, 257), (1000,), (2, 'one')]),
            [('numpy ints', lambda: BP([(I64(300), I32(257)), (I64(1000),), (I32(2), 'one')])),
             ('lists', lambda: BP([[300, 257], [1000], [2, 'one']])), ('tuple of tuples', lambda: BP(((257, 300), (1000,), ('one', 2))))])
    # variable indices of any integer type are treated alike (numpy indices arise from shifts by numpy integers,
    # e.g. appending to a code whose n_qubits is a numpy integer)
    for ps in ('w0', 'w1 + 1', 'w0 w2 + w1', 'w0 + w1 + w2 w3 w4', 'w3', 'w0 w1'):
        for K in (I64, I32):
            for c in (0, 2, 255, 257):
                def np_poly(ps=ps, K=K, c=c):
                    p = BP(ps)
                    p.shift(K(c))
                    return p
                def py_poly(ps=ps, c=c):
                    p = BP(ps)
                    p.shift(c)
                    return p
                def raw_poly(ps=ps, K=K, c=c):
                    p = py_poly()
                    p.terms = [tuple(f if isinstance(f, str) else K(f) for f in t) for t in p.terms]
                    return p
                nbits = c + 6
                bits = [rng.randint(0, 1) for _ in range(nbits)]
                for label, mk in (('shifted by %s(%d)' % (K.__name__, c), np_poly), ('%s indices in .terms' % K.__name__, raw_poly)):
                    h_types(stream, 'extractor (index types)', lambda: extractor(py_poly()), [(label, lambda mk=mk: extractor(mk()))])
                    h_types(stream, 'evaluate (index types)', lambda: int(py_poly().evaluate(bits)),
                            [(label, lambda mk=mk: int(mk().evaluate(bits)))])
                    h_types(stream, 'shift (index types)', lambda: (lambda q: (q.shift(3), q)[1])(py_poly()),
                            [(label, lambda mk=mk: (lambda q: (q.shift(K(3)), q)[1])(mk()))])
                    h_types(stream, 'arithmetic (index types)', lambda: [py_poly() + py_poly(), py_poly() * BP('w1 + w%d' % (c + 1)), py_poly() ** 2],
                            [(label, lambda mk=mk: [mk() + py_poly(), mk() * BP('w1 + w%d' % (c + 1)), mk() ** 2])])
                    for t in py_poly().terms:
                        if len(t) > 1 and ONE not in t:
                            h_types(stream, 'dissolve (index types)', lambda t=t: dissolve(t),
                                    [(label, lambda t=t: dissolve(tuple(K(f) for f in t)))])
    for mk in (lambda K: bc.jordan_wigner_code(2) * K(2) + bc.jordan_wigner_code(2), lambda K: K(2) * bc.parity_code(2) + bc.bravyi_kitaev_code(2),
               lambda K: (bc.jordan_wigner_code(1) * K(3) + bc.weight_one_segment_code()) + bc.jordan_wigner_code(1)):
        for opstr in ('5^ 1', '4^ 4', '3^ 0', '5^ 5', '4^ 5^ 4 5'):
            H = FO(opstr)
            h_types(stream, 'binary_code_transform (repetition factor types)', lambda: binary_code_transform(H, mk(int)),
                    [('int64 factor', lambda: binary_code_transform(H, mk(I64))), ('int32 factor', lambda: binary_code_transform(H, mk(I32)))])
            h_types(stream, 'make_parity_list (repetition factor types)', lambda: make_parity_list(mk(int)),
                    [('int64 factor', lambda: make_parity_list(mk(I64))), ('int32 factor', lambda: make_parity_list(mk(I32)))])
    # coefficients: numpy.float64 / complex128 through the constructor, numpy scalars placed into .terms, numpy mode indices
    ncase = budget(ctx.tier, 6, 30)
    for _ in range(ncase):
        e = rng.choice([['bk', 4], ['jw', 3], ['parity', 4], ['checksum', 4, False], ['w1seg'], ['interleaved', 4]])
        inf = info(of, e)
        f = rand_fermion_op(rng, inf)
        f = {t: rng.choice(BAND) if rng.random() < 0.5 else c for t, c in f.items()}
        if not f:
            continue
        code = build_impl(of, e)
        def plain():
            H = FO()
            for t, c in f.items():
                H += FO(t, c)
            return binary_code_transform(H, code)
        def np_ctor():
            H = FO()
            for t, c in f.items():
                H += FO(t, numpy.complex128(c) if isinstance(c, complex) else numpy.float64(c))
            return binary_code_transform(H, code)
        def np_terms(kinds):
            H = FO()
            for k, (t, c) in enumerate(f.items()):
                H.terms[tuple((I64(i) if (k + i) % 2 else I32(i), I64(a)) for i, a in t)] = kinds[k % len(kinds)](c)
            return binary_code_transform(H, code)
        exact32 = all(complex(numpy.complex64(c)) == complex(c) for c in f.values())
        real = all(not isinstance(c, complex) for c in f.values())
        variants = [('numpy.float64 / complex128 coefficients', np_ctor),
                    ('complex128 scalars and numpy indices in .terms', lambda: np_terms([numpy.complex128]))]
        if exact32:
            variants.append(('complex64 scalars in .terms', lambda: np_terms([numpy.complex64])))
        if real:
            variants.append(('float64 / float32 scalars in .terms', lambda: np_terms([numpy.float64, numpy.float32])))
        if all(not isinstance(c, complex) and float(c).is_integer() for c in f.values()):
            variants.append(('int64 scalars in .terms', lambda: np_terms([numpy.int64])))
        h_types(stream, 'binary_code_transform', plain, variants)


# ------------------------------------------------------------------ histories: state shared across calls

CODE_ATTRS = {'encoder', 'decoder', 'n_qubits', 'n_modes'}


def check_history(ctx, stream):
    """(S) across calls: transform with a code, derive a related code from it (concatenation, appending,
    repetition, in-place forms, copies, attribute replacement), transform with the derived code: the result
    must equal the transform with an independently built equal code (term for term) and satisfy the Spec
    action oracle; the observable state of code / polynomial objects has exactly the documented attributes
    and is not changed by the transform and its helpers."""
    of = ctx.of
    from openfermion.transforms.opconversions import binary_codes as bc
    from openfermion.transforms.opconversions.binary_code_transform import (binary_code_transform, extractor, dissolve,
                                                                             make_parity_list)
    BP, FO = of.BinaryPolynomial, of.FermionOperator
    rng = rng_for(ctx.seed, 'c09-history')
    I64 = numpy.int64
    # (expression of the base code c, expressions of partners e with e.n_modes == c.n_qubits and of same-size codes)
    bases = [(['jw', 4], [['parity', 4], ['bk', 4], ['interleaved', 4], ['checksum', 4, False]], [['bk', 4], ['parity', 4]]),
             (['bk', 4], [['parity', 4], ['jw', 4], ['interleaved', 4]], [['parity', 4], ['jw', 4]]),
             (['parity', 3], [['bk', 3], ['jw', 3], ['w1seg']], [['bk', 3], ['jw', 3]]),
             (['checksum', 4, True], [['jw', 3], ['bk', 3], ['parity', 3]], [['checksum', 4, False]]),
             (['interleaved', 4], [['add', ['jw', 2], ['parity', 2]], ['bk', 4]], [['jw', 4]]),
             (['w1seg'], [['jw', 2], ['parity', 2], ['bk', 2]], [])]
    if ctx.tier == 'thorough' or ctx.drift:
        bases += [(['jw', 5], [['w2seg'], ['bk', 5], ['checksum', 5, True]], [['parity', 5]]),
                  (['add', ['jw', 2], ['w1seg']], [['bk', 4], ['parity', 4]], [])]

    def derive(kind, c, e, same):
        """-> derived code object (may mutate c, as the caller's program would)"""
        if kind == 'concat':
            return c * e
        if kind == 'iconcat':
            c *= e
            return c
        if kind == 'add':
            return c + e
        if kind == 'radd':
            return e + c
        if kind == 'iadd':
            c += e
            return c
        if kind == 'mul2':
            return 2 * c
        if kind == 'mul2np':
            return c * I64(2)
        if kind == 'imul2':
            c *= 2
            return c
        if kind == 'deepcopy':
            return copy.deepcopy(c)
        if kind == 'copy':
            return copy.copy(c)
        if kind == 'concat-concat':
            return (c * e) * bc.jordan_wigner_code(int(e.n_qubits))
        if kind == 'replace':
            # the caller replaces encoder and decoder by those of another code of the same size
            c.encoder, c.decoder = same.encoder, list(same.decoder)
            c.n_qubits, c.n_modes = same.n_qubits, same.n_modes
            return c
        if kind == 'decoder-edit':
            # the caller edits one decoder component in place (a code with the same sizes, other decoder)
            c.decoder[0] += c.decoder[-1]
            return c
        raise AssertionError(kind)

    def ops_for(inf):
        out = []
        for _ in range(3):
            f = rand_fermion_op(rng, inf)
            if f:
                out.append(f)
        m = inf.nm - 1
        out.append({((m, 1), (0, 0)): 1.0, ((0, 1), (m, 0)): 1.0})
        out.append({((min(2, m), 1),): 1.0})
        return out

    def build_op(f):
        H = FO()
        for t, c in f.items():
            H += FO(t, c)
        return H

    oracle = []
    for ce, partners, sames in bases:
        cinf = info(of, ce)
        prior_ops = ops_for(cinf)[:2]
        for kind in ('concat', 'iconcat', 'add', 'radd', 'iadd', 'mul2', 'mul2np', 'imul2', 'deepcopy', 'copy',
                     'concat-concat', 'replace', 'decoder-edit'):
            if kind == 'replace' and not sames:
                continue
            plist = partners if kind in ('concat', 'iconcat', 'add', 'radd', 'iadd', 'concat-concat') else [None]
            for ee in plist:
                se = rng.choice(sames) if sames else None
                for prior in ('none', 'transform', 'parity-list', 'extractor', 'transform-twice'):
                    case = {'check': 'history', 'code': ce, 'derivation': kind, 'partner': ee, 'same_size_code': se,
                            'prior_use': prior}
                    stream.case(case)
                    stream.count('history:' + kind)
                    stream.count('prior:' + prior)
                    try:
                        def make(with_history):
                            c = build_impl(of, ce)
                            e = build_impl(of, ee) if ee is not None else None
                            sm = build_impl(of, se) if se is not None else None
                            if with_history:
                                if prior in ('transform', 'transform-twice'):
                                    binary_code_transform(build_op(prior_ops[0]), c)
                                    if e is not None:
                                        binary_code_transform(build_op({((0, 1), (0, 0)): 1.0}), e)
                                if prior == 'transform-twice':
                                    binary_code_transform(build_op(prior_ops[1]), c)
                                if prior == 'parity-list':
                                    make_parity_list(c)
                                    if sm is not None:
                                        make_parity_list(sm)
                                if prior == 'extractor':
                                    for dpoly in list(c.decoder):
                                        extractor(dpoly)
                            return derive(kind, c, e, sm)
                        d_hist = make(True)
                        d_fresh = make(False)
                        ja, jb = code_json(d_hist), code_json(d_fresh)
                        if canon_code(ja) != canon_code(jb):
                            stream.violate('a code derived after an earlier transform differs from the freshly built one',
                                           case, {'with_history': ja, 'fresh': jb})
                            continue
                        extra = set(vars(d_hist)) - CODE_ATTRS
                        # valid operators for the derived code: its own expression may not be in the grammar; use sizes
                        nm = int(d_fresh.n_modes)
                        fs = [{((nm - 1, 1), (0, 0)): 1.0, ((0, 1), (nm - 1, 0)): 0.5},
                              {((min(2, nm - 1), 1),): 1.0}, {((nm - 1, 1), (nm - 1, 0)): -2.0, ((0, 1), (0, 0)): 1.0},
                              {((1 % nm, 1), (0, 1), (nm - 1, 0), (0, 0)): 1j}]
                        for f in fs:
                            H = build_op(f)
                            q1 = binary_code_transform(H, d_hist)
                            q2 = binary_code_transform(H, d_fresh)
                            stream.count('history:transforms-compared')
                            if canon_qop(q1.terms) != canon_qop(q2.terms):
                                stream.violate('binary_code_transform depends on what was done with the code object before '
                                               '(differs from the transform with a freshly built equal code)', case,
                                               {'fermion_op': [[list(map(list, t)), to_gq(c)] for t, c in f.items()],
                                                'with_history': enc_op('qubit', q1.terms), 'fresh': enc_op('qubit', q2.terms)})
                                break
                        if code_json(d_hist) != ja:
                            stream.violate('binary_code_transform changed the observable state of the code', case, {})
                        de = {'concat': ['concat', ce, ee], 'iconcat': ['concat', ce, ee], 'add': ['add', ce, ee],
                              'iadd': ['add', ce, ee], 'radd': ['add', ee, ce], 'deepcopy': ce, 'copy': ce, 'replace': se,
                              'mul2': ['mulint', ce, (2, 'int'), 'r'], 'mul2np': ['mulint', ce, (2, 'int'), 'r'],
                              'imul2': ['mulint', ce, (2, 'int'), 'r']}.get(kind)
                        if kind == 'concat-concat':
                            de = ['concat', ['concat', ce, ee], ['jw', sizes(ee)[1]]]
                        if de is not None:
                            dinf = info(of, de)
                            enc = [[int(x) for x in r] for r in numpy.asarray(d_hist.encoder.toarray()).tolist()]
                            for f in [rand_fermion_op(rng, dinf), fs[0]]:
                                if not f:
                                    continue
                                q = binary_code_transform(build_op(f), d_hist)
                                oracle.append((case, de, {'op': 'c09.spec_bct', 'enc': enc, 'dom': dinf.dom[:1024],
                                                          'f': enc_op('fermion', f), 'q': enc_op('qubit', q.terms)}))
                        extra |= set(vars(d_hist)) - CODE_ATTRS
                        if extra:
                            stream.violate('the code object carries attributes other than encoder / decoder / n_qubits / n_modes '
                                           'after being used', case, {'attributes': sorted(extra)})
                    except Exception as ex:  # noqa: BLE001
                        stream.violate('history check raised %s' % errname(ex), case, {})
    if oracle:
        answers = ctx.driver.run([r for _, _, r in oracle])
        for (case, de, r), ans in zip(oracle, answers):
            if ans['verdict'] == 'leaves':
                stream.count('oracle:inadmissible(operator leaves the domain)')
                continue
            stream.count('oracle:checked')
            if ans['verdict'] != 'ok':
                stream.violate('with a code derived from a used code the transformed operator acts differently on an encoded '
                               'basis state', case, {'expr': de, 'v_mask': ans['v'], 'qubit_side': ans['lhs'],
                                                     'fermion_side_encoded': ans['rhs']})
    # (2) helpers leave the observable state alone; (3) polynomial helpers after in-place edits
    for ce in (['bk', 4], ['checksum', 4, True], ['w2seg'], ['mulint', ['w1seg'], (2, 'int'), 'r']):
        case = {'check': 'history', 'code': ce, 'what': 'observable state under helpers'}
        stream.case(case)
        stream.count('history:helpers')
        try:
            c = build_impl(of, ce)
            before = (code_json(c), sorted(vars(c)))
            make_parity_list(c)
            for dpoly in list(c.decoder):
                extractor(dpoly)
                dpoly.enumerate_qubits()
                if any(vars(dpoly).keys() - {'terms'}):
                    stream.violate('a decoder polynomial carries attributes other than terms after extractor', case,
                                   {'attributes': sorted(vars(dpoly))})
            pl1 = make_parity_list(c)
            h_mutate(pl1)
            pl2 = make_parity_list(c)
            fresh = make_parity_list(build_impl(of, ce))
            if h_canon(pl2) != h_canon(fresh):
                stream.violate('make_parity_list depends on an earlier call whose result was modified', case, {})
            if (code_json(c), sorted(vars(c))) != before or set(vars(c)) != CODE_ATTRS:
                stream.violate('make_parity_list / extractor changed the observable state of the code', case,
                               {'attributes': sorted(vars(c))})
        except Exception as ex:  # noqa: BLE001
            stream.violate('helper history check raised %s' % errname(ex), case, {})
    for ps in ('w0 w1 + w2', 'w1 + 1', 'w0 w1 w3 + w1 w2 + w0', 'w2', 'w0 + w1 + w2 + w3'):
        for edit in ('iadd', 'imul', 'shift', 'iadd-const', 'imul-zero', 'terms-replace'):
            case = {'check': 'history', 'poly': ps, 'edit': edit}
            stream.case(case)
            stream.count('history:poly-' + edit)
            try:
                def edited(p):
                    if edit == 'iadd':
                        p += BP('w1 w2 + w5')
                    elif edit == 'imul':
                        p *= BP('w0 + w4')
                    elif edit == 'shift':
                        p.shift(3)
                    elif edit == 'iadd-const':
                        p += 1
                    elif edit == 'imul-zero':
                        p = p * 2
                        p += BP('w7')
                    else:
                        p.terms = [(1, 4), (2,)]
                    return p
                p = BP(ps)
                extractor(p)
                p.evaluate([1] * 12)
                p.enumerate_qubits()
                str(p)
                p = edited(p)
                q = edited(BP(ps))
                bits = [rng.randint(0, 1) for _ in range(12)]
                same = (h_canon(extractor(p)) == h_canon(extractor(q)) and p.evaluate(bits) == q.evaluate(bits)
                        and sorted(p.enumerate_qubits()) == sorted(q.enumerate_qubits()) and str(p) == str(q)
                        and h_canon(p * BP('w1')) == h_canon(q * BP('w1')) and h_canon(p + BP('w1')) == h_canon(q + BP('w1')))
                if not same:
                    stream.violate('a BinaryPolynomial edited in place answers differently from a freshly built equal one', case, {})
                if set(vars(p)) != {'terms'}:
                    stream.violate('a BinaryPolynomial carries attributes other than terms after being used', case,
                                   {'attributes': sorted(vars(p))})
            except Exception as ex:  # noqa: BLE001
                stream.violate('polynomial history check raised %s' % errname(ex), case, {})
    for term in ((0, 2), (1, 2, 3), (0, 1, 2, 3)):
        case = {'check': 'history', 'dissolve': list(term)}
        stream.case(case)
        stream.count('history:dissolve')
        a = dissolve(term)
        h_mutate(a)
        if h_canon(dissolve(term)) != h_canon(dissolve(tuple(numpy.int64(i) for i in term))):
            stream.violate('dissolve depends on an earlier call', case, {})


# ------------------------------------------------------------------ known findings

def classify(v):
    """only the listed known finding: the literal decoder of weight_two_segment_code"""
    d = v.get('detail', {})
    what = v.get('what', '')
    if (what.startswith('decode(encode v) != v') or 'transformed operator acts differently' in what) \
            and _contains(d.get('expr'), 'w2seg'):
        return 'C09-w2seg-decoder'
    return None


def _contains(e, name):
    if not isinstance(e, (list, tuple)) or not e:
        return False
    return e[0] == name or any(_contains(x, name) for x in e[1:] if isinstance(x, (list, tuple)))


def probe_known(ctx, k):
    """replay the witness of a listed finding on the real code: True while it still fails"""
    from openfermion.transforms.opconversions import binary_codes as bc
    if k['id'] == 'C09-w2seg-decoder':
        try:
            c = bc.weight_two_segment_code()
            w = [int(x) % 2 for x in c.encoder.dot([0, 0, 0, 0, 1])]
            return [int(d.evaluate(w)) for d in c.decoder] != [0, 0, 0, 0, 1]
        except Exception:  # noqa: BLE001
            return True
    return False


def replay(ctx, payload):
    """re-run a recorded spec violation; True when it no longer fails"""
    v = payload.get('violation')
    if not v:
        return None
    inp = v.get('input', {})
    s = Stream('replay', 'replay')
    if inp.get('check') == 'history':
        check_history(ctx, s)
        key = json.dumps(inp, sort_keys=True)
        return not [x for x in s.violations if json.dumps(x.get('input'), sort_keys=True) == key and classify(x) is None]
    if inp.get('check') in ('state', 'types'):
        check_hardening(ctx, s)
        key = json.dumps(inp, sort_keys=True)
        return not [x for x in s.violations if json.dumps(x.get('input'), sort_keys=True) == key and classify(x) is None]
    if 'prog' in inp:
        prog = [_thaw_stmt(st) for st in inp['prog']]
        check_poly_programs(ctx, s, [prog], inp['nvars'])
    elif 'fermion_op' in inp:
        f = {tuple((int(i), int(a)) for i, a in t): _gq_to_py(c) for t, c in inp['fermion_op']}
        check_transform(ctx, s, [(_thaw_expr(inp['code']), f)])
    elif 'code' in inp:
        check_codes(ctx, s, [_thaw_expr(inp['code'])])
    else:
        return None
    return not [x for x in s.violations if classify(x) is None]


def _gq_to_py(c):
    from fractions import Fraction
    re, im = Fraction(c[0], c[1]), Fraction(c[2], c[3])
    return complex(float(re), float(im)) if im != 0 else float(re)


def _thaw_expr(e):
    if isinstance(e, list):
        if e and e[0] == 'mulint':
            return ['mulint', _thaw_expr(e[1]), tuple(e[2]), e[3]]
        return [_thaw_expr(x) for x in e]
    return e


def _thaw_stmt(st):
    st = list(st)
    k = st[0]
    if k == 'seq':
        st[2] = [tuple(t) for t in st[2]]
    for i, x in enumerate(st):
        if isinstance(x, list) and len(x) == 2 and isinstance(x[1], str) and x[1] in ('int', 'i64', 'i32'):
            st[i] = tuple(x)
    return st


# ------------------------------------------------------------------ streams

def exhaustive_poly_programs():
    """all ordered pairs of polynomials over w0, w1 (16 functions each, as sums of the 4
    monomials) added and multiplied in and out of place"""
    monos = [(ONE,), (0,), (1,), (0, 1)]
    polys = []
    for mask in range(16):
        polys.append([monos[i] for i in range(4) if mask >> i & 1])
    progs = []
    for p in polys:
        for q in polys:
            progs.append([['seq', 0, p], ['seq', 1, q], ['add', 2, 0, 1], ['mul', 3, 0, 1],
                          ['iadd', 0, 1], ['imul', 1, 0]])
    return progs


def run(ctx):
    streams = []
    big = ctx.tier == 'thorough' or ctx.drift

    sp = Stream('poly-programs',
                'all ordered pairs of the 16 polynomials over w0,w1 (+, *, +=, *=) and seeded random programs '
                '(<= 10 statements, <= 4 variables; string / tuple-list / int constructors with indices <= 40, '
                "numpy ints, 'one' factors, malformed tokens; + * ** shift evaluate, in-place forms, a += a); "
                'distinct = distinct programs; Spec oracle = GF(2) function equality over all assignments of the support')
    check_poly_programs(ctx, sp, exhaustive_poly_programs(), 4)
    rng = rng_for(ctx.seed, 'c09-poly')
    nprog = budget(ctx.tier, 1200, 12000)
    if ctx.drift:
        nprog = max(nprog, 2500)
    progs = [gen_poly_program(rng, 4, rng.randint(3, 10), rng.random() < 0.6) for _ in range(nprog)]
    check_poly_programs(ctx, sp, progs, 4)
    streams.append(sp)

    sc = Stream('codes',
                'every built-in code at every size (jw/bk/parity 1..8, checksum 2..8 even/odd, interleaved 2..8, '
                'binary addressing 1..3, both segment codes; up to 12 in thorough), a fixed list of special '
                'expressions and seeded random expressions over +, int *, concatenation * with <= 10 modes; every parametrised code also at '
                'n in {16, 17, 20, 33} (encoder / decoder against the Model, decode(encode v) on structured + random vectors); '
                'Spec oracle = decode(encode v) = v and injectivity over the whole domain (sampled above 4096 vectors); '
                'distinct = distinct expressions')
    check_codes(ctx, sc, base_codes(ctx.tier, ctx.drift))
    check_codes(ctx, sc, SPECIAL_CODES)
    rng = rng_for(ctx.seed, 'c09-codes')
    nexpr = budget(ctx.tier, 300, 3000)
    if ctx.drift:
        nexpr = max(nexpr, 600)
    exprs = []
    while len(exprs) < nexpr:
        e = rand_cexpr(rng, 3, rng.choice([6, 8, 10, 10]))
        if e is not None and e[0] in ('add', 'mulint', 'concat'):
            exprs.append(e)
    check_codes(ctx, sc, exprs)
    check_large_codes(ctx, sc)
    sc.exhaustive = False
    streams.append(sc)

    st = Stream('transform',
                'binary_code_transform(op, code) for built-in codes (<= 8 modes), special and random code expressions '
                'with random operators of the flavour that preserves the domain (any / even length / number conserving / '
                'lowering), 1-3 terms, dyadic coefficients; Spec oracle = action on every encoded domain state; JW / BK '
                'codes additionally compared term for term with jordan_wigner / bravyi_kitaev, also at n in {16, 17, 20, 33} on operators '
                'touching mode 15 and modes >= 16; distinct = distinct (code, operator)')
    rng = rng_for(ctx.seed, 'c09-bct')
    cases = []
    per_code = budget(ctx.tier, 6, 40)
    if ctx.drift:
        per_code = max(per_code, 10)
    pool = [e for e in base_codes('quick', False) if sizes(e)[0] <= (8 if big else 7)] + SPECIAL_CODES
    nrand = budget(ctx.tier, 60, 400)
    while nrand > 0:
        e = rand_cexpr(rng, 2, rng.choice([4, 6, 8]))
        if e is not None:
            pool.append(e)
            nrand -= 1
    pool += mixed_int_exprs(rng, budget(ctx.tier, 14, 60))
    for e in pool:
        try:
            inf = info(ctx.of, e)
        except Exception:  # noqa: BLE001
            inf = None
        if inf is None:
            # the code cannot be built by the implementation: the codes stream reports it
            continue
        if len(inf.dom) == 0 or len(inf.dom) > 1024:
            continue
        for _ in range(per_code):
            f = rand_fermion_op(rng, inf)
            if f:
                cases.append((e, f))
        if len(inf.segs) > 1:
            # every block of an appended / repeated code is touched, alone and together with the last block
            for seg in inf.segs:
                f = {rand_term(rng, *seg): dyadic(rng, max_num=4, max_pow=2)}
                cases.append((e, {t: c for t, c in f.items() if c != 0}))
            lo, nseg, fl = inf.segs[-1]
            m = lo + nseg - 1
            cases.append((e, {((m, 1), (m, 0)): 1.0}))
            if all(f_ == 'any' for _, _, f_ in inf.segs):
                cases.append((e, {((m, 1), (inf.segs[0][0] + 1 if inf.segs[0][1] > 1 else 0, 0)): 1.0,
                                  ((lo, 1), (0, 1), (m, 0), (0, 0)): 0.5j}))
    cases = [c for c in cases if c[1]]
    check_transform(ctx, st, cases)
    check_large_transform(ctx, st)
    streams.append(st)
    sh = Stream('hardening', '(S) every constructor, code operation (+, int *, concatenation, +=, *=), helper '
                '(linearize_decoder, shift_decoder, double_decoding, make_parity_list, extractor, dissolve) and '
                'binary_code_transform called twice around an in-place modification of the first result, arguments snapshotted; '
                '(T) encoder as int64 / int32 / uint8 / float / bool / Fortran arrays, decoder as strings / tuples / polynomials / '
                'object arrays, evaluate() on tuples / arrays / bool / str / float, numpy integer sizes and shifts, numpy '
                'float64 / complex128 / complex64 / float32 / int64 coefficients and numpy mode indices placed into .terms (only '
                'types the unmodified library accepts); (B, A) coefficients 1e-4..1e-3 next to O(1), purely imaginary and complex '
                'coefficients, variable indices >= 257')
    check_hardening(ctx, sh)
    streams.append(sh)
    shist = Stream('history', 'state shared across calls: for base codes c (jw / bk / parity / checksum / interleaved / segment) and '
                   'partners e: use c (nothing | binary_code_transform once / twice | make_parity_list | extractor on its decoder), '
                   'derive d by c*e, c*=e, c+e, e+c, c+=e, 2*c, c*numpy 2, c*=2, deepcopy, copy, (c*e)*jw, replacing encoder / '
                   'decoder, editing a decoder component in place; d must equal the independently built code and '
                   'binary_code_transform(op, d) the transform with that fresh code, term for term, for four operators; vars(code) '
                   'has exactly encoder / decoder / n_qubits / n_modes and is unchanged by the transform and its helpers; '
                   'BinaryPolynomial helpers after in-place edits; distinct = distinct histories')
    check_history(ctx, shist)
    streams.append(shist)
    return streams
