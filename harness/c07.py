"""C07 — conjugation, commutators and their shortcuts.

Correspondence of the real functions with the Lean Model (OFV.Model.C07*), plus Spec oracles
(shared `spec.eq`: equality of linear maps on all basis states; `c07.adjoint`: conjugate-transposed
matrix elements; `c07.bch_check`: exp(Z) = exp X exp Y in the free nilpotent algebra; exact
rational nilpotent matrices) evaluated on the implementation's own outputs."""
import itertools
import warnings
from fractions import Fraction

from common import (Stream, budget, enc_op, enc_term, canon_op_json, to_gq, from_gq, dyadic,
                    rng_for, show)

TRUSTED = [
    'C07: operator-level statements (sums over terms; commutator / double_commutator / normal_ordered / '
    'diagonal-Coulomb commutator results) rest on the exact correspondence run + Spec oracle (linear maps '
    'compared on every basis state of <= 6 modes); term-level statements are theorems',
    'C07: BCH coefficients are floats in the library: compared with the exact rational Model values '
    'to 1e-12; matrix results to 1e-9 against exact rational log(exp X exp Y ...) of nilpotent matrices',
]
ASSUMPTIONS = [
    'double_commutator hopping shortcut: admissible hopping operators are t*(i^ j + j^ i) (one coefficient '
    'for both directions, the form named in the docstrings) acting on index sets of size 2',
    'dual-basis predicates: single terms p^ p, p^ q (p != q), p^ q^ p q (p != q) as in the docstrings',
    'commutator_ordered_diagonal_coulomb_with_two_body_operator: operator_a has normal-ordered terms '
    'i^ i, i^ j, i^ j^ i j (i > j); operator_b normal-ordered number-conserving terms of length 2 or 4',
    'coefficients are dyadic Gaussian rationals so that float arithmetic is exact',
]
OPEN_STATEMENTS = [
    'hc for BosonOperator: the stored (re-sorted) key is proved to be the adjoint of the word for the Fock (Bargmann) '
    'inner product of the polynomial representation, all matrix elements, unbounded occupation (hc_boson_adjoint, '
    'hc_boson_term_sound); hc for QuadOperator: the stored key denotes the reversed word (hc_quad_term_sound) - that '
    'q, p are self-adjoint needs the L2 inner product, which the polynomial Spec does not have (oracle: truncated '
    'matrices); injectivity of the boson key map (no overwriting between terms) and the operator-level adjointness of '
    'the Model function are proved (hc_boson_key_injective, hc_boson_terms, hc_boson_operator_adjoint); the quad key map '
    'is proved injective on stored terms (hc_quad_terms); operator-level adjointness is also proved for Fermion and Qubit '
    'operators (hc_fermion_operator_adjoint, hc_qubit_operator_adjoint)',
    'commutator_def_ring (commutator = AB - BA, anticommutator = AB + BA in every ring interpretation, tolerance 0, all '
    'FermionOperators) and dc_commutator_eq_generic (shortcut = generic path under the contract) are proved; '
    'commutator_def / anticommutator_def are proved for every term functional in the exact regime of the in-place '
    'addition (hypothesis ExactAdd: no non-zero coefficient below EQ_TOLERANCE is pruned); double_commutator_def is '
    'proved in every ring interpretation satisfying the CAR and on the Fock space of the Spec (generic path; '
    'hypothesis: the result equals the tolerance-0 result)',
    'hopping shortcut: proved for one shared mode, no shared mode and both modes shared (hopping_shortcut_*), for '
    'hopping operators t (i^ j + j^ i) as in the docstrings',
    'dc_commutator_sound (diagonal-Coulomb commutator = generic commutator) is proved as one statement under the '
    'documented contract (operator_a: identity / i^ j / normal-ordered i^ j^ i j; operator_b: identity / one-body / '
    'normal-ordered two-body), for every tolerance, in every ring with the CAR and on the Fock space '
    '(dc_commutator_sound_ring, dc_commutator_sound; helpers dc_one_body_one_body_sound_ring, '
    'dc_one_body_two_body_sound, dc_two_body_two_body_sound, dc_three_body_insertion_sound); the out-of-spec '
    'fallback branch is proved for non-diagonal normal-ordered two-body terms of operator_a in the exact regime '
    '(dc_commutator_fallback_sound_ring, dc_commutator_fallback_sound); open: other out-of-spec operands '
    '(three-body, odd-length terms: Corr + oracle on random out-of-spec operators)',
    'trivially_double_commutes_dual_basis soundness holds only outside finding F07 (tdc_dual_sound_partial); '
    'trivially_double_commutes_dual_basis_using_term_info is proved sound for the grouped terms the caller builds '
    '(two-mode hopping / number groups, single-mode external-potential terms) under the jellium promise '
    '(term_info_sound_ring, term_info_sound); other index sets (three or more modes) are outside the theorem',
    'bch_expand: exactness proved by kernel computation for orders <= 7 (order 8: exact correspondence + Spec oracle only) (bch_exact_upto_7_partial), lifted to every '
    'nilpotent setting of class k <= 7 in any Q-algebra (bch_universal_upto_7: exp z = exp x exp y) and to any '
    'number of operators through the recursive halving (bch_expand_sound_upto_7: exp z = exp x_0 ... exp x_{n-1} in '
    'filtered algebras with F_{k+1} = 0); open: the statement for every order (Dynkin / BCH theorem in general); '
    'the float coefficient table of the library is compared with the exact table to 1e-12',
]

ACTIONS = {'qubit': ['X', 'Y', 'Z'], 'fermion': [0, 1], 'boson': [0, 1], 'quad': ['q', 'p']}
ALG = {'qubit': 'qubit', 'fermion': 'fermion', 'boson': 'boson', 'quad': ['quad', [1, 1, 0, 1]]}
ZERO = ['leaf', []]


def cls_of(of, name):
    return {'qubit': of.QubitOperator, 'fermion': of.FermionOperator, 'boson': of.BosonOperator,
            'quad': of.QuadOperator}[name]


def leaf(j):
    return ['leaf', j]


def comm_expr(a, b):
    return ['sub', ['mul', a, b], ['mul', b, a]]


def safe(f, *a, **k):
    """call the implementation; -> ('ok', value) | ('err', exception type name)"""
    try:
        with warnings.catch_warnings():
            warnings.simplefilter('ignore')
            return 'ok', f(*a, **k)
    except Exception as e:  # noqa
        return 'err', type(e).__name__ + ': ' + str(e)[:200]


def big(jop, bits=40):
    if len(jop) > 600:
        return True
    for _, c in jop:
        if max(abs(c[0]).bit_length(), c[1].bit_length(), abs(c[2]).bit_length(), c[3].bit_length()) > bits:
            return True
    return False


def rand_op(rng, of, cls, n_terms, max_len, n_modes, zero_p=0.0):
    C = cls_of(of, cls)
    op = C()
    for _ in range(n_terms):
        k = rng.randint(0, max_len)
        t = tuple((rng.randrange(n_modes), rng.choice(ACTIONS[cls])) for _ in range(k))
        op += C(t, dyadic(rng, max_num=4, max_pow=2))
    return op


def op_modes(jop):
    m = -1
    for t, _ in jop:
        for i, _ in t:
            m = max(m, i)
    return m + 1


def op_deg(jop):
    return max([len(t) for t, _ in jop] + [0])


def is_normal_ordered_fermion(jop):
    for t, _ in jop:
        acts = [a for _, a in t]
        if sorted(acts, reverse=True) != acts:
            return False
        cr = [i for i, a in t if a == 1]
        an = [i for i, a in t if a == 0]
        for l in (cr, an):
            if any(x <= y for x, y in zip(l, l[1:])):
                return False
    return True


class Batch:
    """collect Model requests and oracle requests, run them in two driver calls"""

    def __init__(self, ctx, stream):
        self.ctx, self.stream = ctx, stream
        self.model = []     # (request, callback(answer))
        self.oracle = []

    def ask(self, req, cb):
        self.model.append((req, cb))

    def check(self, req, cb):
        self.oracle.append((req, cb))

    def flush(self):
        for lst in (self.model, self.oracle):
            if lst:
                ans = self.ctx.driver.run([r for r, _ in lst])
                for (r, cb), a in zip(lst, ans):
                    cb(a)
        self.model, self.oracle = [], []


def expect_eq(stream, what, case):
    def cb(a):
        stream.count('oracle:checked')
        if not a['eq']:
            stream.violate(what, case, {'witness_state': a.get('state'), 'implementation': a.get('lhs'),
                                        'spec': a.get('rhs')})
    return cb


def compare_op(stream, what, case, impl_j, bits=40):
    def cb(model_j):
        if big(model_j, bits):
            stream.discards += 1
            return
        if canon_op_json(impl_j) != canon_op_json(model_j):
            stream.disagree(what, case, impl_j, model_j)
    return cb


# ---------------------------------------------------------------- hermitian_conjugated

def stream_hc(ctx):
    of = ctx.of
    st = Stream('hermitian-conjugated', 'random Fermion/Boson/Qubit/Quad operators (<= 5 terms of length <= 5, '
                'int/float/complex dyadic coefficients); implementation = Model exactly; oracle: hc(A) denotes the same '
                'linear map as the term-reversed (and action-flipped) operator with conjugated coefficients, and for '
                'fermion/qubit <t|hc(A)|s> = conj <s|A|t> on all basis states; involution; anti-homomorphism '
                'hc(AB) = hc(B) hc(A); distinct = distinct operators')
    B = Batch(ctx, st)
    n_cases = budget(ctx.tier, 80, 1200)
    if ctx.drift:
        n_cases = max(n_cases, 400)
    for cls in ('fermion', 'qubit', 'boson', 'quad'):
        rng = rng_for(ctx.seed, 'c07-hc-' + cls)
        for k in range(n_cases):
            small = cls in ('boson', 'quad')
            n_modes = 2 if small else rng.choice([2, 3, 4, 5])
            max_len = 3 if small else 5
            A = rand_op(rng, of, cls, rng.randint(1, 5), max_len, n_modes)
            ja = enc_op(cls, A.terms)
            case = {'fn': 'hermitian_conjugated', 'cls': cls, 'a': ja}
            st.case(case)
            st.count('class:' + cls)
            kind, H = safe(of.hermitian_conjugated, A)
            if kind == 'err':
                st.violate('hermitian_conjugated raised', case, H)
                continue
            jh = enc_op(cls, H.terms)
            B.ask({'op': 'c07.hc', 'cls': cls, 'a': ja}, compare_op(st, 'hermitian_conjugated terms', case, jh))
            # Spec: adjoint = reversed product of the adjoint generators, conjugated coefficients
            rev = []
            for t, c in ja:
                rt = [[i, (1 - a) if cls in ('fermion', 'boson') else a] for i, a in reversed(t)]
                rev.append([rt, [c[0], c[1], -c[2], c[3]]])
            n = max(op_modes(ja), 1)
            B.check({'op': 'spec.eq', 'alg': ALG[cls], 'n': n, 'd': 3, 'lhs': leaf(jh), 'rhs': leaf(rev)},
                    expect_eq(st, 'hermitian_conjugated(A) is not the adjoint of A', case))
            if cls in ('fermion', 'qubit'):
                def cb(a, case=case):
                    st.count('oracle:adjoint-matrix')
                    if not a['eq']:
                        st.violate('matrix of hermitian_conjugated(A) is not the conjugate transpose', case, a)
                B.check({'op': 'c07.adjoint', 'alg': ALG[cls], 'n': n, 'a': ja, 'b': jh}, cb)
            # involution (exact, on the implementation)
            kind, HH = safe(of.hermitian_conjugated, H)
            if kind == 'err' or canon_op_json(enc_op(cls, HH.terms)) != canon_op_json(ja):
                # only an operator-level statement: compare as linear maps
                if kind == 'err':
                    st.violate('hermitian_conjugated(hc(A)) raised', case, HH)
                else:
                    B.check({'op': 'spec.eq', 'alg': ALG[cls], 'n': n, 'd': 3, 'lhs': leaf(enc_op(cls, HH.terms)),
                             'rhs': leaf(ja)}, expect_eq(st, 'hc is not an involution', case))
            # anti-homomorphism on a second operator
            if k % 4 == 0:
                Bop = rand_op(rng, of, cls, rng.randint(1, 3), 2 if small else 3, n_modes)
                kind, r = safe(lambda: (of.hermitian_conjugated(A * Bop), of.hermitian_conjugated(Bop)))
                if kind == 'err':
                    st.violate('hermitian_conjugated(A*B) raised', case, r)
                else:
                    hab, hb = r
                    n2 = max(n, op_modes(enc_op(cls, Bop.terms)), 1)
                    B.check({'op': 'spec.eq', 'alg': ALG[cls], 'n': n2, 'd': 3, 'lhs': leaf(enc_op(cls, hab.terms)),
                             'rhs': ['mul', leaf(enc_op(cls, hb.terms)), leaf(jh)]},
                            expect_eq(st, 'hc(AB) != hc(B) hc(A)', dict(case, b=enc_op(cls, Bop.terms))))
    # unsupported type
    kind, r = safe(of.hermitian_conjugated, 'not an operator')
    if not (kind == 'err' and r.startswith('TypeError')):
        st.violate('hermitian_conjugated of an unsupported type did not raise TypeError', {'arg': 'str'}, r)
    B.flush()
    return st


# ---------------------------------------------------------------- commutator / anticommutator

def stream_comm(ctx):
    of = ctx.of
    st = Stream('commutator', 'random operator pairs of the four symbolic classes (<= 4 terms of length <= 3): '
                'commutator / anticommutator = Model exactly; oracle: result denotes AB -/+ BA (all basis states); '
                'type mismatch raises TypeError; distinct = distinct (class, A, B, kind)')
    B = Batch(ctx, st)
    n_cases = budget(ctx.tier, 60, 900)
    if ctx.drift:
        n_cases = max(n_cases, 300)
    for cls in ('fermion', 'qubit', 'boson', 'quad'):
        rng = rng_for(ctx.seed, 'c07-comm-' + cls)
        for k in range(n_cases):
            small = cls in ('boson', 'quad')
            n_modes = 2 if small else rng.choice([2, 3, 4])
            max_len = 2 if small else 3
            A = rand_op(rng, of, cls, rng.randint(1, 4), max_len, n_modes)
            Bo = rand_op(rng, of, cls, rng.randint(1, 4), max_len, n_modes)
            if rng.random() < 0.1:
                Bo = A
            anti = rng.random() < 0.4
            ja, jb = enc_op(cls, A.terms), enc_op(cls, Bo.terms)
            case = {'fn': 'anticommutator' if anti else 'commutator', 'cls': cls, 'a': ja, 'b': jb}
            st.case(case)
            st.count(case['fn'] + ':' + cls)
            kind, R = safe(of.anticommutator if anti else of.commutator, A, Bo)
            if kind == 'err':
                st.violate(case['fn'] + ' raised', case, R)
                continue
            jr = enc_op(cls, R.terms)
            B.ask({'op': 'c07.comm', 'cls': cls, 'a': ja, 'b': jb, 'anti': anti},
                  compare_op(st, case['fn'] + ' terms', case, jr))
            n = max(op_modes(ja), op_modes(jb), 1)
            la, lb = leaf(ja), leaf(jb)
            rhs = ['add', ['mul', la, lb], ['mul', lb, la]] if anti else comm_expr(la, lb)
            B.check({'op': 'spec.eq', 'alg': ALG[cls], 'n': n, 'd': 3, 'lhs': leaf(jr), 'rhs': rhs},
                    expect_eq(st, case['fn'] + ' does not denote AB -/+ BA', case))
            if ja != enc_op(cls, A.terms) or jb != enc_op(cls, Bo.terms):
                st.violate(case['fn'] + ' mutated an argument', case, None)
    for f in (of.commutator, of.anticommutator):
        kind, r = safe(f, of.FermionOperator('1^'), of.QubitOperator('X0'))
        if not (kind == 'err' and r.startswith('TypeError')):
            st.violate('mixed operator types did not raise TypeError', {'fn': f.__name__}, r)
    B.flush()
    return st


# ---------------------------------------------------------------- Pauli shortcuts (trotter_error)

def pauli_strings(n):
    out = []
    for acts in itertools.product([None, 'X', 'Y', 'Z'], repeat=n):
        out.append(tuple((i, a) for i, a in enumerate(acts) if a is not None))
    return out


def stream_pauli(ctx):
    of = ctx.of
    from openfermion.circuits.trotter import trotter_error as te
    Q = of.QubitOperator
    st = Stream('pauli-shortcuts', 'trotter_error.trivially_commutes on all ordered pairs of Pauli strings on 3 qubits '
                '(4096) and random pairs on <= 6 of 8 qubits; trivially_double_commutes on all triples of 2-qubit strings '
                '(4096) and random triples; error_operator on random term lists; implementation = Model exactly; '
                'oracle: True <=> [a,b] = 0 resp. True => [a,[b,c]] = 0 as linear maps; error_operator = '
                'sum of all double commutators / 12; distinct = distinct term tuples')
    B = Batch(ctx, st)
    rng = rng_for(ctx.seed, 'c07-pauli')

    def check_pair(ta, tb):
        a, b = Q(ta), Q(tb)
        ja, jb = enc_term('qubit', ta), enc_term('qubit', tb)
        case = {'fn': 'trivially_commutes', 'a': ja, 'b': jb}
        st.case(case)
        kind, r = safe(te.trivially_commutes, a, b)
        if kind == 'err':
            st.violate('trivially_commutes raised', case, r)
            return
        st.count('trivially_commutes:%s' % r)

        def cbm(m):
            if m != r:
                st.disagree('trivially_commutes', case, r, m)
        B.ask({'op': 'c07.pauli_tc', 'a': ja, 'b': jb}, cbm)
        n = max([i for i, _ in ta + tb] + [0]) + 1
        la, lb = leaf([[ja, [1, 1, 0, 1]]]), leaf([[jb, [1, 1, 0, 1]]])

        def cbo(a_):
            st.count('oracle:checked')
            if bool(r) != bool(a_['eq']):
                st.violate('trivially_commutes = %s but [a,b] %s 0' % (r, '==' if a_['eq'] else '!='), case, a_)
        B.check({'op': 'spec.eq', 'alg': 'qubit', 'n': n, 'lhs': comm_expr(la, lb), 'rhs': ZERO}, cbo)

    def check_triple(ta, tb, tc):
        ja, jb, jc = (enc_term('qubit', t) for t in (ta, tb, tc))
        case = {'fn': 'trivially_double_commutes', 'a': ja, 'b': jb, 'c': jc}
        st.case(case)
        kind, r = safe(te.trivially_double_commutes, Q(ta), Q(tb), Q(tc))
        if kind == 'err':
            st.violate('trivially_double_commutes raised', case, r)
            return
        st.count('trivially_double_commutes:%s' % r)

        def cbm(m):
            if m != bool(r):
                st.disagree('trivially_double_commutes', case, r, m)
        B.ask({'op': 'c07.pauli_tdc', 'a': ja, 'b': jb, 'c': jc}, cbm)
        if r:
            n = max([i for i, _ in ta + tb + tc] + [0]) + 1
            la, lb, lc = (leaf([[j, [1, 1, 0, 1]]]) for j in (ja, jb, jc))
            B.check({'op': 'spec.eq', 'alg': 'qubit', 'n': n, 'lhs': comm_expr(la, comm_expr(lb, lc)), 'rhs': ZERO},
                    expect_eq(st, 'trivially_double_commutes = True but [a,[b,c]] != 0', case))

    s3 = pauli_strings(3)
    pairs = list(itertools.product(s3, s3))
    if ctx.tier == 'quick' and not ctx.drift:
        pairs = rng.sample(pairs, 1200)
    else:
        st.exhaustive = True
    for ta, tb in pairs:
        check_pair(ta, tb)

    def rand_string(nq, k):
        qs = sorted(rng.sample(range(nq), k))
        return tuple((q, rng.choice('XYZ')) for q in qs)
    for _ in range(budget(ctx.tier, 300, 4000)):
        check_pair(rand_string(8, rng.randint(0, 6)), rand_string(8, rng.randint(0, 6)))
    s2 = pauli_strings(2)
    triples = list(itertools.product(s2, s2, s2))
    if ctx.tier == 'quick' and not ctx.drift:
        triples = rng.sample(triples, 800)
    for t in triples:
        check_triple(*t)
    for _ in range(budget(ctx.tier, 300, 4000)):
        check_triple(rand_string(5, rng.randint(0, 4)), rand_string(5, rng.randint(0, 4)),
                     rand_string(5, rng.randint(0, 4)))
    # error_operator
    for _ in range(budget(ctx.tier, 25, 300)):
        nt = rng.randint(2, 5)
        terms = []
        for _ in range(nt):
            terms.append((rand_string(4, rng.randint(1, 3)), dyadic(rng, max_num=3, max_pow=1, complex_p=0.0)))
        ops = [Q(t, c) for t, c in terms]
        jts = [enc_op('qubit', o.terms) for o in ops]
        case = {'fn': 'error_operator', 'terms': jts}
        st.case(case)
        st.count('error_operator:n=%d' % nt)
        kind, R = safe(te.error_operator, ops)
        if kind == 'err':
            st.violate('error_operator raised', case, R)
            continue
        # undo the final float scaling `* (1.0 / 12.0)`: the unscaled coefficients are small dyadics
        raw = []
        ok = True
        for t, c in R.terms.items():
            c = complex(c)
            re = Fraction(round(c.real * 12 * 2 ** 16), 2 ** 16)
            im = Fraction(round(c.imag * 12 * 2 ** 16), 2 ** 16)
            st.float_comparisons += 1
            if abs(float(re) / 12 - c.real) > 1e-12 or abs(float(im) / 12 - c.imag) > 1e-12:
                ok = False
            raw.append([enc_term('qubit', t), [re.numerator, re.denominator, im.numerator, im.denominator]])
        if not ok:
            st.violate('error_operator coefficient is not (small dyadic)/12', case, enc_op('qubit', R.terms))
            continue

        def cbm(m, raw=raw, case=case):
            m = [e for e in m]
            if canon_op_json(raw) != canon_op_json(m):
                st.disagree('error_operator (times 12)', case, raw, m)
        B.ask({'op': 'c07.error_operator', 'terms': jts}, cbm)
        # Spec: sum over beta, alpha <= beta, alpha' < beta of [a,[b,a']] (halved when alpha == beta)
        expr = ZERO
        ls = [leaf(j) for j in jts]
        for beta in range(nt):
            for alpha in range(beta + 1):
                for ap in range(beta):
                    dc = comm_expr(ls[alpha], comm_expr(ls[beta], ls[ap]))
                    if alpha == beta:
                        dc = ['smul', [1, 2, 0, 1], dc]
                    expr = ['add', expr, dc]
        B.check({'op': 'spec.eq', 'alg': 'qubit', 'n': 4, 'lhs': leaf(raw), 'rhs': expr},
                expect_eq(st, 'error_operator * 12 != sum of double commutators', case))
    B.flush()
    return st


# ---------------------------------------------------------------- dual-basis predicates

def dual_terms(n):
    ts = []
    for p in range(n):
        ts.append(((p, 1), (p, 0)))
    for p in range(n):
        for q in range(n):
            if p != q:
                ts.append(((p, 1), (q, 0)))
                ts.append(((p, 1), (q, 1), (p, 0), (q, 0)))
    return ts


def one_mode_number(t):
    return len(t) == 2 and t[0][0] == t[1][0]


def f07_class(a, b, c):
    """finding F07: b is a one-mode number operator p^ p and c (a hopping term) acts on p"""
    return one_mode_number(b) and not one_mode_number(c) and len(c) == 2 and b[0][0] in (c[0][0], c[1][0])


def stream_dual(ctx):
    of = ctx.of
    F = of.FermionOperator
    st = Stream('dual-basis-predicates', 'all ordered pairs (784) and triples (21952; sampled in quick) of the 28 dual-basis '
                'terms p^ p, p^ q, p^ q^ p q on 4 modes, random terms on 6 of 9 modes; all (index set, hopping flag) '
                'configurations of ..._using_term_info on 4 modes (two-mode groups and single-mode external-potential terms) with random coefficients; implementation = Model '
                'exactly; oracle: True => the (double) commutator is the zero map on Fock space; distinct = distinct '
                'term tuples')
    B = Batch(ctx, st)
    rng = rng_for(ctx.seed, 'c07-dual')
    one = [1, 1, 0, 1]

    def lf(t):
        return leaf([[enc_term('fermion', t), one]])

    def check_pair(ta, tb, n):
        case = {'fn': 'trivially_commutes_dual_basis', 'a': enc_term('fermion', ta), 'b': enc_term('fermion', tb)}
        st.case(case)
        kind, r = safe(of.trivially_commutes_dual_basis, F(ta), F(tb))
        if kind == 'err':
            st.violate('trivially_commutes_dual_basis raised', case, r)
            return
        r = bool(r)
        st.count('tc:%s' % r)

        def cbm(m):
            if m != r:
                st.disagree('trivially_commutes_dual_basis', case, r, m)
        B.ask({'op': 'c07.dual_tc', 'a': case['a'], 'b': case['b']}, cbm)
        if r:
            B.check({'op': 'spec.eq', 'alg': 'fermion', 'n': n, 'lhs': comm_expr(lf(ta), lf(tb)), 'rhs': ZERO},
                    expect_eq(st, 'trivially_commutes_dual_basis = True but [a,b] != 0', case))

    def check_triple(ta, tb, tc, n):
        case = {'fn': 'trivially_double_commutes_dual_basis', 'a': enc_term('fermion', ta),
                'b': enc_term('fermion', tb), 'c': enc_term('fermion', tc)}
        st.case(case)
        kind, r = safe(of.trivially_double_commutes_dual_basis, F(ta), F(tb), F(tc))
        if kind == 'err':
            st.violate('trivially_double_commutes_dual_basis raised', case, r)
            return
        r = bool(r)
        st.count('tdc:%s' % r)
        if f07_class(ta, tb, tc):
            st.count('tdc:F07-class')

        def cbm(m):
            if m != r:
                st.disagree('trivially_double_commutes_dual_basis', case, r, m)
        B.ask({'op': 'c07.dual_tdc', 'a': case['a'], 'b': case['b'], 'c': case['c']}, cbm)
        if r:
            B.check({'op': 'spec.eq', 'alg': 'fermion', 'n': n,
                     'lhs': comm_expr(lf(ta), comm_expr(lf(tb), lf(tc))), 'rhs': ZERO},
                    expect_eq(st, 'tdc-dual-wrong-true: trivially_double_commutes_dual_basis = True but [a,[b,c]] != 0',
                              case))

    T4 = dual_terms(4)
    for ta in T4:
        for tb in T4:
            check_pair(ta, tb, 4)
    triples = list(itertools.product(T4, T4, T4))
    if ctx.tier == 'quick' and not ctx.drift:
        T3 = dual_terms(3)
        triples = list(itertools.product(T3, T3, T3)) + rng.sample(triples, 3500)
    else:
        st.exhaustive = True
    for t in triples:
        check_triple(*t, 4)
    # random terms on a 6-subset of 9 modes, relabelled to keep the register small is NOT done:
    # the raw indices are used (n = 9 would be 512 states), so choose indices < 6
    for _ in range(budget(ctx.tier, 300, 3000)):
        modes = list(range(6))

        def rt():
            k = rng.random()
            p, q = rng.sample(modes, 2)
            return ((p, 1), (p, 0)) if k < 0.25 else ((p, 1), (q, 0)) if k < 0.65 else ((p, 1), (q, 1), (p, 0), (q, 0))
        check_triple(rt(), rt(), rt(), 6)
        check_pair(rt(), rt(), 6)

    # ..._using_term_info
    # two-mode groups and the single-mode external-potential terms (external_potential_at_end=True)
    sets = [frozenset(s) for s in itertools.combinations(range(4), 2)] + [frozenset((i,)) for i in range(4)]
    configs = list(itertools.product(sets, sets, sets, [False, True], [False, True], [False, True], [False, True]))
    if ctx.tier == 'quick' and not ctx.drift:
        configs = rng.sample(configs, 1100)

    def build(idx, hop, jell):
        if len(idx) == 1:
            (i,) = idx
            return F(((i, 1), (i, 0)), dyadic(rng, max_num=3, max_pow=1, complex_p=0.0) + 4)
        i, j = sorted(idx, reverse=True)
        if hop:
            t = dyadic(rng, max_num=3, max_pow=1, complex_p=0.0)
            return F(((i, 1), (j, 0)), t) + F(((j, 1), (i, 0)), t)
        w = dyadic(rng, max_num=3, max_pow=1, complex_p=0.0)
        ci = dyadic(rng, max_num=3, max_pow=1, complex_p=0.0)
        cj = ci if jell else dyadic(rng, max_num=3, max_pow=1, complex_p=0.0) + 4
        return F(((i, 1), (j, 1), (i, 0), (j, 0)), w) + F(((i, 1), (i, 0)), ci) + F(((j, 1), (j, 0)), cj)
    for ia, ib, iap, ha, hb, hap, jell in configs:
        case = {'fn': 'trivially_double_commutes_dual_basis_using_term_info', 'ia': sorted(ia), 'ib': sorted(ib),
                'iap': sorted(iap), 'ha': ha, 'hb': hb, 'hap': hap, 'jellium': jell}
        st.case(case)
        kind, r = safe(of.trivially_double_commutes_dual_basis_using_term_info, set(ia), set(ib), set(iap),
                       ha, hb, hap, jell)
        if kind == 'err':
            st.violate('..._using_term_info raised', case, r)
            continue
        r = bool(r)
        st.count('term_info:%s' % r)

        def cbm(m, r=r, case=case):
            if m != r:
                st.disagree('trivially_double_commutes_dual_basis_using_term_info', case, r, m)
        B.ask(dict(case, op='c07.term_info'), cbm)
        meaningful = all(len(ix) == 2 or not hp for ix, hp in ((ia, ha), (ib, hb), (iap, hap)))
        st.count('term_info:sizes=%d%d%d' % (len(ia), len(ib), len(iap)))
        if r and meaningful:
            A, Bo, Ap = build(ia, ha, jell), build(ib, hb, jell), build(iap, hap, jell)
            ops = [enc_op('fermion', o.terms) for o in (A, Bo, Ap)]
            B.check({'op': 'spec.eq', 'alg': 'fermion', 'n': 4,
                     'lhs': comm_expr(leaf(ops[0]), comm_expr(leaf(ops[1]), leaf(ops[2]))), 'rhs': ZERO},
                    expect_eq(st, '..._using_term_info = True but [A,[B,A\']] != 0', dict(case, ops=ops)))
    B.flush()
    return st


# ---------------------------------------------------------------- normal_ordered / double_commutator

def stream_double(ctx):
    of = ctx.of
    F = of.FermionOperator
    st = Stream('double-commutator', 'normal_ordered and double_commutator on random FermionOperators (<= 3 terms of '
                'length <= 3 on <= 4 modes) and on dual-basis operators; hopping shortcut on all ordered pairs of '
                'hopping operators t(i^ j + j^ i) on 4 modes against random op1; implementation = Model exactly; '
                'oracle: result denotes [A,[B,C]] on all Fock states and is in normal-ordered form; distinct = '
                'distinct operator tuples')
    B = Batch(ctx, st)
    rng = rng_for(ctx.seed, 'c07-double')

    def nf_check(what, case, jr):
        if not is_normal_ordered_fermion(jr):
            st.violate(what + ' result is not normal ordered', case, jr)

    for _ in range(budget(ctx.tier, 150, 2000)):
        A = rand_op(rng, of, 'fermion', rng.randint(1, 3), 5, rng.choice([2, 3, 4]))
        ja = enc_op('fermion', A.terms)
        case = {'fn': 'normal_ordered', 'a': ja}
        st.case(case)
        st.count('normal_ordered')
        kind, R = safe(of.normal_ordered, A)
        if kind == 'err':
            st.violate('normal_ordered raised', case, R)
            continue
        jr = enc_op('fermion', R.terms)
        B.ask({'op': 'c07.normal_ordered', 'a': ja}, compare_op(st, 'normal_ordered', case, jr))
        nf_check('normal_ordered', case, jr)
        B.check({'op': 'spec.eq', 'alg': 'fermion', 'n': max(op_modes(ja), 1), 'lhs': leaf(jr), 'rhs': leaf(ja)},
                expect_eq(st, 'normal_ordered changed the operator', case))

    def dual_op(n):
        k = rng.random()
        i, j = rng.sample(range(n), 2)
        c = dyadic(rng, max_num=3, max_pow=1)
        if k < 0.3:
            return F(((i, 1), (i, 0)), c)
        if k < 0.6:
            return F(((i, 1), (j, 0)), c) + F(((j, 1), (i, 0)), c)
        return F(((i, 1), (j, 1), (i, 0), (j, 0)), c) + F(((i, 1), (i, 0)), dyadic(rng, max_num=3, max_pow=1))

    for k in range(budget(ctx.tier, 150, 2000)):
        if k % 2 == 0:
            n = rng.choice([2, 3, 4])
            ops = [rand_op(rng, of, 'fermion', rng.randint(1, 3), 3, n) for _ in range(3)]
        else:
            ops = [dual_op(4) for _ in range(3)]
        js = [enc_op('fermion', o.terms) for o in ops]
        case = {'fn': 'double_commutator', 'a': js[0], 'b': js[1], 'c': js[2]}
        st.case(case)
        st.count('double_commutator:generic')
        kind, R = safe(of.double_commutator, *ops)
        if kind == 'err':
            st.violate('double_commutator raised', case, R)
            continue
        jr = enc_op('fermion', R.terms)
        B.ask({'op': 'c07.double_comm', 'a': js[0], 'b': js[1], 'c': js[2]},
              compare_op(st, 'double_commutator', case, jr))
        nf_check('double_commutator', case, jr)
        n = max(max(op_modes(j) for j in js), 1)
        ls = [leaf(j) for j in js]
        B.check({'op': 'spec.eq', 'alg': 'fermion', 'n': n, 'lhs': leaf(jr),
                 'rhs': comm_expr(ls[0], comm_expr(ls[1], ls[2]))},
                expect_eq(st, 'double_commutator != [A,[B,C]]', case))

    # hopping shortcut
    pairs = list(itertools.combinations(range(4), 2))
    combos = list(itertools.product(pairs, pairs))
    reps = budget(ctx.tier, 2, 12)
    for (p2, p3) in combos:
        for _ in range(reps):
            def hop(p):
                i, j = p if rng.random() < 0.5 else p[::-1]
                t = dyadic(rng, max_num=3, max_pow=1)
                return F(((i, 1), (j, 0)), t) + F(((j, 1), (i, 0)), t)
            op2, op3 = hop(p2), hop(p3)
            op1 = dual_op(4) if rng.random() < 0.7 else rand_op(rng, of, 'fermion', 2, 2, 4)
            i2 = list(p2) if rng.random() < 0.5 else list(p2[::-1])
            i3 = list(p3) if rng.random() < 0.5 else list(p3[::-1])
            js = [enc_op('fermion', o.terms) for o in (op1, op2, op3)]
            case = {'fn': 'double_commutator(hopping)', 'a': js[0], 'b': js[1], 'c': js[2], 'i2': i2, 'i3': i3}
            st.case(case)
            st.count('double_commutator:hopping:shared=%d' % len(set(i2) & set(i3)))
            # sets are built by inserting in the given order
            s2, s3 = set(), set()
            for x in i2:
                s2.add(x)
            for x in i3:
                s3.add(x)
            kind, R = safe(of.double_commutator, op1, op2, op3, s2, s3, True, True)
            if kind == 'err':
                st.violate('double_commutator(hopping) raised', case, R)
                continue
            jr = enc_op('fermion', R.terms)
            B.ask({'op': 'c07.double_comm', 'a': js[0], 'b': js[1], 'c': js[2], 'hopping': True, 'i2': i2, 'i3': i3},
                  compare_op(st, 'double_commutator(hopping)', case, jr))
            nf_check('double_commutator(hopping)', case, jr)
            ls = [leaf(j) for j in js]
            B.check({'op': 'spec.eq', 'alg': 'fermion', 'n': 4, 'lhs': leaf(jr),
                     'rhs': comm_expr(ls[0], comm_expr(ls[1], ls[2]))},
                    expect_eq(st, 'double_commutator hopping shortcut != [A,[B,C]]', case))
    B.flush()
    return st


# ---------------------------------------------------------------- diagonal-Coulomb commutator

def dc_a_terms(n):
    ts = [((i, 1), (i, 0)) for i in range(n)]
    ts += [((i, 1), (j, 0)) for i in range(n) for j in range(n) if i != j]
    ts += [((i, 1), (j, 1), (i, 0), (j, 0)) for i in range(n) for j in range(i)]
    return ts


def dc_b_terms(n):
    ts = [((i, 1), (j, 0)) for i in range(n) for j in range(n)]
    prs = [(i, j) for i in range(n) for j in range(i)]
    ts += [((i, 1), (j, 1), (k, 0), (l, 0)) for (i, j) in prs for (k, l) in prs]
    return ts


def stream_dc(ctx):
    of = ctx.of
    F = of.FermionOperator
    from openfermion.transforms.opconversions.commutator_diagonal_coulomb_operator import (
        commutator_ordered_diagonal_coulomb_with_two_body_operator as dcc)
    st = Stream('diagonal-coulomb-commutator', 'all pairs (term of a diagonal-Coulomb operator, normal-ordered two-body '
                'term) on 4 modes (22 x 52 = 1144), random multi-term operators on 5 modes with and without prior_terms '
                'and constants, out-of-spec operator_a terms (non-diagonal two-body, three-body, odd length) that reach the '
                'fallback branch; implementation = Model exactly (stored zeros included); oracle: result denotes '
                'prior + [A,B] on all Fock states; distinct = distinct (A, B, prior)')
    B = Batch(ctx, st)
    rng = rng_for(ctx.seed, 'c07-dc')

    def run_case(A, Bo, prior):
        ja, jb = enc_op('fermion', A.terms), enc_op('fermion', Bo.terms)
        jp = enc_op('fermion', prior.terms) if prior is not None else None
        case = {'fn': 'commutator_ordered_diagonal_coulomb_with_two_body_operator', 'a': ja, 'b': jb, 'prior': jp}
        st.case(case)
        kind, R = safe(dcc, A, Bo, prior_terms=prior)
        if kind == 'err':
            st.violate('diagonal-Coulomb commutator raised', case, R)
            return
        if prior is not None and R is not prior:
            st.violate('prior_terms was not updated in place', case, None)
        jr = enc_op('fermion', R.terms)
        req = {'op': 'c07.dc_comm', 'a': ja, 'b': jb}
        if jp is not None:
            req['prior'] = jp
        B.ask(req, compare_op(st, 'diagonal-Coulomb commutator', case, jr))
        n = max(op_modes(ja), op_modes(jb), op_modes(jp or []), 1)
        rhs = comm_expr(leaf(ja), leaf(jb))
        if jp is not None:
            rhs = ['add', leaf(jp), rhs]
        B.check({'op': 'spec.eq', 'alg': 'fermion', 'n': n, 'lhs': leaf(jr), 'rhs': rhs},
                expect_eq(st, 'diagonal-Coulomb commutator != prior + [A,B]', case))

    At, Bt = dc_a_terms(4), dc_b_terms(4)
    pairs = list(itertools.product(At, Bt))
    if ctx.tier == 'quick' and not ctx.drift:
        pairs = rng.sample(pairs, 600)
    else:
        st.exhaustive = True
    for ta, tb in pairs:
        st.count('pair:%d-%d' % (len(ta), len(tb)))
        run_case(F(ta, dyadic(rng, max_num=3, max_pow=1)), F(tb, dyadic(rng, max_num=3, max_pow=1)), None)
    A5, B5 = dc_a_terms(5), dc_b_terms(5)
    for _ in range(budget(ctx.tier, 120, 1500)):
        A = F()
        for t in rng.sample(A5, rng.randint(1, 4)):
            A += F(t, dyadic(rng, max_num=3, max_pow=1))
        Bo = F()
        for t in rng.sample(B5, rng.randint(1, 4)):
            Bo += F(t, dyadic(rng, max_num=3, max_pow=1))
        if rng.random() < 0.2:
            A += F((), dyadic(rng, max_num=3, max_pow=1))
        if rng.random() < 0.2:
            Bo += F((), dyadic(rng, max_num=3, max_pow=1))
        prior = None
        if rng.random() < 0.4:
            prior = F()
            for t in rng.sample(B5, rng.randint(0, 3)):
                prior += F(t, dyadic(rng, max_num=3, max_pow=1))
        st.count('random:prior=%s' % (prior is not None))
        run_case(A, Bo, prior)
    # out-of-spec operands that reach the fallback branch (generic commutator + normal_ordered): operator_a with
    # non-diagonal two-body, three-body and odd-length normal-ordered terms; the function must still return
    # prior + [A, B]
    two_general = [t for t in B5 if len(t) == 4 and not (t[0][0] == t[2][0] and t[1][0] == t[3][0])]
    trip = [(i, j, k) for i in range(5) for j in range(i) for k in range(j)]
    three = [((a[0], 1), (a[1], 1), (a[2], 1), (b[0], 0), (b[1], 0), (b[2], 0)) for a in trip for b in trip]
    odd = [((i, 1), (j, 1), (k, 0)) for i in range(5) for j in range(i) for k in range(5)]
    for _ in range(budget(ctx.tier, 40, 500)):
        A = F()
        A += F(rng.choice(two_general if rng.random() < 0.6 else (three if rng.random() < 0.5 else odd)),
               dyadic(rng, max_num=3, max_pow=1))
        for t in rng.sample(A5, rng.randint(0, 2)):
            A += F(t, dyadic(rng, max_num=3, max_pow=1))
        Bo = F()
        for t in rng.sample(B5, rng.randint(1, 3)):
            Bo += F(t, dyadic(rng, max_num=3, max_pow=1))
        if rng.random() < 0.3:
            Bo += F(rng.choice(three), dyadic(rng, max_num=3, max_pow=1))
        prior = None
        if rng.random() < 0.4:
            prior = F()
            for t in rng.sample(B5, rng.randint(0, 3)):
                prior += F(t, dyadic(rng, max_num=3, max_pow=1))
        st.count('out-of-spec:prior=%s' % (prior is not None))
        with warnings.catch_warnings():
            warnings.simplefilter('ignore')
            run_case(A, Bo, prior)
    B.flush()
    return st


# ---------------------------------------------------------------- BCH

def frac_mat_mul(a, b):
    n = len(a)
    return [[sum(a[i][k] * b[k][j] for k in range(n)) for j in range(n)] for i in range(n)]


def frac_mat_add(a, b, s=1):
    n = len(a)
    return [[a[i][j] + s * b[i][j] for j in range(n)] for i in range(n)]


def frac_mat_scale(a, c):
    return [[c * x for x in r] for r in a]


def frac_eye(n):
    return [[Fraction(int(i == j)) for j in range(n)] for i in range(n)]


def frac_exp(a):
    n = len(a)
    out, p = frac_eye(n), frac_eye(n)
    for m in range(1, n):
        p = frac_mat_scale(frac_mat_mul(p, a), Fraction(1, m))
        out = frac_mat_add(out, p)
    return out


def frac_log(m):
    """log of a unipotent matrix"""
    n = len(m)
    x = frac_mat_add(m, frac_eye(n), -1)
    out = [[Fraction(0)] * n for _ in range(n)]
    p = frac_eye(n)
    for k in range(1, n):
        p = frac_mat_mul(p, x)
        out = frac_mat_add(out, frac_mat_scale(p, Fraction((-1) ** (k + 1), k)))
    return out


def bch_frac(terms, x, y):
    """Σ coeff · nested commutator, exact"""
    n = len(x)
    z = [[Fraction(0)] * n for _ in range(n)]

    def nested(bits):
        g = y if bits[0] else x
        if len(bits) == 1:
            return g
        r = nested(bits[1:])
        return frac_mat_add(frac_mat_mul(g, r), frac_mat_mul(r, g), -1)
    for bits, c in terms:
        if c != 0:
            z = frac_mat_add(z, frac_mat_scale(nested(bits), c))
    return z


def bch_tree_frac(tree, mats, terms):
    if isinstance(tree, int):
        return mats[tree]
    return bch_frac(terms, bch_tree_frac(tree[0], mats, terms), bch_tree_frac(tree[1], mats, terms))


def stream_bch(ctx):
    import numpy
    of = ctx.of
    from openfermion.utils import bch_expansion as bch
    st = Stream('bch', 'BCH coefficient tables _generate_nested_commutator(order) for every order <= 8 '
                'compared with the exact rational Model; oracle: exp(sum coeff * nested commutator) = exp X exp Y in '
                'the free nilpotent algebra (Lean, on the implementation\'s rationalised coefficients) and '
                'bch_expand(X_1..X_N, order=k) = log(exp X_1 ... exp X_N) on random strictly upper triangular '
                '(k+1)x(k+1) dyadic matrices (nilpotent of class exactly k: non-zero superdiagonals), k = 1..8, N = 2..5, '
                'against exact rational arithmetic; distinct = distinct '
                '(order, matrices)')
    rng = rng_for(ctx.seed, 'c07-bch')
    max_order = 8
    model_terms = {}
    for order in range(0, max_order + 1):
        case = {'fn': '_generate_nested_commutator', 'order': order}
        st.case(case)
        st.count('coeff-table')
        kind, r = safe(bch._generate_nested_commutator, order)
        if kind == 'err':
            st.violate('_generate_nested_commutator raised', case, r)
            continue
        term_list, coeff_list = r
        m = ctx.driver.one({'op': 'c07.bch_coeffs', 'order': order})
        mt = [(tuple(bool(b) for b in bits), Fraction(c[0], c[1])) for bits, c in m]
        model_terms[order] = mt
        impl = [(tuple(ch == '1' for ch in t), c) for t, c in zip(term_list, coeff_list)]
        if [t for t, _ in impl] != [t for t, _ in mt]:
            st.disagree('term list', case, term_list, [t for t, _ in mt])
            continue
        bad = []
        rat = []
        for (t, c), (_, q) in zip(impl, mt):
            st.float_comparisons += 1
            if abs(float(c) - float(q)) > 1e-12:
                bad.append((''.join('1' if b else '0' for b in t), float(c), str(q)))
            f = Fraction(float(c)).limit_denominator(10 ** 6)
            if abs(float(f) - float(c)) > 1e-12:
                f = None
            rat.append((t, f))
        if bad:
            st.disagree('coefficients', case, bad[:5], 'model')
        # Spec oracle on the implementation's own (rationalised) coefficients
        if all(f is not None for _, f in rat):
            ok = ctx.driver.one({'op': 'c07.bch_check', 'order': order,
                                 'terms': [[list(t), [f.numerator, f.denominator]] for t, f in rat]})
            st.count('oracle:free-nilpotent')
            if not ok:
                st.violate('exp(bch_%d(X,Y)) != exp X exp Y in the free nilpotent algebra of class %d' % (order, order),
                           case, [(''.join('1' if b else '0' for b in t), str(f)) for t, f in rat][:40])
        else:
            st.violate('a BCH coefficient is not a rational with small denominator', case, None)

    # matrices: strictly upper triangular (order+1)x(order+1) matrices are nilpotent of class `order`, and the
    # degree-`order` part only survives when every superdiagonal entry is non-zero (forced for half of the cases)
    plan = [(rng.randint(1, 8), rng.choice([2, 2, 3, 4, 5])) for _ in range(budget(ctx.tier, 40, 400))]
    plan += [(o, k) for o in (6, 7, 8) for k in (3, 4, 5)] * budget(ctx.tier, 1, 4)
    for order, nops in plan:
        N = order + 1
        full = rng.random() < 0.6 or order >= 6
        mats = []
        for _ in range(nops):
            m = [[Fraction(0)] * N for _ in range(N)]
            for i in range(N):
                for j in range(i + 1, N):
                    if j == i + 1 and full:
                        m[i][j] = Fraction(rng.choice([-2, -1, 1, 2]), rng.choice([1, 2]))
                    elif order <= 5:
                        m[i][j] = Fraction(rng.randint(-4, 4), 2 ** rng.randint(0, 2))
                    else:
                        m[i][j] = Fraction(rng.choice([-1, 0, 0, 1]), rng.choice([1, 2]))
            mats.append(m)
        case = {'fn': 'bch_expand', 'order': order, 'mats': [[[str(x) for x in r] for r in m] for m in mats]}
        st.case(case)
        st.count('bch_expand:order=%d:ops=%d' % (order, nops))
        arrs = [numpy.array([[float(x) for x in r] for r in m]) for m in mats]
        kind, R = safe(of.bch_expand, *arrs, order=order)
        if kind == 'err':
            st.violate('bch_expand raised', case, R)
            continue
        prod = frac_eye(N)
        for m in mats:
            prod = frac_mat_mul(prod, frac_exp(m))
        want = frac_log(prod)
        st.float_comparisons += N * N
        scale = max(1.0, max(abs(float(x)) for r in want for x in r))
        err = max(abs(float(want[i][j]) - R[i][j]) for i in range(N) for j in range(N))
        if not err <= 1e-9 * scale:
            st.violate('bch_expand(order=%d) != log(prod exp X_i) on nilpotent matrices (max error %g)' % (order, err),
                       case, {'got': R.tolist(), 'want': [[str(x) for x in r] for r in want]})
        # Model: same bracketing, exact coefficients: exact equality with the log (cheap orders only)
        if order <= 5:
            tree = ctx.driver.one({'op': 'c07.bch_tree', 'n': nops})
            got = bch_tree_frac(tree, mats, model_terms[order])
            if got != want:
                st.disagree('Model BCH (exact) != log(prod exp X_i)', case, 'exact model value differs', None)
    # error kinds
    X = of.QubitOperator('X0')
    for args, kw, exp in (((X,), {}, 'ValueError'), ((X, X), {'order': -1}, 'ValueError'),
                          ((X, X), {'order': 2.0}, 'ValueError'), ((X, of.FermionOperator('1^')), {}, 'TypeError')):
        kind, r = safe(of.bch_expand, *args, **kw)
        st.count('error-kind')
        if not (kind == 'err' and r.startswith(exp)):
            st.violate('bch_expand did not raise %s' % exp, {'kw': kw, 'nargs': len(args)}, str(r)[:200])
    # symbolic operators: order 2 has dyadic coefficients only (1, 1/4)
    for _ in range(budget(ctx.tier, 10, 100)):
        A = rand_op(rng, of, 'qubit', 2, 2, 3)
        Bo = rand_op(rng, of, 'qubit', 2, 2, 3)
        ja, jb = enc_op('qubit', A.terms), enc_op('qubit', Bo.terms)
        case = {'fn': 'bch_expand', 'order': 2, 'a': ja, 'b': jb}
        st.case(case)
        st.count('bch_expand:qubit-order2')
        kind, R = safe(of.bch_expand, A, Bo, order=2)
        if kind == 'err':
            st.violate('bch_expand raised', case, R)
            continue
        la, lb = leaf(ja), leaf(jb)
        a = ctx.driver.one({'op': 'spec.eq', 'alg': 'qubit', 'n': 3, 'lhs': leaf(enc_op('qubit', R.terms)),
                            'rhs': ['add', ['add', la, lb], ['smul', [1, 2, 0, 1], comm_expr(la, lb)]]})
        if not a['eq']:
            st.violate('bch_expand(A, B, order=2) != A + B + [A,B]/2', case, a)
    return st


# ---------------------------------------------------------------- hardening: tensors, matrices, state, types, bands

def tensor_entries(arr):
    """numpy tensor -> [[index list, gq]] of the non-zero entries (exact)"""
    import numpy
    out = []
    for idx in numpy.ndindex(*arr.shape):
        v = arr[idx]
        if v != 0:
            out.append([list(idx), to_gq(v)])
    return out


def tensor_map(js):
    return {tuple(i): from_gq(c) for i, c in js if from_gq(c) != (0, 0)}


def interaction_fermion_jop(constant, one, two):
    """the operator an InteractionOperator denotes, built from scratch:
    constant + sum T[p,q] p^ q + sum V[p,q,r,s] p^ q^ r s"""
    import numpy
    jop = []
    if constant != 0:
        jop.append([[], to_gq(constant)])
    for idx in numpy.ndindex(*one.shape):
        if one[idx] != 0:
            jop.append([[[idx[0], 1], [idx[1], 0]], to_gq(one[idx])])
    for idx in numpy.ndindex(*two.shape):
        if two[idx] != 0:
            jop.append([[[idx[0], 1], [idx[1], 1], [idx[2], 0], [idx[3], 0]], to_gq(two[idx])])
    return jop


def small_band(rng):
    """dyadic value of magnitude 1.2e-4 .. 9.5e-7 (a decade above the pruning threshold 1e-8)"""
    return rng.choice([-3, -1, 1, 3]) * 2.0 ** (-rng.randint(13, 20)) / (3 if False else 1)


def retype(rng, op):
    """place numpy scalar coefficients directly into `.terms` (values stay exactly representable)"""
    import numpy
    for t in list(op.terms):
        c = op.terms[t]
        r = rng.random()
        if isinstance(c, complex):
            op.terms[t] = numpy.complex64(c) if r < 0.5 else numpy.complex128(c)
        elif isinstance(c, float):
            op.terms[t] = numpy.float32(c) if r < 0.5 else numpy.float64(c)
        elif isinstance(c, int) and not isinstance(c, bool):
            op.terms[t] = numpy.int64(c) if r < 0.7 else numpy.int32(c)
    return op


def stream_hc_ext(ctx):
    import numpy
    import scipy.sparse
    of = ctx.of
    st = Stream('hc-tensors-matrices', 'hermitian_conjugated of InteractionOperators (complex / purely imaginary constants, complex '
                'non-Hermitian one- and two-body tensors, dtypes int64 / float32 / float64 / complex64 / complex128, C and '
                'Fortran order), of scipy sparse matrices (csc / csr / coo) and dense arrays; unsupported types raise '
                'TypeError; symbolic operators with numpy-scalar coefficients, coefficients of magnitude 1e-4 .. 1e-6 next to '
                'O(1), purely imaginary coefficients and mode indices >= 257; implementation = Model exactly; oracle: '
                'conjugate-transposed matrix elements of the operator built from the tensors by the checker, '
                'entrywise conj-transpose for matrices; arguments not modified, results do not alias arguments, a '
                'second call after an in-place edit of the first result equals the first; distinct = distinct inputs')
    B = Batch(ctx, st)
    rng = rng_for(ctx.seed, 'c07-hc-ext')
    n_cases = budget(ctx.tier, 40, 500)
    if ctx.drift:
        n_cases = max(n_cases, 150)

    def cval(kind):
        if kind == 'imag':
            return complex(0, rng.choice([-3, -1, 1, 2, 4]) / 2 ** rng.randint(0, 2))
        if kind == 'real':
            return float(rng.choice([-3, -1, 1, 2, 4]) / 2 ** rng.randint(0, 2))
        return complex(rng.randint(-4, 4) / 2 ** rng.randint(0, 2), rng.choice([-3, -1, 1, 2]) / 2 ** rng.randint(0, 2))

    for k in range(n_cases):
        n = rng.randint(1, 3)
        kind = rng.choice(['complex', 'complex', 'imag', 'real'])
        dt = {'real': rng.choice(['float64', 'float32', 'int64']),
              'imag': rng.choice(['complex128', 'complex64']),
              'complex': rng.choice(['complex128', 'complex64'])}[kind]
        one = numpy.zeros((n, n), dtype=complex)
        two = numpy.zeros((n, n, n, n), dtype=complex)
        for i in range(n):
            for j in range(n):
                if rng.random() < 0.6:
                    one[i, j] = cval(kind)
        for _ in range(rng.randint(0, 4)):
            two[tuple(rng.randrange(n) for _ in range(4))] = cval(kind)
        if dt == 'int64':
            one, two = numpy.round(one.real * 4), numpy.round(two.real * 4)
        if kind in ('real',):
            one, two = one.real, two.real
        one, two = one.astype(dt), two.astype(dt)
        if rng.random() < 0.3:
            one, two = numpy.asfortranarray(one), numpy.asfortranarray(two)
        const = rng.choice([cval('complex'), cval('imag'), cval('complex'), 0.5, 2])
        case = {'fn': 'hermitian_conjugated', 'cls': 'InteractionOperator', 'constant': [complex(const).real, complex(const).imag],
                'dtype': dt, 'one': tensor_entries(one), 'two': tensor_entries(two)}
        st.case(case)
        st.count('interaction:%s:%s' % (kind, dt))
        kindc, op = safe(of.InteractionOperator, const, one, two)
        if kindc == 'err':
            st.count('interaction:constructor-rejected')
            continue
        snap = (op.constant, op.one_body_tensor.copy(), op.two_body_tensor.copy())
        kindc, H = safe(of.hermitian_conjugated, op)
        if kindc == 'err':
            st.violate('hermitian_conjugated(InteractionOperator) raised', case, H)
            continue
        if not isinstance(H, of.InteractionOperator):
            st.violate('result is not an InteractionOperator', case, type(H).__name__)
            continue
        if not (op.constant == snap[0] and numpy.array_equal(op.one_body_tensor, snap[1])
                and numpy.array_equal(op.two_body_tensor, snap[2])):
            st.violate('hermitian_conjugated modified its argument', case, None)
        h1, h2, hc_ = H.one_body_tensor.copy(), H.two_body_tensor.copy(), H.constant
        # Spec, tensor level: conj constant; conj(T[q,p]); conj(V[s,r,q,p])
        ok = (to_gq(hc_) == to_gq(complex(const).conjugate())
              and numpy.array_equal(h1, numpy.conjugate(snap[1].T))
              and numpy.array_equal(h2, numpy.conjugate(numpy.transpose(snap[2], (3, 2, 1, 0)))))
        if not ok:
            st.violate('hermitian_conjugated(InteractionOperator) is not (conj constant, conj-transposed tensors)', case,
                       {'constant': str(hc_), 'one': tensor_entries(h1), 'two': tensor_entries(h2)})
        # Model
        def cbm(m, hc_=hc_, h1=h1, h2=h2, case=case):
            if (from_gq(m['constant']) != from_gq(to_gq(hc_)) or tensor_map(m['one']) != tensor_map(tensor_entries(h1))
                    or tensor_map(m['two']) != tensor_map(tensor_entries(h2))):
                st.disagree('hermitian_conjugated(InteractionOperator)', case,
                            {'constant': str(hc_), 'one': tensor_entries(h1), 'two': tensor_entries(h2)}, m)
        B.ask({'op': 'c07.hc_interaction', 'constant': to_gq(const), 'one': case['one'], 'two': case['two']}, cbm)
        # Spec, operator level: matrix of hc(op) is the conjugate transpose of the matrix of op
        ja = interaction_fermion_jop(const, snap[1], snap[2])
        jh = interaction_fermion_jop(hc_, h1, h2)

        def cba(a, case=case):
            st.count('oracle:adjoint-matrix')
            if not a['eq']:
                st.violate('matrix of hermitian_conjugated(InteractionOperator) is not the conjugate transpose', case, a)
        B.check({'op': 'c07.adjoint', 'alg': 'fermion', 'n': n, 'a': ja, 'b': jh}, cba)
        # aliasing and state
        alias = numpy.shares_memory(H.one_body_tensor, op.one_body_tensor) or \
            numpy.shares_memory(H.two_body_tensor, op.two_body_tensor)
        if alias:
            st.violate('hc-aliases-argument: tensors of hermitian_conjugated(InteractionOperator) share memory with the '
                       'argument', case, {'dtype': dt, 'real_dtype': not numpy.iscomplexobj(op.one_body_tensor)})
        else:
            H.one_body_tensor += 1
            H.two_body_tensor *= 3
            H.constant = 99
            if not (numpy.array_equal(op.one_body_tensor, snap[1]) and numpy.array_equal(op.two_body_tensor, snap[2])):
                st.violate('editing the result of hermitian_conjugated changed the argument', case, None)
            kindc, H2 = safe(of.hermitian_conjugated, op)
            if kindc == 'err' or not (to_gq(H2.constant) == to_gq(hc_) and numpy.array_equal(H2.one_body_tensor, h1)
                                      and numpy.array_equal(H2.two_body_tensor, h2)):
                st.violate('second call after an in-place edit of the first result differs', case, None)
        # involution
        kindc, HH = safe(lambda: of.hermitian_conjugated(of.hermitian_conjugated(op)))
        if kindc == 'err' or not (to_gq(HH.constant) == to_gq(const) and numpy.array_equal(HH.one_body_tensor, snap[1])
                                  and numpy.array_equal(HH.two_body_tensor, snap[2])):
            st.violate('hermitian_conjugated is not an involution on InteractionOperator', case, None)

    # unsupported types: TypeError
    one2 = numpy.eye(2)
    for name, obj in (('PolynomialTensor', lambda: of.PolynomialTensor({(): 1j, (1, 0): one2})),
                      ('DiagonalCoulombHamiltonian', lambda: of.DiagonalCoulombHamiltonian(one2, one2, 1.0)),
                      ('MajoranaOperator', lambda: of.MajoranaOperator((0, 1), 1j)),
                      ('str', lambda: 'x')):
        kindc, r = safe(lambda: of.hermitian_conjugated(obj()))
        st.count('unsupported:' + name)
        if not (kindc == 'err' and r.startswith('TypeError')):
            st.violate('hermitian_conjugated(%s) did not raise TypeError' % name, {'type': name}, str(r)[:120])

    # matrices
    for k in range(budget(ctx.tier, 30, 300)):
        r_, c_ = rng.randint(1, 4), rng.randint(1, 4)
        kind = rng.choice(['complex', 'imag', 'real'])
        dt = {'real': rng.choice(['float64', 'float32', 'int64']), 'imag': 'complex128',
              'complex': rng.choice(['complex128', 'complex64'])}[kind]
        A = numpy.zeros((r_, c_), dtype=complex)
        for i in range(r_):
            for j in range(c_):
                if rng.random() < 0.7:
                    A[i, j] = cval(kind)
        if dt == 'int64':
            A = numpy.round(A.real * 4)
        if kind == 'real':
            A = A.real
        A = A.astype(dt)
        fmt = rng.choice(['dense', 'dense-F', 'csc', 'csr', 'coo'])
        case = {'fn': 'hermitian_conjugated', 'cls': 'matrix:' + fmt, 'dtype': dt, 'a': [[str(x) for x in row] for row in A.tolist()]}
        st.case(case)
        st.count('matrix:%s:%s' % (fmt, dt))
        if fmt == 'dense':
            M = A.copy()
        elif fmt == 'dense-F':
            M = numpy.asfortranarray(A)
        else:
            M = getattr(scipy.sparse, fmt + '_matrix')(A)
        kindc, H = safe(of.hermitian_conjugated, M)
        if kindc == 'err':
            st.violate('hermitian_conjugated(matrix) raised', case, H)
            continue
        Hd = H.toarray() if scipy.sparse.issparse(H) else numpy.asarray(H)
        Md = M.toarray() if scipy.sparse.issparse(M) else numpy.asarray(M)
        if not numpy.array_equal(Md, A):
            st.violate('hermitian_conjugated modified its matrix argument', case, None)
        if Hd.shape != (c_, r_) or not numpy.array_equal(Hd, numpy.conjugate(A.T)):
            st.violate('hermitian_conjugated(matrix) is not the conjugate transpose', case, Hd.tolist())
        if scipy.sparse.issparse(M) != scipy.sparse.issparse(H):
            st.violate('hermitian_conjugated changed sparse <-> dense', case, type(H).__name__)
        # no shared memory with the argument (every dtype, C and Fortran order, sparse data arrays too)
        hm = H.data if scipy.sparse.issparse(H) else H
        mm = M.data if scipy.sparse.issparse(M) else M
        if isinstance(hm, numpy.ndarray) and isinstance(mm, numpy.ndarray) and hm.size and numpy.shares_memory(hm, mm):
            st.violate('hc-aliases-argument: hermitian_conjugated(matrix) shares memory with its argument', case,
                       {'dtype': dt, 'format': fmt})
        else:
            try:
                if scipy.sparse.issparse(H):
                    H.data *= 3
                else:
                    H += 1
            except Exception:
                pass
            Md2 = M.toarray() if scipy.sparse.issparse(M) else numpy.asarray(M)
            kindc, H2 = safe(of.hermitian_conjugated, M)
            H2d = H2.toarray() if kindc == 'ok' and scipy.sparse.issparse(H2) else (numpy.asarray(H2) if kindc == 'ok' else None)
            if not numpy.array_equal(Md2, A) or kindc == 'err' or not numpy.array_equal(H2d, numpy.conjugate(A.T)):
                st.violate('editing the result of hermitian_conjugated(matrix) changed the argument / the second call', case, None)
    B.flush()

    # symbolic operators: numpy scalar coefficients, small bands, purely imaginary, large mode indices
    for cls in ('fermion', 'qubit', 'boson', 'quad'):
        C = cls_of(of, cls)
        for k in range(budget(ctx.tier, 25, 300)):
            variant = rng.choice(['numpy-scalars', 'small-band', 'imaginary', 'big-index'])
            small = cls in ('boson', 'quad')
            n_modes = 2 if small else 3
            op = C()
            for _ in range(rng.randint(1, 4)):
                ln = rng.randint(0, 3)
                t = tuple((rng.randrange(n_modes), rng.choice(ACTIONS[cls])) for _ in range(ln))
                if variant == 'small-band' and rng.random() < 0.5:
                    c = small_band(rng) * (1j if rng.random() < 0.3 else 1)
                elif variant == 'imaginary':
                    c = complex(0, rng.choice([-3, -1, 1, 2]) / 2 ** rng.randint(0, 2))
                else:
                    c = dyadic(rng, max_num=4, max_pow=2)
                op += C(t, c)
            mapping = None
            if variant == 'big-index':
                mapping = {0: 257 + rng.randint(0, 3), 1: 300 + rng.randint(0, 50), 2: 1000 + rng.randint(0, 24)}
                big_op = C()
                for t, c in op.terms.items():
                    big_op += C(tuple((int(str(mapping[i])), a) for i, a in t), c)
                op_small, op = op, big_op
            if variant == 'numpy-scalars':
                retype(rng, op)
            ja = enc_op(cls, op.terms)
            case = {'fn': 'hermitian_conjugated', 'cls': cls, 'variant': variant, 'a': ja,
                    'coefficient_types': sorted({type(c).__name__ for c in op.terms.values()})}
            st.case(case)
            st.count('symbolic:%s:%s' % (cls, variant))
            before = canon_op_json(ja)
            kindc, H = safe(of.hermitian_conjugated, op)
            if kindc == 'err':
                st.violate('hermitian_conjugated raised', case, H)
                continue
            if canon_op_json(enc_op(cls, op.terms)) != before:
                st.violate('hermitian_conjugated modified its argument', case, None)
            if H is op or H.terms is op.terms:
                st.violate('hermitian_conjugated returned its argument', case, None)
            jh = enc_op(cls, H.terms)
            B.ask({'op': 'c07.hc', 'cls': cls, 'a': ja}, compare_op(st, 'hermitian_conjugated terms', case, jh, bits=80))
            # state: edit the result in place, call again
            H *= 3
            H.terms.clear()
            kindc, H2 = safe(of.hermitian_conjugated, op)
            if kindc == 'err' or canon_op_json(enc_op(cls, H2.terms)) != canon_op_json(jh) \
                    or canon_op_json(enc_op(cls, op.terms)) != before:
                st.violate('second call after an in-place edit of the first result differs', case, None)
            # oracle on small registers (big indices: order-preserving relabelling back to 0, 1, 2)
            if mapping is not None:
                inv = {v: k_ for k_, v in mapping.items()}
                ja_o = [[[[inv[i], a] for i, a in t], c] for t, c in ja]
                jh_o = [[[[inv[i], a] for i, a in t], c] for t, c in jh]
            else:
                ja_o, jh_o = ja, jh
            rev = []
            for t, c in ja_o:
                rt = [[i, (1 - a) if cls in ('fermion', 'boson') else a] for i, a in reversed(t)]
                rev.append([rt, [c[0], c[1], -c[2], c[3]]])
            B.check({'op': 'spec.eq', 'alg': ALG[cls], 'n': n_modes, 'd': 3, 'lhs': leaf(jh_o), 'rhs': leaf(rev)},
                    expect_eq(st, 'hermitian_conjugated(A) is not the adjoint of A', case))
    B.flush()
    return st


def stream_state(ctx):
    """(S) state / aliasing and (T) / (B) variants for the commutator family and the predicates"""
    of = ctx.of
    F, Q = of.FermionOperator, of.QubitOperator
    from openfermion.circuits.trotter import trotter_error as te
    from openfermion.transforms.opconversions.commutator_diagonal_coulomb_operator import (
        commutator_ordered_diagonal_coulomb_with_two_body_operator as dcc)
    st = Stream('state-types-bands', 'commutator, anticommutator, double_commutator (generic and hopping), normal_ordered, the '
                'diagonal-Coulomb commutator, bch_expand and error_operator: arguments are not modified, the result is a '
                'new object, and a second call after an in-place edit of the first result gives the first result again; '
                'commutators with numpy-scalar coefficients, coefficients of magnitude 1e-4 .. 1e-6 next to O(1) (one '
                'operand), purely imaginary coefficients, both operand orders, mode indices >= 257 (compared with the '
                'Model and, relabelled order-preservingly, with the Spec); dual-basis and Pauli predicates on indices '
                '>= 257 built as fresh int objects: same answer as on the relabelled small indices; distinct = distinct inputs')
    B = Batch(ctx, st)
    rng = rng_for(ctx.seed, 'c07-state')
    n_cases = budget(ctx.tier, 25, 300)
    if ctx.drift:
        n_cases = max(n_cases, 100)

    def snap(ops):
        return [(type(o), [(t, to_gq(c), type(c).__name__) for t, c in o.terms.items()]) for o in ops]

    def pure_call(name, cls, f, ops, extra=()):
        case = {'fn': name, 'args': [enc_op(cls, o.terms) for o in ops]}
        st.case(case)
        st.count('state:' + name)
        before = snap(ops)
        kind, R = safe(f, *ops, *extra)
        if kind == 'err':
            st.violate(name + ' raised', case, R)
            return
        if snap(ops) != before:
            st.violate(name + ' modified an argument', case, None)
        if any(R is o for o in ops) or any(getattr(R, 'terms', None) is o.terms for o in ops):
            st.violate(name + ' returned (the dictionary of) an argument', case, None)
        first = canon_op_json(enc_op(cls, R.terms))
        R *= 2
        R.terms[()] = 77
        kind, R2 = safe(f, *ops, *extra)
        if kind == 'err' or canon_op_json(enc_op(cls, R2.terms)) != first or snap(ops) != before:
            st.violate(name + ': second call after an in-place edit of the first result differs', case, None)

    def dual_op(n):
        k = rng.random()
        i, j = rng.sample(range(n), 2)
        c = dyadic(rng, max_num=3, max_pow=1)
        if k < 0.3:
            return F(((i, 1), (i, 0)), c)
        if k < 0.6:
            return F(((i, 1), (j, 0)), c) + F(((j, 1), (i, 0)), c)
        return F(((i, 1), (j, 1), (i, 0), (j, 0)), c)

    for k in range(n_cases):
        a, b, c = (rand_op(rng, of, 'fermion', rng.randint(1, 3), 3, 3) for _ in range(3))
        pure_call('commutator', 'fermion', of.commutator, [a, b])
        pure_call('anticommutator', 'fermion', of.anticommutator, [a, b])
        pure_call('normal_ordered', 'fermion', of.normal_ordered, [a])
        pure_call('double_commutator', 'fermion', of.double_commutator, [a, b, c])
        qa, qb = (rand_op(rng, of, 'qubit', rng.randint(1, 3), 3, 3) for _ in range(2))
        pure_call('commutator', 'qubit', of.commutator, [qa, qb])
        pure_call('bch_expand(order=2)', 'qubit', lambda x, y: of.bch_expand(x, y, order=2), [qa, qb])
        i, j, l = rng.sample(range(4), 3)
        t2, t3 = dyadic(rng, max_num=3, max_pow=1), dyadic(rng, max_num=3, max_pow=1)
        h2 = F(((i, 1), (j, 0)), t2) + F(((j, 1), (i, 0)), t2)
        h3 = F(((j, 1), (l, 0)), t3) + F(((l, 1), (j, 0)), t3)
        pure_call('double_commutator(hopping)', 'fermion',
                  lambda x, y, z: of.double_commutator(x, y, z, {i, j}, {j, l}, True, True), [dual_op(4), h2, h3])
        da = F(((i, 1), (j, 0)), t2) + F(((2, 1), (2, 0)), t3) + F(((3, 1), (1, 1), (3, 0), (1, 0)), 0.5)
        db = F(((l, 1), (i, 0)), t3) + F(((3, 1), (2, 1), (1, 0), (0, 0)), 1.5)
        pure_call('commutator_ordered_diagonal_coulomb_with_two_body_operator', 'fermion', dcc, [da, db])
        terms = [Q(((0, 'X'), (1, 'Y')), 0.5), Q(((1, 'Z'),), 1.0), Q(((0, 'Y'), (2, 'X')), -0.25)]
        rng.shuffle(terms)
        before = snap(terms)
        kind, E = safe(te.error_operator, terms)
        if kind == 'ok':
            first = {t: complex(cv) for t, cv in E.terms.items()}
            E *= 5
            kind, E2 = safe(te.error_operator, terms)
            if kind == 'err' or {t: complex(cv) for t, cv in E2.terms.items()} != first or snap(terms) != before:
                st.violate('error_operator: arguments modified or second call differs', {'fn': 'error_operator'}, None)
        else:
            st.violate('error_operator raised', {'fn': 'error_operator'}, E)

    # commutators: numpy scalars / small band / imaginary / big indices
    for cls in ('fermion', 'qubit'):
        C = cls_of(of, cls)
        for k in range(n_cases):
            variant = rng.choice(['numpy-scalars', 'small-band', 'imaginary', 'big-index'])
            ops = []
            for which in range(2):
                op = C()
                for _ in range(rng.randint(1, 3)):
                    t = tuple((rng.randrange(3), rng.choice(ACTIONS[cls])) for _ in range(rng.randint(0, 3)))
                    if variant == 'small-band' and which == 0 and rng.random() < 0.6:
                        cc = small_band(rng)
                    elif variant == 'imaginary':
                        cc = complex(0, rng.choice([-3, -1, 1, 2]) / 2 ** rng.randint(0, 2))
                    else:
                        cc = dyadic(rng, max_num=4, max_pow=2)
                    op += C(t, cc)
                ops.append(op)
            if rng.random() < 0.5:
                ops.reverse()
            mapping = None
            if variant == 'big-index':
                mapping = {0: 257 + rng.randint(0, 3), 1: 300 + rng.randint(0, 50), 2: 1000 + rng.randint(0, 24)}
                bigs = []
                for op in ops:
                    bo = C()
                    for t, cc in op.terms.items():
                        bo += C(tuple((int(str(mapping[i])), a) for i, a in t), cc)
                    bigs.append(bo)
                ops = bigs
            if variant == 'numpy-scalars':
                for op in ops:
                    retype(rng, op)
            anti = rng.random() < 0.3
            ja, jb = enc_op(cls, ops[0].terms), enc_op(cls, ops[1].terms)
            case = {'fn': 'anticommutator' if anti else 'commutator', 'cls': cls, 'variant': variant, 'a': ja, 'b': jb}
            st.case(case)
            st.count('%s:%s:%s' % (case['fn'], cls, variant))
            kind, R = safe(of.anticommutator if anti else of.commutator, ops[0], ops[1])
            if kind == 'err':
                st.violate(case['fn'] + ' raised', case, R)
                continue
            jr = enc_op(cls, R.terms)
            B.ask({'op': 'c07.comm', 'cls': cls, 'a': ja, 'b': jb, 'anti': anti},
                  compare_op(st, case['fn'] + ' terms', case, jr, bits=80))
            if mapping is not None:
                inv = {v: k_ for k_, v in mapping.items()}

                def down(j):
                    return [[[[inv[i], a] for i, a in t], c] for t, c in j]
                ja, jb, jr = down(ja), down(jb), down(jr)
            la, lb = leaf(ja), leaf(jb)
            rhs = ['add', ['mul', la, lb], ['mul', lb, la]] if anti else comm_expr(la, lb)
            B.check({'op': 'spec.eq', 'alg': ALG[cls], 'n': 3, 'lhs': leaf(jr), 'rhs': rhs},
                    expect_eq(st, case['fn'] + ' does not denote AB -/+ BA', case))

    # predicates on large indices (fresh int objects): relabelling invariance + Model
    def fresh(v):
        return int(str(v))
    for k in range(budget(ctx.tier, 150, 1500)):
        modes_small = list(range(4))
        base = rng.choice([257, 300, 512, 1000, 70000])
        mp = {m: base + 3 * m + rng.randint(0, 2) for m in modes_small}

        def rt():
            r = rng.random()
            p, q = rng.sample(modes_small, 2)
            return ((p, 1), (p, 0)) if r < 0.3 else ((p, 1), (q, 0)) if r < 0.65 else ((p, 1), (q, 1), (p, 0), (q, 0))
        ts = [rt() for _ in range(3)]
        tb = [tuple((fresh(mp[i]), a) for i, a in t) for t in ts]
        case = {'fn': 'dual-basis predicates (large indices)', 'terms': [enc_term('fermion', t) for t in tb]}
        st.case(case)
        st.count('predicates:large-index')
        r_small = safe(lambda: (bool(of.trivially_commutes_dual_basis(F(ts[1]), F(ts[2]))),
                                bool(of.trivially_double_commutes_dual_basis(F(ts[0]), F(ts[1]), F(ts[2])))))
        r_big = safe(lambda: (bool(of.trivially_commutes_dual_basis(F(tb[1]), F(tb[2]))),
                              bool(of.trivially_double_commutes_dual_basis(F(tb[0]), F(tb[1]), F(tb[2])))))
        if r_small[0] == 'err' or r_big[0] == 'err':
            st.violate('dual-basis predicate raised', case, [r_small, r_big])
            continue
        if r_small[1] != r_big[1]:
            st.violate('dual-basis predicates depend on the mode labels (order-preserving relabelling changes the answer)',
                       case, {'small': r_small[1], 'large': r_big[1]})

        def cb1(m, r=r_big[1][0], case=case):
            if m != r:
                st.disagree('trivially_commutes_dual_basis (large indices)', case, r, m)

        def cb2(m, r=r_big[1][1], case=case):
            if m != r:
                st.disagree('trivially_double_commutes_dual_basis (large indices)', case, r, m)
        jt = case['terms']
        B.ask({'op': 'c07.dual_tc', 'a': jt[1], 'b': jt[2]}, cb1)
        B.ask({'op': 'c07.dual_tdc', 'a': jt[0], 'b': jt[1], 'c': jt[2]}, cb2)
        # Pauli predicates
        qs = sorted(rng.sample(range(5), rng.randint(1, 4)))
        qs2 = sorted(rng.sample(range(5), rng.randint(1, 4)))
        pa = tuple((q, rng.choice('XYZ')) for q in qs)
        pb = tuple((q, rng.choice('XYZ')) for q in qs2)
        qm = {q: base + 2 * q + rng.randint(0, 1) for q in range(5)}
        pab = tuple((fresh(qm[q]), a) for q, a in pa)
        pbb = tuple((fresh(qm[q]), a) for q, a in pb)
        rs = safe(lambda: (bool(te.trivially_commutes(Q(pa), Q(pb))), bool(te.trivially_double_commutes(Q(pb), Q(pa), Q(pb)))))
        rb = safe(lambda: (bool(te.trivially_commutes(Q(pab), Q(pbb))), bool(te.trivially_double_commutes(Q(pbb), Q(pab), Q(pbb)))))
        if rs[0] == 'err' or rb[0] == 'err' or rs[1] != rb[1]:
            st.violate('Pauli predicates depend on the qubit labels', {'fn': 'trivially_commutes (large indices)',
                       'a': enc_term('qubit', pab), 'b': enc_term('qubit', pbb)}, [rs, rb])
    B.flush()
    return st


# ---------------------------------------------------------------- entry points

def run(ctx):
    return [stream_hc(ctx), stream_comm(ctx), stream_pauli(ctx), stream_dual(ctx), stream_double(ctx),
            stream_dc(ctx), stream_bch(ctx), stream_hc_ext(ctx), stream_state(ctx)]


def _terms_of(v):
    i = v.get('input', {})
    try:
        return tuple(tuple((int(x), int(y)) for x, y in i[k]) for k in ('a', 'b', 'c'))
    except Exception:
        return None


def classify(v):
    """F07: trivially_double_commutes_dual_basis answers True although [a,[b,c]] != 0, for b a one-mode number
    operator p^ p and c a hopping term acting on p (the rule `sum(1 for i in modes_touched_b if i in
    modes_touched_c) > 1` counts the repeated mode of b twice)."""
    if not v.get('what', '').startswith('tdc-dual-wrong-true'):
        return None
    t = _terms_of(v)
    if t is None:
        return None
    a, b, c = t
    return 'F07' if f07_class(a, b, c) else None


def probe_known(ctx, k):
    of = ctx.of
    if k.get('id') != 'F07':
        return False
    F = of.FermionOperator
    a, b, c = F('0^ 0'), F('0^ 0'), F('0^ 1')
    try:
        r = of.trivially_double_commutes_dual_basis(a, b, c)
        dc = of.normal_ordered(of.commutator(a, of.normal_ordered(of.commutator(b, c))))
    except Exception:
        return False
    return bool(r) and bool(dc.terms)


def replay(ctx, payload):
    """Re-evaluate a recorded Spec violation by regenerating the streams of the recorded (seed, tier):
    False = the recorded input still fails, True = it was re-evaluated and passes now,
    None = the input could not be regenerated (different sampling regime)."""
    import hashlib
    import json
    from common import show
    v = payload.get('violation')
    if not isinstance(v, dict) or 'input' not in v:
        return None
    ctx.seed = payload.get('seed', ctx.seed)
    ctx.tier = payload.get('tier', ctx.tier)
    want = json.dumps(v['input'], default=str)
    key = hashlib.sha1(show(v['input'], 10 ** 7).encode()).hexdigest()[:16]
    seen = False
    for drift in (ctx.drift, not ctx.drift):
        ctx.drift = drift
        for s in run(ctx):
            for w in s.violations:
                if json.dumps(json.loads(json.dumps(w['input'], default=str))) == want:
                    return False
            seen = seen or key in s.distinct
        if seen:
            return True
    return None
