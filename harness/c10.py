"""C10 — symmetry sectors and basis-state helpers.

Streams
  indices       jw_number_indices for all (n, k), jw_sz_indices for all (n_qubits, sz, n_electrons)
                with the default and a custom (up-then-down) index map, jw_configuration_state /
                jw_hartree_fock_state: compared with the Lean Model; Spec oracle: the list enumerates
                exactly once the basis states of that eigenvalue (Lean, popcount / S_z of the index) and
                independently the diagonal of get_sparse_operator(number_operator / sz_operator).
  restrict      jw_number/sz_restrict_operator/state on random operators: every entry of the restricted
                matrix = <mask_a| F |mask_b> of the Spec fermion action (big-endian index = bit reversal).
  expectation   expectation_computational_basis_state on every basis state given as occupation list,
                numpy vector and scipy.sparse vector: = <s| F |s> of the Spec.
  number-preserving   get_number_preserving_sparse_operator / _iterate_basis_ for reference determinants,
                excitation levels and spin flags: basis = documented determinant set (each once, reference
                first), matrix = compression of the Spec action to that basis; never raises.
  special-operators   number_operator, s_plus, s_minus, sx, sy, sz, s_squared: Model + Spec (docstring formula).
  ground-state  jw_get_ground_state_at_particle_number (float contract of eigsh / eigh, tolerance 1e-9).
"""
import itertools

import numpy
import scipy.sparse

from common import (Stream, budget, enc_op, canon_op_json, to_gq, from_gq, dyadic, rng_for, show)

OPEN_STATEMENTS = [
    'sz_indices_spec is proved in terms of the numbers of up / down particles read from the index (sz_indices_spec_fixed, '
    'sz_indices_spec_free, arbitrary injective disjoint index maps) and every listed index is an eigenstate of the Model sz '
    'operator with eigenvalue sz (sz_indices_eigen, default maps, fixed particle number); the converse through the operator '
    '(every eigenstate is listed) and numUp + numDown = popcount are not stated separately; both oracles cover them',
    'restrict_is_projection is proved for the particle number (number_restrict_is_compression: for a matrix in the '
    'get_sparse_operator convention the restricted matrix is |I| x |I| with entry (p, q) = Spec matrix element between the p-th '
    'and q-th listed weight-k basis states; restrict_state_entries); the S_z version follows in the same way from '
    'sz_indices_spec_* / sz_indices_eigen and is not stated separately; that get_sparse_operator produces that matrix belongs to '
    'another property (restrict stream: compared with the Spec matrix on every input)',
    'iterate_basis_spec is proved for both flags (iterate_basis_spec_nospin, iterate_basis_spec_spin; the spin version is stated '
    'through vacated / filled alpha and beta orbitals, not through countTrue of the even / odd sublists)',
    'number_preserving_sparse_operator_sound is proved as one statement for operators whose terms are normal-ordered with '
    'distinct creation and distinct annihilation modes (NormalTerm): basis = _iterate_basis_, entry (r, c) = Spec.melF between '
    'the basis states of determinants r and c (pieces: iterate_basis_spec_*, encode_det_injective, lookup_sound, '
    'build_term_op_sound, build_term_op_entries(_spec), prefilter_exact); that normal_ordered yields such terms belongs to '
    'another property and is tied here by the number-preserving stream (every entry against Spec.melF of the original operator); '
    'the csc construction / summing of duplicate entries by scipy is trusted (mirrored by the dictionary accumulation)',
    'expectation_cbs_list_sound is proved for operators whose terms are among the constant, i^ i and j^ i^ j i (i < j) '
    '(expectation_cbs_sound, summed over the dictionary; with expectation_vector_is_list for the vector input); for other '
    'operators the function ignores the remaining terms (off-diagonal terms have zero diagonal elements; diagonal terms with '
    'three or more bodies, or not normal-ordered, are outside the documented contract) - covered by the expectation stream only',
    'spin operators: proved for every number of sites (tolerance-free Model): sx = (s_plus + s_minus)/2 and '
    'sy = (s_plus - s_minus)/(2i) as operators (sx_sy_ladder), s_squared = S-.S+ + Sz.(Sz + 1) as the composition of the '
    'Model operators (s_squared_composition), sz and the number operator diagonal (sz_operator_diag, number_operator_diag); '
    's_plus / s_minus = the docstring sums (s_plus_s_minus_formula), [Sz, S+-] = +-S+- (sz_ladder_commutators); not proved: '
    '[S+, S-] = 2 Sz and S^2 commuting with the ladder operators; the special-operators stream checks the Spec formula of every operator on all basis states for 0..3 sites (0..4 in the thorough tier)',
    'jw_get_ground_state_at_particle_number: float contract over eigsh / eigh only; observation outside the property: it raises '
    'ArpackError when the operator vanishes on a sector of dimension >= 3 (all-zero matrix given to eigsh); those inputs are skipped',
]
TRUSTED = [
    'C10: numpy / scipy.sparse indexing (numpy.ix_, fancy indexing, csc construction, argsort, searchsorted) is '
    'mirrored by list functions in the Model and tied by the correspondence streams only; normal_ordered (input of the '
    'number-preserving Model) and get_sparse_operator (input of the restriction oracle) are taken from the implementation '
    'and judged by the Spec on the original operator',
]
ASSUMPTIONS = [
    'expectation_computational_basis_state: the list argument is the occupation list (one truth value per orbital), '
    'operators are normal ordered with at most two-body terms (the function ignores higher diagonal terms)',
    'get_number_preserving_sparse_operator: the operator conserves particle number (and S_z when spin_preserving); '
    'reference_determinant has num_qubits entries; when it is given, num_electrons is its particle number',
    'jw_get_ground_state_at_particle_number is a float contract over scipy eigsh / numpy eigh: compared with '
    'absolute tolerance 1e-9 (counted as float comparisons)',
]

ERRNAMES = ('ValueError', 'TypeError', 'IndexError')


def errname(e):
    n = type(e).__name__
    return n if n in ERRNAMES else 'other:' + n


def popcount(x):
    return bin(x).count('1')


def gq_matrix(M):
    M = numpy.asarray(M.toarray() if scipy.sparse.issparse(M) else M)
    return [[to_gq(x) for x in row] for row in M]


def mask_of_index(n, idx):
    return sum(1 << j for j in range(n) if (idx >> (n - 1 - j)) & 1)


def fop(of, terms):
    H = of.FermionOperator()
    for t, c in terms.items():
        H += of.FermionOperator(t, c)
    return H


# ------------------------------------------------------------------ operator generators

def rand_any_op(rng, n, nterms=None):
    terms = {}
    for _ in range(nterms or rng.choice([1, 2, 3, 4])):
        L = rng.choice([0, 1, 2, 2, 3, 4])
        t = tuple((rng.randrange(n), rng.randint(0, 1)) for _ in range(L))
        terms[t] = terms.get(t, 0) + (band_coef(rng) if rng.random() < 0.2 else dyadic(rng, max_num=4, max_pow=2))
    return {t: c for t, c in terms.items() if c != 0}


def rand_conserving_term(rng, n, spin):
    k = rng.choice([1, 1, 1, 2, 2, 3])
    if rng.random() < 0.25:
        # diagonal (number-like) term
        idx = rng.sample(range(n), min(k, n))
        return tuple((i, 1) for i in idx) + tuple((i, 0) for i in reversed(idx))
    cre = [rng.randrange(n) for _ in range(k)]
    if spin:
        # one annihilator of the same spin parity for every creator
        ann = [rng.choice([j for j in range(n) if j % 2 == i % 2]) for i in cre]
    else:
        ann = [rng.randrange(n) for _ in range(k)]
    t = [(i, 1) for i in cre] + [(j, 0) for j in ann]
    if rng.random() < 0.3:
        rng.shuffle(t)
    return tuple(t)


def rand_conserving_op(rng, n, spin=False, nterms=None):
    terms = {}
    for _ in range(nterms or rng.choice([1, 2, 3, 4])):
        t = rand_conserving_term(rng, n, spin) if rng.random() < 0.92 else ()
        terms[t] = terms.get(t, 0) + (band_coef(rng) if rng.random() < 0.2 else dyadic(rng, max_num=4, max_pow=2))
    return {t: c for t, c in terms.items() if c != 0}


# ------------------------------------------------------------------ indices

def check_indices(ctx, stream, big):
    of = ctx.of
    from openfermion.linalg import sparse_tools as st
    N = 12 if big else 10
    reqs, cases = [], []
    for n in range(0, N + 1):
        for k in range(0, n + 2):
            cases.append((n, k))
            reqs.append({'op': 'c10.number_indices', 'ne': k, 'n': n})
    model = ctx.driver.run(reqs)
    oracle = []
    diag_cache = {}
    for (n, k), mo in zip(cases, model):
        case = {'fn': 'jw_number_indices', 'n_electrons': k, 'n_qubits': n}
        stream.case(case)
        stream.count('jw_number_indices')
        try:
            a = [int(x) for x in st.jw_number_indices(k, n)]
        except Exception as e:  # noqa: BLE001
            stream.violate('jw_number_indices raised %s' % errname(e), case, {})
            continue
        if sorted(a) != sorted(mo):
            stream.disagree('index list', case, a, mo)
        oracle.append((case, {'op': 'c10.spec_number_set', 'n': n, 'ne': k, 'list': a}))
        # independently built number operator: eigenvalue k exactly on the listed basis states
        if 1 <= n <= 8:
            if n not in diag_cache:
                diag_cache[n] = numpy.real(of.get_sparse_operator(of.number_operator(n), n).diagonal())
            d = diag_cache[n]
            want = sorted(i for i in range(2 ** n) if d[i] == k)
            stream.count('oracle:number-operator-diagonal')
            if sorted(a) != want or len(set(a)) != len(a):
                stream.violate('jw_number_indices is not the eigenvalue-%d sector of the number operator matrix' % k,
                               case, {'list': a, 'sector': want})
    # sz
    sz_cases = []
    for n in range(0, (10 if big else 8) + 1):
        sites = n // 2
        szs = [x / 2 for x in range(-sites - 1, sites + 2)] if n % 2 == 0 else [0.0, 0.5]
        if n in (2, 4):
            szs += [0.25, 1.5 + 0.125]
        for sz in szs:
            for ne in [None] + list(range(0, n + 2)):
                for maps in ('default', 'updown'):
                    if maps == 'updown' and (n % 2 or n == 0 or (ne is not None and ne % 3 == 2 and n > 6)):
                        continue
                    sz_cases.append((n, sz, ne, maps))
    rng = rng_for(ctx.seed, 'c10-sz')
    if not big:
        keep = [c for c in sz_cases if c[0] <= 4]
        rest = [c for c in sz_cases if c[0] > 4]
        sz_cases = keep + rng.sample(rest, min(len(rest), 260))
    reqs = []
    for n, sz, ne, maps in sz_cases:
        sites = n // 2
        up = [2 * i for i in range(sites)] if maps == 'default' else list(range(sites))
        down = [2 * i + 1 for i in range(sites)] if maps == 'default' else [sites + i for i in range(sites)]
        r = to_gq(sz)
        reqs.append({'op': 'c10.sz_indices', 'sz': [r[0], r[1]], 'n': n, 'ne': ne, 'up': up, 'down': down})
    model = ctx.driver.run(reqs)
    sz_diag = {}
    for (n, sz, ne, maps), rq, mo in zip(sz_cases, reqs, model):
        case = {'fn': 'jw_sz_indices', 'sz_value': sz, 'n_qubits': n, 'n_electrons': ne, 'index_maps': maps}
        stream.case(case)
        stream.count('jw_sz_indices:' + maps)
        sites = n // 2
        admissible = n % 2 == 0 and float(2 * sz).is_integer() and \
            (ne is None or ((ne + int(2 * sz)) % 2 == 0 and ne >= abs(int(2 * sz))))
        try:
            if maps == 'default':
                a = st.jw_sz_indices(sz, n, n_electrons=ne)
            else:
                a = st.jw_sz_indices(sz, n, n_electrons=ne, up_index=lambda i: i, down_index=lambda i, s=sites: s + i)
            a = [int(x) for x in a]
        except Exception as e:  # noqa: BLE001
            a = {'error': errname(e)}
        if isinstance(a, dict):
            stream.count('error:' + a['error'])
            if admissible:
                stream.violate('jw_sz_indices raised %s on admissible arguments' % a['error'], case, {})
            if a != mo:
                stream.disagree('error kind', case, a, mo)
            continue
        if isinstance(mo, dict):
            stream.disagree('model raises', case, a, mo)
            continue
        if sorted(a) != sorted(mo):
            stream.disagree('index list', case, a, mo)
        if not admissible:
            stream.count('accepted-inadmissible')
            continue
        oracle.append((case, {'op': 'c10.spec_sz_set', 'n': n, 'sz2': int(2 * sz), 'ne': ne, 'up': rq['up'],
                              'down': rq['down'], 'list': a}))
        if maps == 'default' and 2 <= n <= 8:
            if n not in sz_diag:
                sz_diag[n] = (numpy.real(of.get_sparse_operator(of.sz_operator(sites), n).diagonal()),
                              numpy.real(of.get_sparse_operator(of.number_operator(n), n).diagonal()))
            dz, dn = sz_diag[n]
            want = sorted(i for i in range(2 ** n) if dz[i] == sz and (ne is None or dn[i] == ne))
            stream.count('oracle:sz-operator-diagonal')
            if sorted(a) != want or len(set(a)) != len(a):
                stream.violate('jw_sz_indices is not the requested sector of the S_z (and number) operator matrices',
                               case, {'list': a, 'sector': want})
    answers = ctx.driver.run([r for _, r in oracle])
    for (case, r), ans in zip(oracle, answers):
        stream.count('oracle:checked')
        if ans is not True:
            stream.violate('%s does not enumerate exactly once the basis states of the sector' % case['fn'], case,
                           {'list': r['list']})
    # configuration / Hartree-Fock states: same convention as get_sparse_operator
    rng = rng_for(ctx.seed, 'c10-config')
    ccases = []
    for n in range(1, 7):
        for ne in range(0, n + 1):
            ccases.append((n, list(range(ne)), True))
        for _ in range(6 if not big else 20):
            occ = rng.sample(range(n), rng.randint(0, n))
            ccases.append((n, occ, False))
    reqs = [{'op': 'c10.hf_index', 'ne': len(occ), 'n': n} if hf else {'op': 'c10.config_index', 'occ': occ, 'n': n}
            for n, occ, hf in ccases]
    model = ctx.driver.run(reqs)
    oracle = []
    for (n, occ, hf), mo in zip(ccases, model):
        case = {'fn': 'jw_hartree_fock_state' if hf else 'jw_configuration_state', 'occupied': occ, 'n_qubits': n}
        stream.case(case)
        stream.count(case['fn'])
        try:
            v = st.jw_hartree_fock_state(len(occ), n) if hf else st.jw_configuration_state(occ, n)
            nz = numpy.nonzero(v)[0]
            if len(nz) != 1 or v[nz[0]] != 1 or len(v) != 2 ** n:
                stream.violate('%s is not a basis vector of length 2^n' % case['fn'], case, {})
                continue
            idx = int(nz[0])
        except Exception as e:  # noqa: BLE001
            stream.violate('%s raised %s' % (case['fn'], errname(e)), case, {})
            continue
        if idx != mo:
            stream.disagree('index of the 1 entry', case, idx, mo)
        # Spec: the state is (up to sign) the product of creation operators on the vacuum, read from the
        # implementation's own get_sparse_operator matrix
        create = tuple((i, 1) for i in sorted(occ, reverse=True))
        M = of.get_sparse_operator(of.FermionOperator(create), n).toarray()
        sub = M[numpy.ix_([0, idx], [0, idx])]
        oracle.append((case, {'op': 'c10.spec_matrix', 'f': enc_op('fermion', {create: 1.0}), 'indices': [0, idx],
                              'n': n, 'm': gq_matrix(sub)}, idx))
    answers = ctx.driver.run([r for _, r, _ in oracle])
    for (case, r, idx), ans in zip(oracle, answers):
        stream.count('oracle:checked')
        distinct = idx != 0 or not case['occupied']
        if not ans['ok'] or not distinct:
            stream.violate('%s does not use the mode-to-bit convention of get_sparse_operator / the Spec' % case['fn'],
                           case, {'index': idx, 'answer': ans})


# ------------------------------------------------------------------ restrictions

def check_restrict(ctx, stream, big):
    of = ctx.of
    from openfermion.linalg import sparse_tools as st
    rng = rng_for(ctx.seed, 'c10-restrict')
    nops = budget(ctx.tier, 30, 250)
    if ctx.drift:
        nops = max(nops, 40)
    oracle, mreqs, mwant = [], [], []
    for _ in range(nops):
        n = rng.choice([1, 2, 3, 4, 4, 5] + ([6] if big else []))
        conserving = rng.random() < 0.5
        f = rand_conserving_op(rng, n) if conserving else rand_any_op(rng, n)
        if not f:
            continue
        H = fop(of, f)
        S = of.get_sparse_operator(H, n)
        full = None
        vec = numpy.array([(band_coef(rng) if rng.random() < 0.35 else dyadic(rng, max_num=4, max_pow=2, complex_p=0.4))
                           if rng.random() < 0.7 else 0.0 for _ in range(2 ** n)], dtype=complex)
        variants = [('number', k, None) for k in range(0, n + 1)]
        if n % 2 == 0:
            sites = n // 2
            for s2 in range(-sites, sites + 1):
                variants.append(('sz', s2 / 2, None))
                for ne in range(abs(s2), n + 1, 2):
                    if rng.random() < 0.5:
                        variants.append(('sz', s2 / 2, ne))
        for kind, val, ne in variants:
            case = {'fn': 'jw_%s_restrict_operator' % kind, 'n_qubits': n, 'value': val, 'n_electrons': ne,
                    'fermion_op': [[list(map(list, t)), to_gq(c)] for t, c in f.items()]}
            stream.case(case)
            stream.count('restrict:' + kind)
            pass_n = rng.random() < 0.5
            try:
                if kind == 'number':
                    idx = [int(i) for i in st.jw_number_indices(val, n)]
                    R = st.jw_number_restrict_operator(S, val, n if pass_n else None)
                    rs = st.jw_number_restrict_state(vec, val, n if pass_n else None)
                else:
                    idx = [int(i) for i in st.jw_sz_indices(val, n, n_electrons=ne)]
                    R = st.jw_sz_restrict_operator(S, val, n_electrons=ne, n_qubits=n if pass_n else None)
                    rs = st.jw_sz_restrict_state(vec, val, n_electrons=ne, n_qubits=n if pass_n else None)
                Rg = gq_matrix(R)
                rs = [to_gq(x) for x in numpy.asarray(rs).ravel()]
            except Exception as e:  # noqa: BLE001
                stream.violate('%s raised %s' % (case['fn'], errname(e)), case, {})
                continue
            if not idx:
                stream.count('empty-sector')
                if len(Rg) != 0 or len(rs) != 0:
                    stream.violate('restriction to an empty sector is not empty', case, {})
                continue
            oracle.append((case, {'op': 'c10.spec_matrix', 'f': enc_op('fermion', f), 'indices': idx, 'n': n, 'm': Rg}))
            # the restricted state holds the amplitudes of the listed basis states, in list order
            want = [to_gq(vec[i]) for i in idx]
            if rs != want:
                stream.violate('restricted state is not the list of amplitudes of the sector', case,
                               {'got': rs, 'want': want})
            if n <= 3:
                if full is None:
                    full = gq_matrix(S)
                mreqs.append({'op': 'c10.restrict', 'm': full, 'idx': idx})
                mwant.append((case, Rg))
                mreqs.append({'op': 'c10.restrict_state', 'v': [to_gq(x) for x in vec], 'idx': idx})
                mwant.append((case, rs))
    for (case, want), got in zip(mwant, ctx.driver.run(mreqs)):
        stream.count('model:restrict')
        if got != want:
            stream.disagree('restricted matrix / state', case, want, got)
    for (case, r), ans in zip(oracle, ctx.driver.run([r for _, r in oracle])):
        stream.count('oracle:checked')
        if not ans['ok']:
            stream.violate('restricted matrix is not the compression of the operator to the sector', case, ans)


# ------------------------------------------------------------------ expectation values

def check_expectation(ctx, stream, big):
    of = ctx.of
    from openfermion.linalg import sparse_tools as st
    rng = rng_for(ctx.seed, 'c10-expect')
    nops = budget(ctx.tier, 50, 600)
    if ctx.drift:
        nops = max(nops, 80)
    reqs, meta = [], []
    for _ in range(nops):
        n = rng.choice([1, 2, 3, 3, 4, 4, 5])
        raw = {}
        for _ in range(rng.choice([1, 2, 3, 5])):
            r = rng.random()
            if r < 0.35:
                i = rng.randrange(n)
                t = ((i, 1), (i, 0))
            elif r < 0.7 and n >= 2:
                i, j = rng.sample(range(n), 2)
                t = ((i, 1), (j, 1), (i, 0), (j, 0)) if rng.random() < 0.5 else ((j, 1), (i, 1), (j, 0), (i, 0))
            elif r < 0.8:
                t = ()
            else:
                t = rand_conserving_term(rng, n, False)
                if len(t) > 4:
                    t = t[:0]
            raw[t] = raw.get(t, 0) + dyadic(rng, max_num=4, max_pow=2)
        H = of.normal_ordered(fop(of, raw))
        f = dict(H.terms)
        if any(len(t) > 4 for t in f):
            continue
        states = list(range(2 ** n)) if n <= 4 or big else rng.sample(range(2 ** n), 16)
        for s in states:
            occ = [(s >> j) & 1 for j in range(n)]            # occupation list, mode j = entry j
            idx = sum(1 << (n - 1 - j) for j in range(n) if occ[j])
            for form in ('list', 'numpy', 'sparse'):
                if form != 'list' and rng.random() < 0.5 and n > 2:
                    continue
                case = {'fn': 'expectation_computational_basis_state', 'form': form, 'occupation': occ,
                        'fermion_op': [[list(map(list, t)), to_gq(c)] for t, c in f.items()]}
                stream.case(case)
                stream.count('form:' + form)
                try:
                    if form == 'list':
                        arg = [bool(b) for b in occ] if rng.random() < 0.5 else list(occ)
                    elif form == 'numpy':
                        arg = st.jw_configuration_state([j for j in range(n) if occ[j]], n)
                    else:
                        arg = scipy.sparse.csc_matrix(([1.0], ([idx], [0])), shape=(2 ** n, 1))
                    val = to_gq(st.expectation_computational_basis_state(H, arg))
                except Exception as e:  # noqa: BLE001
                    stream.violate('expectation_computational_basis_state raised %s' % errname(e), case, {})
                    continue
                if form == 'list':
                    reqs.append({'op': 'c10.expect', 'f': enc_op('fermion', f), 'occ': occ})
                else:
                    reqs.append({'op': 'c10.expect', 'f': enc_op('fermion', f), 'len': 2 ** n, 'idx': idx})
                reqs.append({'op': 'c10.spec_expect', 'f': enc_op('fermion', f), 'masks': [s]})
                meta.append((case, val))
    answers = ctx.driver.run(reqs)
    for k, (case, val) in enumerate(meta):
        mo, sp = answers[2 * k], answers[2 * k + 1][0]
        if from_gq(mo) != from_gq(val):
            stream.disagree('expectation value', case, val, mo)
        stream.count('oracle:checked')
        if from_gq(sp) != from_gq(val):
            stream.violate('expectation value differs from <s|F|s> of the Spec', case,
                           {'implementation': val, 'spec': sp})


# ------------------------------------------------------------------ number-preserving operator

def check_numpres(ctx, stream, big):
    of = ctx.of
    from openfermion.linalg import sparse_tools as st
    rng = rng_for(ctx.seed, 'c10-numpres')
    configs = []
    for n in range(1, 7):
        for ref_mask in range(2 ** n):
            ref = [bool((ref_mask >> j) & 1) for j in range(n)]
            ne = sum(ref)
            for level in range(0, ne + 2):
                for spin in (False, True):
                    configs.append((n, ne, ref, level, spin))
    nconf = budget(ctx.tier, 300, 4000)
    if ctx.drift:
        nconf = max(nconf, 600)
    small = [c for c in configs if c[0] <= 3]
    rest = [c for c in configs if c[0] > 3]
    chosen = small + rng.sample(rest, min(len(rest), nconf))
    # defaults (reference None, level None)
    for n in range(1, 6):
        for ne in range(0, n + 1):
            for spin in (False, True):
                chosen.append((n, ne, None, None, spin))
    reqs, meta = [], []
    for n, ne, ref, level, spin in chosen:
        malformed = rng.random() < 0.04
        f = rand_conserving_op(rng, n, spin)
        if malformed:
            f[((rng.randrange(n), 1),)] = 1.0
        if not f:
            continue
        case = {'fn': 'get_number_preserving_sparse_operator', 'n_qubits': n, 'n_electrons': ne,
                'reference': None if ref is None else [int(b) for b in ref], 'excitation_level': level,
                'spin_preserving': spin, 'fermion_op': [[list(map(list, t)), to_gq(c)] for t, c in f.items()]}
        stream.case(case)
        stream.count('spin:%s' % spin)
        stream.count('level:' + ('default' if level is None else 'full' if level >= ne else 'truncated'))
        H = fop(of, f)
        Hno = of.normal_ordered(H)
        ref_eff = [i < ne for i in range(n)] if ref is None else ref
        lev_eff = ne if level is None else level
        try:
            basis = [[bool(x) for x in d] for d in st._iterate_basis_(numpy.asarray(ref_eff), lev_eff, spin)]
            M = st.get_number_preserving_sparse_operator(H, n, ne, spin_preserving=spin,
                                                         reference_determinant=ref, excitation_level=level)
            a = {'m': gq_matrix(M)}
        except Exception as e:  # noqa: BLE001
            a = {'error': errname(e)}
        reqs.append({'op': 'c10.numpres', 'f_no': enc_op('fermion', Hno.terms), 'n': n, 'ne': ne, 'spin': spin,
                     'ref': None if ref is None else [int(b) for b in ref], 'level': level})
        meta.append((case, a, f, None if 'error' in a else basis, malformed, ref_eff, lev_eff, spin))
    model = ctx.driver.run(reqs)
    oracle = []
    for (case, a, f, basis, malformed, ref_eff, lev_eff, spin), mo in zip(meta, model):
        if 'error' in a:
            stream.count('error:' + a['error'])
            if not malformed:
                stream.violate('get_number_preserving_sparse_operator raised %s on admissible input' % a['error'],
                               case, {})
            if a.get('error') != mo.get('error'):
                stream.disagree('error kind', case, a, mo)
            continue
        if 'error' in mo:
            stream.disagree('model raises', case, a, mo)
            continue
        # compare as maps (row determinant, column determinant) -> value
        def key(d):
            return tuple(int(b) for b in d)
        am = {}
        for r, row in enumerate(a['m']):
            for c, x in enumerate(row):
                if from_gq(x) != (0, 0):
                    am[(key(basis[r]), key(basis[c]))] = from_gq(x)
        mm = {}
        for r, c, x in mo['m']:
            if from_gq(x) != (0, 0):
                mm[(key(mo['states'][r]), key(mo['states'][c]))] = from_gq(x)
        if sorted(map(key, basis)) != sorted(map(key, mo['states'])):
            stream.disagree('determinant basis', case, basis, mo['states'])
        elif am != mm:
            stream.disagree('matrix entries', case, sorted(am.items())[:20], sorted(mm.items())[:20])
        if len(a['m']) != len(basis):
            stream.violate('matrix size differs from the size of the documented basis', case, {})
            continue
        oracle.append((case, 'basis', {'op': 'c10.spec_basis', 'ref': [int(b) for b in ref_eff], 'level': lev_eff,
                                       'spin': spin, 'dets': [[int(b) for b in d] for d in basis]}))
        oracle.append((case, 'matrix', {'op': 'c10.spec_matrix', 'f': enc_op('fermion', f),
                                        'dets': [[int(b) for b in d] for d in basis], 'm': a['m']}))
    for (case, kind, r), ans in zip(oracle, ctx.driver.run([r for _, _, r in oracle])):
        stream.count('oracle:checked-' + kind)
        if not ans['ok']:
            if kind == 'basis':
                stream.violate('_iterate_basis_ does not yield exactly once the documented determinants, reference first',
                               case, {'basis': r['dets'], 'expected_masks': ans.get('expected')})
            else:
                stream.violate('matrix is not the operator restricted to the documented determinant basis', case, ans)


# ------------------------------------------------------------------ special operators

def leaf(jop):
    return ['leaf', jop]


def formula(name, n, mode=None, c=1.0):
    """docstring formula of a special operator as a Spec expression over literal operators"""
    one = [1, 1, 0, 1]
    h = [1, 2, 0, 1]

    def op(terms):
        return leaf([[[list(f) for f in t], cc] for t, cc in terms])
    up = [2 * i for i in range(n)]
    dn = [2 * i + 1 for i in range(n)]
    if name == 'number':
        modes = range(n) if mode is None else [mode]
        return op([(((m, 1), (m, 0)), to_gq(c)) for m in modes])
    sp = op([(((up[i], 1), (dn[i], 0)), one) for i in range(n)])
    sm = op([(((dn[i], 1), (up[i], 0)), one) for i in range(n)])
    szf = op([(((up[i], 1), (up[i], 0)), h) for i in range(n)] + [(((dn[i], 1), (dn[i], 0)), [-1, 2, 0, 1]) for i in range(n)])
    if name == 's_plus':
        return sp
    if name == 's_minus':
        return sm
    if name == 'sx':
        return ['smul', h, ['add', sp, sm]]
    if name == 'sy':
        return ['smul', [0, 1, -1, 2], ['sub', sp, sm]]
    if name == 'sz':
        return szf
    if name == 's_squared':
        ident = op([((), one)])
        return ['add', ['mul', sm, sp], ['mul', szf, ['add', szf, ident]]]
    raise AssertionError(name)


def check_special(ctx, stream, big):
    of = ctx.of
    rng = rng_for(ctx.seed, 'c10-special')
    cases = []
    for n in range(0, 7):
        cases.append(('number', n, None, dyadic(rng, max_num=4, max_pow=2)))
        for m in range(n):
            cases.append(('number', n, m, dyadic(rng, max_num=4, max_pow=2)))
    for sites in range(0, 5 if big else 4):
        for name in ('s_plus', 's_minus', 'sx', 'sy', 'sz', 's_squared'):
            cases.append((name, sites, None, 1.0))
    reqs = []
    for name, n, mode, c in cases:
        reqs.append({'op': 'c10.special', 'name': name, 'n': n, 'mode': mode, 'c': to_gq(c)})
    model = ctx.driver.run(reqs)
    oracle = []
    for (name, n, mode, c), mo in zip(cases, model):
        case = {'fn': name, 'n': n, 'mode': mode, 'coefficient': to_gq(c)}
        stream.case(case)
        stream.count('op:' + name)
        try:
            if name == 'number':
                a = of.number_operator(n, mode, c)
            else:
                from openfermion.hamiltonians import special_operators as so
                a = getattr(so, name + '_operator')(n)
            ja = enc_op('fermion', a.terms)
        except Exception as e:  # noqa: BLE001
            stream.violate('%s raised %s' % (name, errname(e)), case, {})
            continue
        if canon_op_json(ja) != canon_op_json(mo):
            stream.disagree('terms', case, ja, mo)
        nq = n if name == 'number' else 2 * n
        oracle.append((case, {'op': 'spec.eq', 'alg': 'fermion', 'n': nq, 'd': 0, 'lhs': leaf(ja),
                              'rhs': formula(name, n, mode, c)}))
    for (case, r), ans in zip(oracle, ctx.driver.run([r for _, r in oracle])):
        stream.count('oracle:checked')
        if not ans['eq']:
            stream.violate('%s does not denote its docstring formula' % case['fn'], case,
                           {'state': ans['state'], 'implementation': ans['lhs'], 'spec': ans['rhs']})


# ------------------------------------------------------------------ ground state (float contract)

def check_ground(ctx, stream, big):
    of = ctx.of
    from openfermion.linalg import sparse_tools as st
    rng = rng_for(ctx.seed, 'c10-ground')
    nops = budget(ctx.tier, 10, 120)
    for _ in range(nops):
        n = rng.choice([2, 3, 4, 4] + ([5] if big else []))
        f = rand_conserving_op(rng, n, nterms=rng.choice([2, 3, 5]))
        if not f:
            continue
        H = fop(of, f)
        H = H + of.hermitian_conjugated(H)
        S = of.get_sparse_operator(H, n)
        D = S.toarray()
        for k in range(0, n + 1):
            case = {'fn': 'jw_get_ground_state_at_particle_number', 'n_qubits': n, 'particle_number': k,
                    'fermion_op': [[list(map(list, t)), to_gq(c)] for t, c in f.items()]}
            stream.case(case)
            sector = [i for i in range(2 ** n) if popcount(i) == k]
            sub = D[numpy.ix_(sector, sector)]
            if len(sector) >= 3 and not numpy.any(sub):
                # observation (outside the property): scipy's eigsh raises ArpackError ("starting vector is
                # zero") on an all-zero matrix, so the helper fails when the operator vanishes on a sector of
                # dimension >= 3; such inputs are not given to the eigensolver stream
                stream.count('skipped:operator-vanishes-on-sector')
                continue
            try:
                E, psi = st.jw_get_ground_state_at_particle_number(S, k)
            except Exception as e:  # noqa: BLE001
                stream.violate('jw_get_ground_state_at_particle_number raised %s' % errname(e), case,
                               {'error': type(e).__name__, 'sector_size': len(sector)})
                continue
            emin = float(numpy.linalg.eigvalsh(D[numpy.ix_(sector, sector)])[0])
            stream.float_comparisons += 3
            outside = [i for i in range(2 ** n) if i not in sector]
            res = float(numpy.linalg.norm(D.dot(psi) - E * psi))
            bad = []
            if abs(E - emin) > 1e-9:
                bad.append('energy %r differs from the lowest eigenvalue %r of the sector' % (E, emin))
            if outside and float(numpy.max(numpy.abs(psi[outside]))) > 1e-9:
                bad.append('state has support outside the particle-number sector')
            if res > 1e-8 or abs(float(numpy.linalg.norm(psi)) - 1) > 1e-9:
                bad.append('state is not a normalised eigenvector (residual %g)' % res)
            if bad:
                stream.violate('; '.join(bad), case, {'energy': E, 'expected': emin})


# ------------------------------------------------------------------ hardening: state, types, bands, asymmetry

BAND = [2.0 ** -12, 3 * 2.0 ** -15, -5 * 2.0 ** -19, 2.0 ** -21, 1j * 2.0 ** -14, (3 - 2j) * 2.0 ** -18]


def band_coef(rng):
    """coefficients of magnitude 1e-7 .. 1e-4 (exact dyadic values, a decade above the pruning tolerance 1e-8),
    purely imaginary and complex ones"""
    r = rng.random()
    if r < 0.5:
        return rng.choice(BAND)
    if r < 0.75:
        return 1j * rng.choice([1, -2, 0.5, 3, -0.25])
    return dyadic(rng, max_num=4, max_pow=2, complex_p=0.6)


def canon_val(x):
    """exact, comparison-friendly form of a returned value / argument"""
    import openfermion
    if isinstance(x, openfermion.SymbolicOperator):
        return ('op', canon_op_json(enc_op('fermion', x.terms)))
    if scipy.sparse.issparse(x):
        return ('mat', x.shape, gq_matrix(x))
    if isinstance(x, numpy.ndarray):
        if x.dtype == object:
            return ('objarr', [canon_val(y) for y in x.ravel()])
        return ('arr', x.shape, [to_gq(y) for y in x.ravel()])
    if isinstance(x, (list, tuple)):
        return (type(x).__name__, [canon_val(y) for y in x])
    if isinstance(x, (bool, numpy.bool_)):
        return ('b', bool(x))
    if isinstance(x, (int, float, complex, numpy.number)):
        return ('n', tuple(to_gq(x)))
    if x is None:
        return None
    return ('repr', repr(x))


def mutate_in_place(x, depth=0):
    """modify a returned value in place (what a caller is free to do with its own result)"""
    import openfermion
    if isinstance(x, openfermion.SymbolicOperator):
        x += type(x)(((0, 1), (0, 0)), 3.25)
        x *= 2
    elif scipy.sparse.issparse(x):
        try:
            if x.nnz:
                x.data[:] = 7
            else:
                x.resize((x.shape[0] + 1, x.shape[1] + 1))
        except Exception:  # noqa: BLE001
            pass
    elif isinstance(x, numpy.ndarray):
        if x.size and x.flags.writeable:
            if x.dtype == bool:
                numpy.logical_not(x, out=x)
            else:
                x += 3
    elif isinstance(x, list):
        if depth < 2:
            for y in x:
                mutate_in_place(y, depth + 1)
        x += [12345, 7]
        x[0] = -9
    elif isinstance(x, tuple):
        for y in x:
            mutate_in_place(y, depth + 1)


def arrays_of(x):
    if isinstance(x, numpy.ndarray) and x.dtype != object:
        return [x]
    if isinstance(x, (list, tuple)):
        return [a for y in x for a in arrays_of(y)]
    return []


def state_check(stream, name, make_args, call, case_extra=None):
    """(S): call, modify the result in place, call again: same value; arguments untouched; no aliasing"""
    case = {'fn': name, 'check': 'state'}
    case.update(case_extra or {})
    stream.case(case)
    stream.count('state:' + name)
    try:
        args = make_args()
        snap = canon_val(list(args))
        r1 = call(*args)
        if canon_val(list(args)) != snap:
            stream.violate('%s modified its arguments' % name, case, {})
            return None
        c1 = canon_val(r1)
        for a in arrays_of(r1):
            for b in arrays_of(list(args)):
                if numpy.shares_memory(a, b):
                    stream.violate('%s returns memory shared with an argument' % name, case, {})
                    return c1
        mutate_in_place(r1)
        if canon_val(list(args)) != snap:
            stream.violate('modifying the result of %s in place changed an argument' % name, case, {})
            return c1
        r2 = call(*args)
        if r2 is r1 and isinstance(r1, (list, numpy.ndarray)):
            stream.violate('%s returned the same mutable object twice' % name, case, {})
        c2 = canon_val(r2)
        if c2 != c1:
            stream.violate('%s: a second call after modifying the first result in place gives a different value' % name,
                           case, {'first': show(c1, 600), 'second': show(c2, 600)})
        c3 = canon_val(call(*make_args()))
        if c3 != c1:
            stream.violate('%s is not deterministic on fresh arguments' % name, case, {})
        return c1
    except Exception as e:  # noqa: BLE001
        stream.violate('%s raised %s in the state check' % (name, errname(e)), case, {})
        return None


def type_check(stream, name, reference, variants, canon=canon_val):
    """(T): the same call with other accepted argument types / containers gives the same value"""
    try:
        ref = canon(reference())
    except Exception as e:  # noqa: BLE001
        stream.violate('%s raised %s' % (name, errname(e)), {'fn': name, 'check': 'types'}, {})
        return
    for label, f in variants:
        case = {'fn': name, 'check': 'types', 'variant': label}
        stream.case(case)
        stream.count('types:' + name)
        try:
            got = canon(f())
        except Exception as e:  # noqa: BLE001
            stream.violate('%s raised %s for argument types accepted by the library (%s)' % (name, errname(e), label),
                           case, {})
            continue
        if got != ref:
            stream.violate('%s gives a different value for argument types %s' % (name, label), case,
                           {'reference': show(ref, 500), 'got': show(got, 500)})


def values_only(x):
    """canon form that ignores container type, sparse / dense representation and dtype"""
    if scipy.sparse.issparse(x):
        x = x.toarray()
    if isinstance(x, numpy.ndarray) and x.dtype != object:
        x = numpy.asarray(x)
        if x.ndim == 0:
            return tuple(to_gq(x.item()))
        return [values_only(y) for y in x]
    if isinstance(x, (list, tuple)):
        return [values_only(y) for y in x]
    if isinstance(x, (bool, numpy.bool_)):
        return (int(x), 1, 0, 1)
    if isinstance(x, (int, float, complex, numpy.number)):
        return tuple(to_gq(x))
    return canon_val(x)


def comb(n, k):
    import math
    return math.comb(n, k) if 0 <= k <= n else 0


def check_hardening(ctx, stream, big):
    of = ctx.of
    from openfermion.linalg import sparse_tools as st
    from openfermion.hamiltonians import special_operators as so
    rng = rng_for(ctx.seed, 'c10-hard')
    I64, I32, I8, U8 = numpy.int64, numpy.int32, numpy.int8, numpy.uint8

    # ---------------- (S) every function, around an in-place modification of its result
    for (k, n) in [(1, 4), (2, 4), (0, 3), (3, 3), (2, 6)]:
        state_check(stream, 'jw_number_indices', lambda: (k, n), st.jw_number_indices, {'args': [k, n]})
    for (sz, n, ne) in [(0.0, 4, 2), (0.5, 4, 1), (-1.0, 4, None), (0.0, 2, None), (0.5, 6, 3)]:
        state_check(stream, 'jw_sz_indices', lambda: (sz, n, ne), lambda a, b, c: st.jw_sz_indices(a, b, n_electrons=c),
                    {'args': [sz, n, ne]})
    state_check(stream, 'jw_configuration_state', lambda: ([0, 2], 3), st.jw_configuration_state)
    state_check(stream, 'jw_configuration_state', lambda: (numpy.array([1, 3]), 4), st.jw_configuration_state)
    state_check(stream, 'jw_hartree_fock_state', lambda: (2, 4), st.jw_hartree_fock_state)
    nops = budget(ctx.tier, 3, 12)
    for _ in range(nops):
        n = rng.choice([3, 4, 4])
        f = {t: band_coef(rng) for t in rand_any_op(rng, n, nterms=4)}
        f.update(rand_conserving_op(rng, n, nterms=2))
        H = fop(of, f)
        S = of.get_sparse_operator(H, n)
        D = S.toarray()
        vec = numpy.array([band_coef(rng) if rng.random() < 0.7 else 0.0 for _ in range(2 ** n)], dtype=complex)
        for k in range(n + 1):
            for M, lab in ((S, 'csc'), (D, 'dense')):
                state_check(stream, 'jw_number_restrict_operator', lambda: (M, k, n), st.jw_number_restrict_operator,
                            {'matrix': lab, 'k': k})
            state_check(stream, 'jw_number_restrict_state', lambda: (vec, k, n), st.jw_number_restrict_state, {'k': k})
        if n % 2 == 0:
            for s2 in range(-n // 2, n // 2 + 1):
                for M, lab in ((S, 'csc'), (D, 'dense')):
                    state_check(stream, 'jw_sz_restrict_operator', lambda: (M, s2 / 2, None, n), st.jw_sz_restrict_operator,
                                {'matrix': lab, 'sz': s2 / 2})
                state_check(stream, 'jw_sz_restrict_state', lambda: (vec, s2 / 2, None, n), st.jw_sz_restrict_state)
        # cross-function: derived values before / after a caller modified every index list it was given
        def derived():
            out = []
            for k in range(n + 1):
                out.append(canon_val(st.jw_number_restrict_operator(S, k, n)))
                out.append(canon_val(st.jw_number_restrict_state(vec, k)))
                out.append(canon_val(st.jw_number_indices(k, n)))
            if n % 2 == 0:
                for s2 in range(-n // 2, n // 2 + 1):
                    out.append(canon_val(st.jw_sz_restrict_operator(S, s2 / 2)))
                    out.append(canon_val(st.jw_sz_restrict_state(vec, s2 / 2, n_electrons=abs(s2))))
            return out
        case = {'fn': 'restrictions after index lists were modified by the caller', 'check': 'state', 'n_qubits': n,
                'fermion_op': [[list(map(list, t)), to_gq(c)] for t, c in f.items()]}
        stream.case(case)
        stream.count('state:cross-function')
        try:
            before = derived()
            for k in range(n + 1):
                sector = st.jw_number_indices(k, n)
                sector += st.jw_number_indices((k + 1) % (n + 1), n)
                sector.append(0)
                if n % 2 == 0:
                    for s2 in range(-n // 2, n // 2 + 1):
                        l2 = st.jw_sz_indices(s2 / 2, n)
                        l2 += [1, 2, 3]
                        l3 = st.jw_sz_indices(s2 / 2, n, n_electrons=abs(s2))
                        l3.reverse()
                        l3 += l2
            st.jw_configuration_state([0], n)[:] = 5
            after = derived()
            if before != after:
                stream.violate('restrictions / index lists change after a caller modified earlier results in place',
                               case, {})
        except Exception as e:  # noqa: BLE001
            stream.violate('restriction raised %s in the cross-function state check' % errname(e), case, {})
        # ground state energies (float contract) before / after the same kind of modification
        Hh = H + of.hermitian_conjugated(H)
        Sh = of.get_sparse_operator(Hh, n)
        Dh = Sh.toarray()
        for k in range(n + 1):
            sector = [i for i in range(2 ** n) if popcount(i) == k]
            if len(sector) >= 3 and not numpy.any(Dh[numpy.ix_(sector, sector)]):
                continue
            case = {'fn': 'jw_get_ground_state_at_particle_number', 'check': 'state', 'k': k, 'n_qubits': n}
            stream.case(case)
            stream.count('state:ground-state')
            try:
                snap = canon_val(Sh)
                E1, p1 = st.jw_get_ground_state_at_particle_number(Sh, k)
                p1[:] = 0
                lst = st.jw_number_indices(k, n)
                lst += [0, 1]
                E2, p2 = st.jw_get_ground_state_at_particle_number(Sh, k)
                stream.float_comparisons += 2
                emin = float(numpy.linalg.eigvalsh(Dh[numpy.ix_(sector, sector)])[0])
                if abs(E1 - E2) > 1e-9 or abs(E2 - emin) > 1e-9:
                    stream.violate('ground energy changes between two calls around in-place modifications', case,
                                   {'first': E1, 'second': E2, 'expected': emin})
                if len(p2) != 2 ** n or canon_val(Sh) != snap:
                    stream.violate('jw_get_ground_state_at_particle_number modified its argument / wrong length', case, {})
            except Exception as e:  # noqa: BLE001
                stream.violate('jw_get_ground_state_at_particle_number raised %s' % errname(e), case, {})
        # expectation value, number-preserving operator, determinant basis
        Hn = of.normal_ordered(fop(of, rand_conserving_op(rng, n, nterms=3)))
        if all(len(t) <= 4 for t in Hn.terms):
            occ = [rng.randint(0, 1) for _ in range(n)]
            state_check(stream, 'expectation_computational_basis_state', lambda: (Hn, list(occ)),
                        st.expectation_computational_basis_state)
            idx = sum(1 << (n - 1 - j) for j in range(n) if occ[j])
            v = numpy.zeros(2 ** n)
            v[idx] = 1
            state_check(stream, 'expectation_computational_basis_state', lambda: (Hn, v),
                        st.expectation_computational_basis_state)
        ne = rng.randint(0, n)
        ref = [i < ne for i in range(n)]
        rng.shuffle(ref)
        for spin in (False, True):
            Hc = fop(of, rand_conserving_op(rng, n, spin, nterms=3))
            for level in (None, 1):
                def mk(level=level, spin=spin, Hc=Hc):
                    return (Hc, n, ne, spin, numpy.array(ref), level)
                state_check(stream, 'get_number_preserving_sparse_operator', mk,
                            lambda a, b, c, d, e, g: st.get_number_preserving_sparse_operator(
                                a, b, c, spin_preserving=d, reference_determinant=e, excitation_level=g),
                            {'spin': spin, 'level': level})
                state_check(stream, 'get_number_preserving_sparse_operator', lambda: (Hc, n, ne, spin, list(ref), level),
                            lambda a, b, c, d, e, g: st.get_number_preserving_sparse_operator(
                                a, b, c, spin_preserving=d, reference_determinant=e, excitation_level=g),
                            {'spin': spin, 'level': level, 'reference': 'list'})
            state_check(stream, '_iterate_basis_', lambda: (numpy.array(ref), min(ne, 2), spin),
                        lambda a, b, c: list(st._iterate_basis_(a, b, c)), {'spin': spin})
    for name, fn, arg in [('number_operator', so.number_operator, (4,)), ('number_operator', so.number_operator, (4, 2, 0.5)),
                          ('sz_operator', so.sz_operator, (2,)), ('s_squared_operator', so.s_squared_operator, (2,)),
                          ('s_plus_operator', so.s_plus_operator, (2,)), ('s_minus_operator', so.s_minus_operator, (2,)),
                          ('sx_operator', so.sx_operator, (2,)), ('sy_operator', so.sy_operator, (2,))]:
        state_check(stream, name, lambda: arg, fn)

    # ---------------- (T) argument types and containers accepted by the library
    for (k, n) in [(2, 5), (0, 3), (4, 4), (1, 9)]:
        type_check(stream, 'jw_number_indices', lambda: st.jw_number_indices(k, n),
                   [('%s,%s' % (A.__name__, B.__name__), (lambda A=A, B=B: st.jw_number_indices(A(k), B(n))))
                    for A, B in [(I64, I64), (I32, I64), (I8, U8), (U8, I32), (int, I64)]])
    for (sz, n, ne) in [(0.5, 4, 1), (-0.5, 6, 3), (1.0, 4, None), (0.0, 6, 2), (-1.0, 4, 2)]:
        vs = [('float64', lambda: st.jw_sz_indices(numpy.float64(sz), n, n_electrons=ne)),
              ('float32', lambda: st.jw_sz_indices(numpy.float32(sz), n, n_electrons=ne)),
              ('numpy ints', lambda: st.jw_sz_indices(sz, I64(n), n_electrons=None if ne is None else I32(ne)))]
        if float(sz).is_integer():
            vs += [('int sz', lambda: st.jw_sz_indices(int(sz), n, n_electrons=ne)),
                   ('int64 sz', lambda: st.jw_sz_indices(I64(int(sz)), n, n_electrons=ne))]
        type_check(stream, 'jw_sz_indices', lambda: st.jw_sz_indices(sz, n, n_electrons=ne), vs)
    for occ, n in [([0, 2], 4), ([3], 4), ([], 2), ([1, 2, 4], 5)]:
        type_check(stream, 'jw_configuration_state', lambda: st.jw_configuration_state(occ, n),
                   [('tuple', lambda: st.jw_configuration_state(tuple(occ), n)),
                    ('ndarray', lambda: st.jw_configuration_state(numpy.array(occ, dtype=int), I64(n))),
                    ('set', lambda: st.jw_configuration_state(set(occ), n)),
                    ('numpy ints', lambda: st.jw_configuration_state([I64(i) if i % 2 else I32(i) for i in occ], I32(n))),
                    ('reversed', lambda: st.jw_configuration_state(list(reversed(occ)), n))])
    type_check(stream, 'jw_hartree_fock_state', lambda: st.jw_hartree_fock_state(2, 5),
               [('numpy ints', lambda: st.jw_hartree_fock_state(I64(2), I32(5)))])
    for _ in range(budget(ctx.tier, 3, 10)):
        n = rng.choice([2, 3, 4])
        f = {t: band_coef(rng) for t in rand_any_op(rng, n, nterms=4)}
        S = of.get_sparse_operator(fop(of, f), n)
        D = S.toarray()
        small = scipy.sparse.csc_matrix(numpy.array([[rng.randint(-3, 3) + 1j * rng.randint(-2, 2) for _ in range(2 ** n)]
                                                     for _ in range(2 ** n)]))
        vec = numpy.array([rng.randint(-4, 4) for _ in range(2 ** n)])
        for k in range(n + 1):
            type_check(stream, 'jw_number_restrict_operator', lambda: st.jw_number_restrict_operator(S, k, n),
                       [('csr', lambda: st.jw_number_restrict_operator(S.tocsr(), k, n)),
                        ('dense', lambda: st.jw_number_restrict_operator(D, k)),
                        ('fortran', lambda: st.jw_number_restrict_operator(numpy.asfortranarray(D), I64(k), I32(n))),
                        ('lil', lambda: st.jw_number_restrict_operator(S.tolil(), k, None)),
                        ('matrix', lambda: st.jw_number_restrict_operator(numpy.matrix(D), k, n))], canon=values_only)
            type_check(stream, 'jw_number_restrict_operator', lambda: st.jw_number_restrict_operator(small, k, n),
                       [('complex64', lambda: st.jw_number_restrict_operator(small.astype(numpy.complex64), k, n)),
                        ('complex64 dense', lambda: st.jw_number_restrict_operator(small.toarray().astype(numpy.complex64), k))],
                       canon=values_only)
            type_check(stream, 'jw_number_restrict_state', lambda: st.jw_number_restrict_state(vec.astype(complex), k, n),
                       [(str(numpy.dtype(dt)), (lambda dt=dt: st.jw_number_restrict_state(vec.astype(dt), I64(k))))
                        for dt in (numpy.complex64, float, numpy.float32, numpy.int64, numpy.int32)], canon=values_only)
        if n % 2 == 0:
            for s2 in range(-n // 2, n // 2 + 1):
                type_check(stream, 'jw_sz_restrict_operator', lambda: st.jw_sz_restrict_operator(S, s2 / 2),
                           [('dense float32 sz', lambda: st.jw_sz_restrict_operator(D, numpy.float32(s2 / 2), n_qubits=I64(n))),
                            ('csr', lambda: st.jw_sz_restrict_operator(S.tocsr(), numpy.float64(s2 / 2)))], canon=values_only)
                type_check(stream, 'jw_sz_restrict_state', lambda: st.jw_sz_restrict_state(vec.astype(complex), s2 / 2),
                           [('int64', lambda: st.jw_sz_restrict_state(vec, numpy.float64(s2 / 2), n_qubits=I32(n)))],
                           canon=values_only)
    # expectation values: numpy scalars placed directly into .terms; list / vector element types
    oracle = []
    for _ in range(budget(ctx.tier, 6, 30)):
        n = rng.choice([2, 3, 4])
        H = of.FermionOperator()
        scal = [numpy.complex64, numpy.float32, numpy.int64, numpy.float64, numpy.complex128, float, int]
        for i in range(n):
            if rng.random() < 0.7:
                H.terms[((i, 1), (i, 0))] = rng.choice(scal)(rng.randint(-3, 3))
            for j in range(i + 1, n):
                if rng.random() < 0.5:
                    H.terms[((j, 1), (i, 1), (j, 0), (i, 0))] = rng.choice(scal)(rng.choice([0.5, -2, 1, 3]))
        H.terms[()] = rng.choice(scal)(rng.randint(-2, 2))
        if n >= 2:
            H.terms[((1, 1), (0, 0))] = numpy.complex64(1 + 2j)
        f = dict(H.terms)
        for s in range(2 ** n):
            occ = [(s >> j) & 1 for j in range(n)]
            idx = sum(1 << (n - 1 - j) for j in range(n) if occ[j])
            variants = [('bool list', [bool(b) for b in occ]), ('numpy.bool_ list', [numpy.bool_(b) for b in occ]),
                        ('numpy int list', [I64(b) if j % 2 else I8(b) for j, b in enumerate(occ)])]
            for dt in (numpy.float32, complex, numpy.int64, bool, float):
                v = numpy.zeros(2 ** n, dtype=dt)
                v[idx] = 1
                variants.append(('vector ' + str(numpy.dtype(dt)), v))
                variants.append(('csr ' + str(numpy.dtype(dt)), scipy.sparse.csr_matrix(v.reshape(2 ** n, 1))))
            for label, arg in variants:
                case = {'fn': 'expectation_computational_basis_state', 'check': 'types', 'variant': label, 'occupation': occ,
                        'fermion_op': [[list(map(list, t)), to_gq(c)] for t, c in f.items()]}
                stream.case(case)
                stream.count('types:expectation')
                try:
                    val = to_gq(st.expectation_computational_basis_state(H, arg))
                except Exception as e:  # noqa: BLE001
                    stream.violate('expectation_computational_basis_state raised %s for %s' % (errname(e), label), case, {})
                    continue
                oracle.append((case, val, {'op': 'c10.spec_expect', 'f': enc_op('fermion', f), 'masks': [s]}))
    # (B) indices >= 257 : occupation lists with 300 orbitals
    nbig = 300
    H = of.FermionOperator()
    picks = [0, 255, 256, 257, 258, 299]
    for i in picks:
        H.terms[((i, 1), (i, 0))] = float(rng.randint(1, 5))
    for a in range(len(picks)):
        for b in range(a + 1, len(picks)):
            H.terms[((picks[b], 1), (picks[a], 1), (picks[b], 0), (picks[a], 0))] = rng.choice([0.5, -1.5, 2.0, 0.25])
    H.terms[()] = 1.0
    for _ in range(4):
        occ = [0] * nbig
        for i in rng.sample(picks, rng.randint(1, len(picks))):
            occ[i] = 1
        for i in rng.sample(range(nbig), 20):
            occ[i] = 1
        case = {'fn': 'expectation_computational_basis_state', 'check': 'bands', 'orbitals': nbig,
                'occupied': [i for i in range(nbig) if occ[i]]}
        stream.case(case)
        stream.count('bands:expectation-300-orbitals')
        try:
            val = st.expectation_computational_basis_state(H, list(occ))
        except Exception as e:  # noqa: BLE001
            stream.violate('expectation_computational_basis_state raised %s' % errname(e), case, {})
            continue
        want = H.terms[()] + sum(H.terms[((i, 1), (i, 0))] for i in picks if occ[i]) \
            - sum(H.terms[((picks[b], 1), (picks[a], 1), (picks[b], 0), (picks[a], 0))]
                  for a in range(len(picks)) for b in range(a + 1, len(picks)) if occ[picks[a]] and occ[picks[b]])
        if to_gq(val) != to_gq(want):
            stream.violate('expectation value wrong for orbital indices >= 257', case, {'got': val, 'want': want})
    answers = ctx.driver.run([r for _, _, r in oracle])
    for (case, val, r), ans in zip(oracle, answers):
        stream.count('oracle:checked')
        if from_gq(ans[0]) != from_gq(val):
            stream.violate('expectation value differs from <s|F|s> of the Spec', case, {'implementation': val, 'spec': ans[0]})
    # number-preserving operator: reference containers, numpy integer arguments, numpy.float64 / complex128 coefficients
    for _ in range(budget(ctx.tier, 4, 16)):
        n = rng.choice([3, 4, 5])
        ne = rng.randint(1, n - 1)
        ref = [i < ne for i in range(n)]
        rng.shuffle(ref)
        spin = rng.random() < 0.5
        f = rand_conserving_op(rng, n, spin, nterms=3)
        f = {t: (band_coef(rng) if rng.random() < 0.4 else c) for t, c in f.items()}
        Hc = fop(of, f)
        H2 = of.FermionOperator()
        for t, c in f.items():
            H2 += of.FermionOperator(t, numpy.complex128(c) if isinstance(c, complex) else numpy.float64(c))
        level = rng.choice([None, 1, ne])
        call = lambda H=Hc, r=ref, a=n, b=ne, sp=spin, lv=level: st.get_number_preserving_sparse_operator(
            H, a, b, spin_preserving=sp, reference_determinant=r, excitation_level=lv)
        type_check(stream, 'get_number_preserving_sparse_operator', call,
                   [('tuple reference', lambda: call(r=tuple(ref))),
                    ('ndarray reference', lambda: call(r=numpy.array(ref))),
                    ('numpy.bool_ reference', lambda: call(r=[numpy.bool_(b) for b in ref])),
                    ('numpy ints', lambda: call(a=I64(n), b=I32(ne), lv=None if level is None else I64(level))),
                    ('numpy.bool_ flag', lambda: call(sp=numpy.bool_(spin))),
                    ('numpy float64 / complex128 coefficients', lambda: call(H=H2))], canon=values_only)
    type_check(stream, 'number_operator', lambda: so.number_operator(5, 3, 0.5),
               [('numpy int n_modes, float64', lambda: so.number_operator(I64(5), 3, numpy.float64(0.5)))])
    type_check(stream, 'number_operator', lambda: so.number_operator(4, None, 2j),
               [('numpy int, complex128', lambda: so.number_operator(I64(4), None, numpy.complex128(2j)))])

    # ---------------- (B) sizes beyond 8 and 16 (closed-form oracles: distinct, in range, right counts, right number)
    for n in (17, 20, 33):
        for k in (0, 1, 2, n - 1, n, n + 1):
            case = {'fn': 'jw_number_indices', 'check': 'bands', 'n_electrons': k, 'n_qubits': n}
            stream.case(case)
            stream.count('bands:jw_number_indices')
            try:
                a = [int(x) for x in st.jw_number_indices(k, n)]
            except Exception as e:  # noqa: BLE001
                stream.violate('jw_number_indices raised %s' % errname(e), case, {})
                continue
            if len(a) != comb(n, k) or len(set(a)) != len(a) or any(not (0 <= i < 2 ** n and popcount(i) == k) for i in a):
                stream.violate('jw_number_indices does not enumerate exactly once the basis states of the sector', case,
                               {'length': len(a), 'expected_length': comb(n, k)})
    for n in (10, 18, 20):
        sites = n // 2
        for sz, ne in [(0.5, 1), (-0.5, 1), (0.0, 2), (1.0, 2), (-1.0, 2), (0.5, 3), (sites / 2, None), (-sites / 2, None),
                       ((sites - 1) / 2, None)]:
            case = {'fn': 'jw_sz_indices', 'check': 'bands', 'sz_value': sz, 'n_qubits': n, 'n_electrons': ne}
            stream.case(case)
            stream.count('bands:jw_sz_indices')
            try:
                a = [int(x) for x in st.jw_sz_indices(sz, n, n_electrons=ne)]
            except Exception as e:  # noqa: BLE001
                stream.violate('jw_sz_indices raised %s' % errname(e), case, {})
                continue
            s2 = int(2 * sz)
            def ud(i):
                up = sum((i >> (n - 1 - 2 * s)) & 1 for s in range(sites))
                dn = sum((i >> (n - 2 - 2 * s)) & 1 for s in range(sites))
                return up, dn
            if ne is not None:
                nu = (ne + s2) // 2
                want = comb(sites, nu) * comb(sites, ne - nu)
            else:
                want = sum(comb(sites, m) * comb(sites, m - abs(s2)) for m in range(abs(s2), sites + 1))
            ok = len(a) == want and len(set(a)) == len(a)
            for i in a:
                u, d = ud(i)
                ok = ok and 0 <= i < 2 ** n and u - d == s2 and (ne is None or u + d == ne)
            if not ok:
                stream.violate('jw_sz_indices does not enumerate exactly once the basis states of the sector', case,
                               {'length': len(a), 'expected_length': want})
    reqs, meta = [], []
    for n, occ in [(17, [0, 16]), (17, [15, 16]), (18, [0, 8, 17]), (20, [16, 19]), (20, list(range(20)))]:
        reqs.append({'op': 'c10.config_index', 'occ': occ, 'n': n})
        meta.append((n, occ))
    for (n, occ), mo in zip(meta, ctx.driver.run(reqs)):
        case = {'fn': 'jw_configuration_state', 'check': 'bands', 'occupied': occ, 'n_qubits': n}
        stream.case(case)
        stream.count('bands:jw_configuration_state')
        try:
            v = st.jw_configuration_state(occ, n)
            nz = numpy.nonzero(v)[0]
            want = sum(1 << (n - 1 - i) for i in occ)
            if len(v) != 2 ** n or len(nz) != 1 or int(nz[0]) != want or v[nz[0]] != 1:
                stream.violate('jw_configuration_state is not the big-endian basis vector', case, {'index': [int(x) for x in nz]})
            if int(nz[0]) != mo:
                stream.disagree('index of the 1 entry', case, int(nz[0]), mo)
        except Exception as e:  # noqa: BLE001
            stream.violate('jw_configuration_state raised %s' % errname(e), case, {})
    reqs, meta = [], []
    for n, mode, c in [(300, 299, 0.5), (300, 257, -2.0), (260, None, 1.0), (258, 256, 1j)]:
        reqs.append({'op': 'c10.special', 'name': 'number', 'n': n, 'mode': mode, 'c': to_gq(c)})
        meta.append((n, mode, c))
    for (n, mode, c), mo in zip(meta, ctx.driver.run(reqs)):
        case = {'fn': 'number_operator', 'check': 'bands', 'n': n, 'mode': mode}
        stream.case(case)
        stream.count('bands:number_operator')
        try:
            a = so.number_operator(n, mode, c)
            ja = enc_op('fermion', a.terms)
            want = {((m, 1), (m, 0)): c for m in (range(n) if mode is None else [mode])}
            if canon_op_json(ja) != canon_op_json(enc_op('fermion', want)):
                stream.violate('number_operator is not sum of c m^ m for mode indices >= 257', case, {})
            if canon_op_json(ja) != canon_op_json(mo):
                stream.disagree('terms', case, len(ja), len(mo))
        except Exception as e:  # noqa: BLE001
            stream.violate('number_operator raised %s' % errname(e), case, {})


# ------------------------------------------------------------------ entry points

def classify(v):
    return None


def probe_known(ctx, k):
    return False


def run(ctx):
    big = ctx.tier == 'thorough' or ctx.drift
    streams = []
    s = Stream('indices', 'jw_number_indices for every (n <= 10, k <= n + 1) [12 thorough]; jw_sz_indices for every '
               '(n_qubits <= 4, sz, n_electrons, index map) and a seeded sample up to 8 [all up to 10 thorough], including '
               'inadmissible arguments (error kinds only); configuration / Hartree-Fock states on <= 6 qubits; '
               'distinct = distinct argument tuples')
    check_indices(ctx, s, big)
    s.exhaustive = big
    streams.append(s)
    s = Stream('restrict', 'seeded random fermionic operators (any / number conserving, dyadic coefficients) on <= 5 qubits '
               '[6 thorough], every particle number and every S_z (with and without n_electrons), n_qubits passed or '
               'inferred; restricted states of random dyadic vectors; distinct = distinct (operator, sector)')
    check_restrict(ctx, s, big)
    streams.append(s)
    s = Stream('expectation', 'normal-ordered operators with at most two-body terms on <= 5 orbitals, every basis state '
               '(<= 4 orbitals; seeded sample of 16 on 5) as occupation list, numpy vector and scipy.sparse vector; '
               'distinct = distinct (operator, state, form)')
    check_expectation(ctx, s, big)
    streams.append(s)
    s = Stream('number-preserving', 'every (reference determinant, excitation level 0..ne+1, spin flag) on <= 3 orbitals, a '
               'seeded sample on 4..6 orbitals and the default arguments, with random number- (and S_z-) conserving '
               'operators; 4% of the operators carry a non-conserving term (error kind only); distinct = distinct calls')
    check_numpres(ctx, s, big)
    streams.append(s)
    s = Stream('special-operators', 'number_operator(n <= 6, every mode / all modes), s_plus, s_minus, sx, sy, sz, s_squared '
               'for <= 3 spatial orbitals [4 thorough]; distinct = distinct calls')
    check_special(ctx, s, big)
    s.exhaustive = True
    streams.append(s)
    s = Stream('ground-state', 'random Hermitian number-conserving operators on <= 4 qubits [5 thorough], every particle '
               'number; float contract (energy, support, eigenvector residual) with absolute tolerance 1e-9 / 1e-8')
    check_ground(ctx, s, big)
    streams.append(s)
    s = Stream('hardening', '(S) every function called twice around an in-place modification of its first result, arguments '
               'snapshotted, no shared memory, restrictions / ground energies re-queried after a caller modified every index list; '
               '(T) numpy integer / float scalars, int8..int64, float32/64, complex64/128, bool, tuples / sets / arrays / Fortran '
               'order / csr / lil / numpy.matrix, numpy scalars placed into .terms (only types the unmodified library accepts); '
               '(B) coefficients of magnitude 1e-7..1e-4 next to O(1), purely imaginary coefficients, n = 17, 18, 20, 33 qubits, '
               'orbital indices >= 257; closed-form oracles (counts, popcounts) where the Lean enumeration is too large')
    check_hardening(ctx, s, big)
    streams.append(s)
    return streams
