"""C19 — LCU alias tables and cost arithmetic.

Correspondence: the real functions of circuits/lcu_util.py, functionals/get_one_norm.py,
resource_estimates/utils.py, thc/compute_cost_thc.py and sparse/costing_sparse.py and the Lean Model
(OFV.Model.C19, C19Cost) are run on the same inputs (dyadic floats, exact integers) and compared exactly.
Oracle: the executable Spec predicates of OFV.Spec.C19 on the implementation's own outputs — exactness of
the two-stage alias distribution in integer arithmetic, epsilon-closeness in rational arithmetic, the
1-norm of the Jordan-Wigner image computed from the Spec action of ladder operators on Fock states
(independent of the library's transforms), brute-force minimisation for QR/QI/QR2/QI2, total = step x
iterations and monotonicity for the cost functions."""
import contextlib
import io
import itertools
import re
from fractions import Fraction

from common import Stream, budget, rng_for, to_gq, show, from_gq, canon_op_json

TRUSTED = [
    'C19: numpy.log2 / math.log(x, 2) / floor / ceil on the generated inputs (eps * n = 2^-k with k <= 28, L/M < 2^40) are exact or decided with margin; the Model uses exact integer arithmetic',
    'C19: the number of rotation bits br of compute_cost / cost_sparse (arg-min of an arccos/sin expression) is a parameter of the Model observed from the implementation (verbose output, resp. solved from the ancilla count); np.pi * lam / (2 dE) is decided with the rational enclosure 3.14159265358 < pi < 3.14159265360 (cases it does not decide are discarded and counted)',
    'C19: cost_estimator (surface-code physical costing): the failure probabilities involve irrational powers (0.1 ** 1.5) and have no Model — they are recomputed independently in the harness (plain floats from the published formulas, compared to 1e-9 relative on every candidate) and the resulting `failure <= 0.1` flags are handed to the Model of the selection loop (cases with a probability within 1e-9 of the threshold are discarded); everything else (factory dimensions, footprints, rounds, storage area, qubit counts, selection) is modelled in exact integer / rational arithmetic (Model/C19Phys.lean) and compared on every candidate',
]
ASSUMPTIONS = [
    'LCU coefficients are non-negative dyadic floats with a positive sum, 0 < epsilon < 1 dyadic; alias-table weights are non-negative integers whose sum is a multiple of their number',
    'DiagonalCoulombHamiltonian with real symmetric two_body and one_body real symmetric or Hermitian with purely imaginary off-diagonal entries (abs() is then exact); two-body integrals with the eight-fold symmetry of real orbitals, one-body real symmetric (non-symmetric real tensors: correspondence with the Model only)',
    'QR(L, M): 1 <= M <= L (the code calls sys.exit otherwise); QI(L): L >= 1; cost functions: even n >= 4, positive lam, dE, parameters for which the internal QR(d, m) is defined (d >= m)',
]
OPEN_STATEMENTS = [
    'lambda_norm: CLOSED for ALL real symmetric inputs without side condition (lambda_norm_oracle_all: the exact-run hypothesis is discharged with deletion threshold 0, where every += is exact; likewise one_norm_spec_partial_all for the Coulomb class, with and without the identity). Details: lambda_norm_spec (Model of lambda_norm = sum of |c| over the non-identity strings of the Model of jordan_wigner(DiagonalCoulombHamiltonian), all real, image acts like the Spec operator), pauli_decomposition_unique (trace orthogonality: the Spec oracle jwOneNorm of any fermionic operator equals the sum of |c| of any canonical Pauli form acting like it) and lambda_norm_oracle (jwOneNorm n (const + sum T a+a + sum V nn) false = some (lambda_norm)) hold for every n; the only hypothesis is the exact-run flag jwDCHOk of the Model transform, evaluated by the driver (c19.spec.dch_pauli_norm) on every generated real Hamiltonian. Hermitian one_body with imaginary entries: correspondence + oracle only (the Model of lambda_norm takes real matrices).',
    'one_norm_spec (get_one_norm_int(_woconst) = 1-norm of the Jordan-Wigner coefficients for eight-fold symmetric integrals): open as a theorem — pauli_decomposition_unique reduces it to reading off the coefficients of the Model image jwInteractionOp of the spin-orbital Hamiltonian (identity, Z, ZZ, hopping strings with and without an extra / missing Z, four-letter strings, with all index coincidences), which is not done. PROVED: one_norm_spec_partial — for every n, real symmetric h and Coulomb-type two-body integrals (g_pqrs = 0 unless s = p and r = q, g_pqqp = g_qppq; contains g = 0) the Model of get_one_norm_int_woconst equals the Spec oracle jwOneNorm of molOp (hypothesis: exact-run flag of the Model transform, evaluated by the driver op c19.spec.mol_coulomb on every generated Coulomb-type case); for the same class one_norm_int_spec_partial gives get_one_norm_int = jwOneNorm(..., with identity); one_norm_int_of_woconst reduces, for ALL integrals, the statement for get_one_norm_int to the one for get_one_norm_int_woconst; MISSING: exchange-type g_pqpq / g_ppqq (their opposite-spin parts are genuine four-index terms: per orbital pair the surviving Pauli words are XYYX, YXXY, XXYY, YYXX on the four spin orbitals with coefficient +-K/4 — PROVED for one orbital pair: one_norm_exchange_pair_partial — spin flip + pair hopping act like K/4 (XYYX - XXYY - YYXX + YXXY) and their Spec-oracle 1-norm is |K|; still missing: the assembly over all pairs with the density-density part (same-spin exchange turns V into (J - K)/2), pairwise different keys of the merged image and the normal form of get_one_norm_int_woconst with exchange entries) and general three- / four-index integrals. Also proved (one_norm_identity_coefficient, all integrals, no symmetry): the identity coefficient Tr(H)/4^n of the Spec operator molOp is htilde, and get_one_norm_int = |htilde| + get_one_norm_int_woconst, i.e. _woconst drops exactly the identity term (also evaluated by the driver: c19.spec.identity_coef, c19.spec.mol_op). The non-identity part is checked exactly by the Spec oracle jwOneNorm (Pauli decomposition from the Spec ladder action on all Fock states) for n_orb <= 2 (3 on a sample).',
    'mu: the Model computes the least mu with eps*n*2^mu >= 1 and that minimality is a theorem (sub_bit_precision_spec); the implementation returns mu+1 for eps*n = 2^-k with k in {29, 31, 39, 47, 51, 55, 58, 59, 62} because math.log(x, 2) is inexact there (not a violation of the property; such inputs are not generated).',
    'cost functions: PROVED beyond total = step x iterations: cost_sparse has a positive per-step cost for all parameters and its total is monotone in lam and 1/dE (sparse_total_monotone); compute_cost: per-step cost independent of lam, dE and total monotone when the per-step cost is non-negative (thc_total_monotone), which holds — the per-step cost is positive — whenever M >= 1 and beta >= 2 (thc_total_monotone_pos); QR2 / QI2 minimise over ALL k1, k2 >= 1 for table sizes <= 2^16 (qr2_global_minimiser, qi2_global_minimiser; larger tables: searched grid only).',
    'compute_cost / cost_sparse: the number of rotation bits br (arg-min of an arccos/sin expression) and np.pi are outside the theorems (parameters / rational enclosure); the ancilla counts are covered by correspondence only. cost_estimator: Model for all its integer / rational arithmetic and theorem cost_estimator_select_spec for the selection loop (first strict minimum among the feasible layouts); the failure probabilities (irrational powers) are outside the Lean Model — checked against an independent float evaluation in the harness — and no optimality statement beyond the searched grid is made.',
]


def fr(x):
    f = Fraction(x)
    return [f.numerator, f.denominator]


def frs(xs):
    return [fr(x) for x in xs]


class Batch:
    def __init__(self, ctx, stream):
        self.ctx, self.stream = ctx, stream
        self.items = []

    def add(self, case, impl, req, oracles=()):
        self.items.append((case, impl, req, list(oracles)))

    def flush(self):
        reqs = []
        for case, impl, req, oracles in self.items:
            if req is not None:
                reqs.append(req)
            reqs += [o[1] for o in oracles]
        ans = self.ctx.driver.run(reqs)
        k = 0
        for case, impl, req, oracles in self.items:
            if req is not None:
                m = ans[k]
                k += 1
                if m != impl:
                    self.stream.disagree('results differ', case, show(impl, 1500), show(m, 1500))
            for what, _r, okf in oracles:
                a = ans[k]
                k += 1
                if not okf(a):
                    self.stream.violate(what, case, {'oracle_answer': a, 'implementation': show(impl, 1500)})
        self.items = []


def is_true(a):
    return a is True


class _Timeout(Exception):
    pass


def _alarm(_signum, _frame):
    raise _Timeout()


# after this many calls of the implementation ran into the time limit the remaining calls are not
# attempted any more (they are reported as skipped): a hanging implementation must not hang the check
_MAX_TIMEOUTS = 4
_timeouts = [0]


def _call_raw(fn, *args, **kw):
    """call the implementation; a call that does not return within 15 s is reported, never waited for"""
    import signal
    if _timeouts[0] >= _MAX_TIMEOUTS:
        return None, 'Timeout(skipped)'
    old = signal.signal(signal.SIGALRM, _alarm)
    signal.setitimer(signal.ITIMER_REAL, 15)
    try:
        return fn(*args, **kw), None
    except _Timeout:
        _timeouts[0] += 1
        return None, 'Timeout(15s)'
    except SystemExit:
        return None, 'SystemExit'
    except Exception as e:  # noqa: BLE001
        return None, type(e).__name__
    finally:
        signal.setitimer(signal.ITIMER_REAL, 0)
        signal.signal(signal.SIGALRM, old)



# ---------------------------------------------------------------- hardening: state / aliasing
# (S) every call made through call() is checked for modified arguments; on a sample of the calls every mutable value
#     the first call returned is modified in place and the call is repeated with fresh equal arguments: the second
#     result must equal the first.

_H = {'stream': None, 'rng': None, 'rate': 0.0}


def harden(stream, rng, rate):
    _H['stream'], _H['rng'], _H['rate'] = stream, rng, rate
    stream.rule += ('; state checks: every call must leave its arguments unmodified, and on a sample of the calls (all of '
                    'them in the thorough tier) the returned lists / arrays / dicts / operators are modified in place and the '
                    'call is repeated with equal fresh arguments: same result required')


def b3(ctx, quick, drift, thorough):
    """budget with an intermediate level for a quick run after source drift (must stay near two minutes in total)"""
    if ctx.tier != 'quick':
        return thorough
    return drift if ctx.drift else quick


def rate_for(ctx):
    return 1.0 if (ctx.drift or ctx.tier != 'quick') else 0.3


def norm(x):
    """container- and numpy-type-insensitive normal form (tuples / arrays -> lists, numpy scalars -> Python)"""
    import numpy
    if x is None or isinstance(x, str):
        return x
    if isinstance(x, (bool, numpy.bool_)):
        return bool(x)
    if isinstance(x, (int, numpy.integer)):
        return int(x)
    if isinstance(x, (float, numpy.floating)):
        return float(x)
    if isinstance(x, (complex, numpy.complexfloating)):
        return [float(x.real), float(x.imag)]
    if isinstance(x, numpy.ndarray):
        return norm(x.tolist())
    if isinstance(x, (list, tuple, range)):
        return [norm(e) for e in x]
    if isinstance(x, dict):
        return sorted(([norm(k), norm(v)] for k, v in x.items()), key=repr)
    if hasattr(x, 'one_body') and hasattr(x, 'two_body'):
        return ['dch', norm(x.one_body), norm(x.two_body), norm(getattr(x, 'constant', None))]
    if hasattr(x, '__dict__'):
        return [type(x).__name__, norm(vars(x))]
    return repr(x)


def mutate(x):
    """modify in place every mutable value reachable from a returned object"""
    import numpy
    if isinstance(x, list):
        for e in x:
            mutate(e)
        x.reverse()
        x.append(987654321)
    elif isinstance(x, tuple):
        for e in x:
            mutate(e)
    elif isinstance(x, numpy.ndarray):
        if x.flags.writeable and x.size:
            try:
                x[...] = 1
            except Exception:  # noqa: BLE001
                pass
    elif isinstance(x, dict):
        for e in list(x.values()):
            mutate(e)
        x.clear()
    elif hasattr(x, '__dict__') and not isinstance(x, type):
        for e in list(vars(x).values()):
            mutate(e)


def enc_arg(x):
    """replayable encoding of an argument (keeps tuple / list / numpy distinctions)"""
    import numpy
    if x is None or isinstance(x, (bool, int, float, str)) and not isinstance(x, numpy.generic):
        return x
    if isinstance(x, (numpy.integer, numpy.floating)):
        return {'np': type(x).__name__, 'v': x.item()}
    if isinstance(x, tuple):
        return {'t': [enc_arg(e) for e in x]}
    if isinstance(x, list):
        return [enc_arg(e) for e in x]
    if isinstance(x, numpy.ndarray) and x.dtype.kind in 'if':
        return {'nd': str(x.dtype), 'v': x.tolist(), 'fortran': bool(x.flags.f_contiguous and x.ndim > 1)}
    return {'repr': show(norm(x), 400)}


def dec_arg(x):
    import numpy
    if isinstance(x, list):
        return [dec_arg(e) for e in x]
    if isinstance(x, dict):
        if 't' in x:
            return tuple(dec_arg(e) for e in x['t'])
        if 'np' in x:
            return getattr(numpy, x['np'])(x['v'])
        if 'nd' in x:
            a = numpy.array(x['v'], dtype=x['nd'])
            return numpy.asfortranarray(a) if x.get('fortran') else a
        raise ValueError('not replayable')
    return x


def _checked(fn, args, run, repeat=True):
    import copy
    s, rng = _H['stream'], _H['rng']
    if s is None:
        return run(args)
    try:
        snap = copy.deepcopy(args)
    except Exception:  # noqa: BLE001
        return run(args)
    before = norm(snap)
    val, exc = run(args)
    if exc is not None:
        return val, exc
    what = getattr(fn, '__name__', 'function')
    case = {'fn': what, 'module': getattr(fn, '__module__', None), 'state_check': True, 'args': [enc_arg(a) for a in snap]}
    if norm(args) != before:
        s.violate('%s modified its arguments' % what, case, {'after': show(norm(args), 600)})
    if repeat and rng.random() < _H['rate']:
        s.count('second-call-after-mutation')
        try:
            first = copy.deepcopy(val)
        except Exception:  # noqa: BLE001
            return val, exc
        mutate(val)
        if norm(args) != before:
            s.violate('%s: modifying the returned values changes the arguments (result aliases an argument)' % what, case, {})
        val2, exc2 = run(copy.deepcopy(snap))
        if exc2 is not None or norm(val2) != norm(first):
            s.violate('%s: a second call with equal arguments, after the values returned by the first call were modified '
                      'in place, gives a different result (state kept between calls / aliased results)' % what,
                      case, {'first': show(norm(first), 600), 'second': show(norm(val2), 600), 'exception': exc2})
        return first, exc
    return val, exc


def replay_state(fn, case):
    """the (S) checks of one recorded call in a fresh process -> True when they pass"""
    import copy
    args = [dec_arg(a) for a in case['args']]
    before = norm(args)
    val = fn(*args)
    if norm(args) != before:
        return False
    first = copy.deepcopy(val)
    mutate(val)
    return norm(fn(*[dec_arg(a) for a in case['args']])) == norm(first)


def call(fn, *args, **kw):
    return _checked(fn, list(args), lambda a: _call_raw(fn, *a, **kw))


# ---------------------------------------------------------------- alias tables

def stream_roulette(ctx, lcu):
    s = Stream('roulette', 'every weight list with n <= N, entries <= E (sum a multiple of n: table compared and Spec; otherwise the '
               'ValueError is compared) + random long lists (n <= 60, entries < 2^20); Spec: valid alternates, 0 <= keep <= target, '
               'two-stage distribution equals the weights exactly; non-trivial = some weight differs from the target')
    rng = rng_for(ctx.seed, 'c19-roulette')
    harden(s, rng_for(ctx.seed, 'c19-roulette-state'), rate_for(ctx) / 3)
    t = 'thorough' if ctx.drift else ctx.tier
    b = Batch(ctx, s)
    nmax, emax = budget(t, (5, 6), (6, 7))

    def one(ws):
        import numpy
        kind = rng.choice(['list', 'list', 'tuple', 'int64', 'int32', 'npint_list']) if len(ws) else 'list'
        if max(ws, default=0) >= 2 ** 31 // max(1, len(ws)):
            kind = 'list'
        arg = (list(ws) if kind == 'list' else tuple(ws) if kind == 'tuple' else [numpy.int64(w) for w in ws]
               if kind == 'npint_list' else numpy.array(ws, dtype=kind))
        res, exc = call(lcu._preprocess_for_efficient_roulette_selection, arg)
        case = {'fn': '_preprocess_for_efficient_roulette_selection', 'weights': list(ws), 'container': kind}
        s.count('container=' + kind)
        n = len(ws)
        ok_input = n > 0 and sum(ws) % n == 0
        s.case(case, nontrivial=ok_input and any(w * n != sum(ws) for w in ws))
        s.count('n=%d' % min(n, 8) + ('' if ok_input else ':invalid'))
        if exc:
            if ok_input:
                s.violate('unexpected exception ' + exc, case, {})
                return
            b.add(case, {'error': exc}, {'op': 'c19.roulette', 'ws': list(ws)})
            return
        alt, keep = [int(x) for x in res[0]], [int(x) for x in res[1]]
        impl = {'alt': alt, 'keep': keep}
        b.add(case, impl, {'op': 'c19.roulette', 'ws': list(ws)},
              [('alias table: two-stage distribution differs from the weights (or invalid alternates / keep range)',
                {'op': 'c19.spec.alias', 'ws': list(ws), 'alt': alt, 'keep': keep}, is_true)])
    one([])
    for n in range(1, nmax + 1):
        for ws in itertools.product(range(emax + 1), repeat=n):
            if sum(ws) % n == 0 or rng.random() < 0.02:
                one(ws)
    for _ in range(budget(t, 1000, 5000)):
        n = rng.choice([2, 3, 5, 8, 13, 21, 40, 60])
        kind = rng.random()
        if kind < 0.05:
            # beyond 64 bits (Python integers only)
            ws = [2 ** 70 + rng.randrange(0, 2 ** 20) for _i in range(n)]
        elif kind < 0.3:
            ws = [rng.randrange(0, 2 ** 20) for _i in range(n)]
        elif kind < 0.6:
            ws = [rng.choice([0, 0, 1, rng.randrange(0, 50)]) for _i in range(n)]
            ws[rng.randrange(n)] += rng.randrange(0, 40 * n)
        else:
            base = rng.randrange(0, 30)
            ws = [max(0, base + rng.choice([-2, -1, 0, 0, 1, 2, 5])) for _i in range(n)]
        r = sum(ws) % n
        if r:
            ws[rng.randrange(n)] += n - r
        one(ws)
    b.flush()
    return s


def rand_coeffs(rng, small=False):
    n = rng.choice([1, 2, 3, 4, 5, 6, 8, 12, 16, 17, 24, 40])
    while True:
        den = rng.choice([[1], [1, 2, 4, 8, 64], [1, 2, 4, 8, 64]])
        cs = [rng.choice([0, 1, 1, 2, 3, 5, 8, 13, 100]) / rng.choice(den) for _ in range(n)]
        if small:
            # 6e-5 .. 1.2e-7 next to O(1) coefficients
            cs = [c if rng.random() < 0.6 else rng.choice([1, 3, 5]) * 2.0 ** (-rng.randint(14, 23)) for c in cs]
        if sum(cs) > 0:
            break
    if rng.random() < 0.6:
        # make the total a power of two: every quotient c / total is then an exact float
        tot = Fraction(sum(Fraction(c) for c in cs))
        p = 1
        while p < tot:
            p *= 2
        cs[rng.randrange(n)] += float(p - tot)
    return cs


def stream_lcu(ctx, lcu):
    s = Stream('lcu-preprocessing', 'random non-negative dyadic coefficient lists (n <= 40; lists, tuples, float64 arrays, lists of '
               'numpy.float64, Python-int / int64 inputs; a fifth with coefficients 2^-14 .. 2^-23 next to O(1)) x epsilon = 2^-k '
               '(k <= 12, k <= 22 on a sample) or 3 * 2^-k given as float / numpy.float64 / numpy.float32; '
               '_discretize_probability_distribution and preprocess_lcu_coefficients_for_reversible_sampling compared exactly with the '
               'Model; Spec: numerators sum to n 2^mu and are within epsilon (rational arithmetic), two-stage sampling probability '
               'within epsilon of the normalised coefficients, valid alternates, 0 <= keep <= 2^mu; cases where a float quotient '
               'hits an exact rounding tie are discarded; non-trivial = n >= 2')
    rng = rng_for(ctx.seed, 'c19-lcu')
    harden(s, rng_for(ctx.seed, 'c19-lcu-state'), rate_for(ctx) / 2)
    t = 'thorough' if ctx.drift else ctx.tier
    b = Batch(ctx, s)
    for _ in range(budget(t, 2000, 8000)):
        small = rng.random() < 0.2
        cs = rand_coeffs(rng, small)
        # epsilon down to 2^-22 (only with coefficients that are multiples of 1/64: float rounding stays decided)
        k = rng.randint(1, 12) if small or rng.random() < 0.7 else rng.randint(13, 22)
        eps = rng.choice([1, 1, 1, 3]) / 2 ** k
        if eps >= 1:
            eps = 0.5
        n = len(cs)
        tot = sum(Fraction(c) for c in cs)
        # exactness guard: a tie of floor(x + 0.5) with an inexact float quotient is not decided by the Model
        cum, tie = Fraction(0), False
        mu_exact = 0
        while Fraction(eps) * n * 2 ** mu_exact < 1:
            mu_exact += 1
        bins = 2 ** mu_exact * n
        for c in cs:
            cum += Fraction(c)
            x = cum / tot * bins + Fraction(1, 2)
            q = cum / tot
            if x.denominator == 1 and (q.denominator & (q.denominator - 1)) != 0:
                tie = True
            # margin: the float evaluation of c / total * bins + 0.5 is within bins * 2^-50 of x
            d = x - (x.numerator // x.denominator)
            if d != 0 and min(d, 1 - d) < Fraction(bins, 2 ** 46):
                tie = True
        if tie:
            s.discards += 1
            continue
        import numpy
        integral = all(float(c).is_integer() for c in cs)
        kind = rng.choice(['list', 'list', 'tuple', 'float64', 'npfloat_list'] + (['pyint', 'int64'] if integral else []))
        arg = {'list': list(cs), 'tuple': tuple(cs), 'float64': numpy.array(cs, dtype=numpy.float64),
               'npfloat_list': [numpy.float64(c) for c in cs],
               'pyint': [int(c) for c in cs] if integral else None,
               'int64': numpy.array(cs, dtype=numpy.int64) if integral else None}[kind]
        # epsilon = j / 2^k (j in {1, 3}, k <= 22) is exact in every float type used
        ekind = rng.choice(['float', 'float', 'float64', 'float32'])
        eps_arg = {'float': eps, 'float64': numpy.float64(eps), 'float32': numpy.float32(eps)}[ekind]
        case = {'fn': 'preprocess_lcu_coefficients_for_reversible_sampling', 'lcu_coefficients': cs, 'epsilon': eps,
                'container': kind, 'epsilon_type': ekind}
        s.count('epsilon_type=' + ekind)
        s.case(case, nontrivial=n >= 2)
        s.count('n=%d' % n)
        s.count('container=' + kind)
        res, exc = call(lcu._discretize_probability_distribution, arg, eps_arg)
        if exc:
            s.violate('unexpected exception in _discretize_probability_distribution: ' + exc, case, {})
            continue
        numers, denom, mu = [int(x) for x in res[0]], int(res[1]), int(res[2])
        b.add(dict(case, fn='_discretize_probability_distribution'), {'numers': numers, 'denom': denom, 'mu': mu},
              {'op': 'c19.discretize', 'probs': frs(cs), 'eps': fr(eps)},
              [('discretisation: numerators do not sum to n 2^mu or are not within epsilon',
                {'op': 'c19.spec.discretize', 'probs': frs(cs), 'eps': fr(eps), 'numers': numers, 'denom': denom, 'mu': mu},
                is_true)])
        res, exc = call(lcu.preprocess_lcu_coefficients_for_reversible_sampling, arg, eps_arg)
        if exc:
            s.violate('unexpected exception ' + exc, case, {})
            continue
        alt, keep, mu2 = [int(x) for x in res[0]], [int(x) for x in res[1]], int(res[2])
        b.add(case, {'alt': alt, 'keep': keep, 'mu': mu2}, {'op': 'c19.preprocess', 'coeffs': frs(cs), 'eps': fr(eps)},
              [('alias sampling probability is not within epsilon of the normalised coefficients (or invalid table)',
                {'op': 'c19.spec.lcu', 'coeffs': frs(cs), 'eps': fr(eps), 'alt': alt, 'keep': keep, 'mu': mu2}, is_true),
               ('alias table does not reproduce the discretised distribution exactly',
                {'op': 'c19.spec.alias', 'ws': numers, 'alt': alt, 'keep': keep}, is_true)])
    b.flush()
    return s


# ---------------------------------------------------------------- 1-norms

VALS = [-2, -1.5, -1, -0.5, -0.25, 0, 0, 0.25, 0.5, 0.75, 1, 2]


VALS_INT = [-3, -2, -1, -1, 0, 0, 1, 1, 2, 3, 5, 7]


def sym_matrix(rng, n, vals=VALS):
    import numpy
    m = numpy.zeros((n, n))
    for p in range(n):
        for q in range(p, n):
            m[p, q] = m[q, p] = rng.choice(vals)
    return m


def as_dtype(rng, arr, kind):
    """the same (integer- or dyadic-valued) array as the requested numpy dtype / memory layout"""
    import numpy
    a = arr.astype({'float64': numpy.float64, 'float32': numpy.float32, 'int64': numpy.int64,
                    'int32': numpy.int32, 'complex128': numpy.complex128}[kind])
    r = rng.random()
    if r < 0.25:
        a = numpy.asfortranarray(a)
    elif r < 0.4 and a.ndim >= 1 and a.size:
        # a non-contiguous view (every second entry of an array twice as large in every direction)
        big = numpy.full(tuple(2 * d for d in a.shape), 77, dtype=a.dtype)
        view = big[tuple(slice(None, None, 2) for _ in a.shape)]
        view[...] = a
        a = view
    return a


def sym8_tensor(rng, n, vals_set=VALS):
    """two_body[p, q, r, s] (OpenFermion order) from chemist integrals (ps|qr) with eight-fold symmetry"""
    import numpy
    G = numpy.zeros((n,) * 4)
    vals = {}
    for p, q, r, s in itertools.product(range(n), repeat=4):
        key = min([(p, q, r, s), (q, p, r, s), (p, q, s, r), (q, p, s, r), (r, s, p, q), (s, r, p, q), (r, s, q, p), (s, r, q, p)])
        if key not in vals:
            vals[key] = rng.choice(vals_set)
        G[p, q, r, s] = vals[key]
    return numpy.ascontiguousarray(G.transpose(0, 2, 3, 1))


def enc_ferm(terms):
    """{((index, action), ...): coefficient} -> protocol operator (terms with coefficient 0 dropped)"""
    return [[[[int(i), int(a)] for i, a in t], to_gq(c)] for t, c in terms.items() if c != 0]


def dch_terms(T, V, const):
    """the operator of the class docstring: sum T_pq a+_p a_q + sum V_pq a+_p a_p a+_q a_q + constant"""
    n = T.shape[0]
    terms = {}
    if const:
        terms[()] = complex(const) if complex(const).imag else complex(const).real
    for p in range(n):
        for q in range(n):
            if T[p, q] != 0:
                c = complex(T[p, q])
                terms[((p, 1), (q, 0))] = c if c.imag else c.real
            if V[p, q] != 0:
                terms[((p, 1), (p, 0), (q, 1), (q, 0))] = float(V[p, q])
    return terms


def mol_terms(const, h, g):
    """constant + sum h_pq a+_{p s} a_{q s} + 1/2 sum g_pqrs a+_{p s} a+_{q t} a_{r t} a_{s s}; spin orbital 2p + s"""
    n = h.shape[0]
    terms = {}
    if const:
        terms[()] = float(const)
    for p, q in itertools.product(range(n), repeat=2):
        for sp in (0, 1):
            if h[p, q] != 0:
                terms[((2 * p + sp, 1), (2 * q + sp, 0))] = float(h[p, q])
    for p, q, r, s_ in itertools.product(range(n), repeat=4):
        if g[p, q, r, s_] == 0:
            continue
        for sp, tp in itertools.product((0, 1), repeat=2):
            t = ((2 * p + sp, 1), (2 * q + tp, 1), (2 * r + tp, 0), (2 * s_ + sp, 0))
            terms[t] = terms.get(t, 0.0) + 0.5 * float(g[p, q, r, s_])
    return terms


def stream_norms(ctx, of, lcu, gon):
    import numpy
    s = Stream('one-norms', 'lambda_norm on random real symmetric DiagonalCoulombHamiltonians (n <= 10, 17 thorough; one_body as float64 / '
               'float32 / complex128, C or Fortran order; also Hermitian one_body with purely imaginary off-diagonal entries: Model on '
               'the moduli; complex constants; entries 2^-14 .. 2^-23 next to O(1); the same object re-queried after *=, /= and entry '
               'edits) and get_one_norm_int / _woconst on random eight-fold symmetric integrals (n_orb <= 4, 5 thorough) '
               'given as float64 / float32 (dyadic entries) or int64 / int32 numpy arrays (odd integer entries; Python lists are '
               'rejected by the code: no .shape), constants as float / numpy.float64 / int, MolecularData-like wrappers re-queried '
               'after in-place edits, and on arbitrary non-symmetric real tensors (Model only); compared exactly with the Model; '
               'Spec: the returned number equals the sum of |c_P| of the Pauli decomposition of the fermionic Hamiltonian computed '
               'from the Spec action of ladder operators on all Fock states (n <= 5 qubits for DCH, n_orb <= 2, a few n_orb = 3); '
               'non-trivial = at least 2 orbitals')
    rng = rng_for(ctx.seed, 'c19-norms')
    harden(s, rng_for(ctx.seed, 'c19-norms-state'), rate_for(ctx))
    t = 'thorough' if ctx.drift else ctx.tier
    b = Batch(ctx, s)

    def exact_eq(x):
        return lambda a: a is not None and Fraction(a[0], a[1]) == x

    def small_vals(vals):
        # 6e-5 .. 1.2e-7 next to the O(1) entries
        return list(vals) + [rng.choice([1, -1, 3]) * 2.0 ** (-rng.randint(14, 23)) for _i in range(5)]

    def query_lambda(H, case):
        """lambda_norm of the CURRENT content of H against the Model and the Jordan-Wigner oracle"""
        n = H.one_body.shape[0]
        val, exc = call(lcu.lambda_norm, H)
        s.case(case, nontrivial=n >= 2)
        s.count('lambda_norm:n=%d' % n)
        if exc:
            s.violate('unexpected exception ' + exc, case, {})
            return
        x = Fraction(float(val))
        one_c, two = numpy.array(H.one_body), numpy.array(H.two_body)
        # purely imaginary Hermitian off-diagonal entries: abs() of the code is exact; the Model is evaluated on the moduli
        # (diagonal real), the oracle on the operator itself
        one_m = numpy.where(one_c.real != 0, one_c.real, numpy.abs(one_c.imag)) if numpy.iscomplexobj(one_c) else one_c
        orc = []
        if n <= 5:
            terms = dch_terms(one_c, two, 0)
            orc.append(('lambda_norm differs from the 1-norm of the non-identity Jordan-Wigner coefficients',
                        {'op': 'c19.spec.jw_norm', 'n': n, 'operator': enc_ferm(terms), 'with_id': False}, exact_eq(x)))
        if not (numpy.iscomplexobj(one_c) and one_c.imag.any()):
            # lambda_norm_spec: on an exact run of the Model's jordan_wigner(DiagonalCoulombHamiltonian) the 1-norm of its
            # non-identity coefficients is the Model's lambda_norm; the driver evaluates the hypothesis and that norm
            def jw_ok(a, x=x):
                if not isinstance(a, dict):
                    return False
                if a.get('ok') is not True:
                    s.count('lambda_norm:jw-model-run-not-exact')
                    return True
                return a.get('real') is True and Fraction(a['norm'][0], a['norm'][1]) == x
            s.count('lambda_norm:jw-model-norm')
            orc.append(('lambda_norm differs from the 1-norm of the non-identity strings of the Model of '
                        'jordan_wigner(DiagonalCoulombHamiltonian) (lambda_norm_spec)',
                        {'op': 'c19.spec.dch_pauli_norm', 'one': [frs(r) for r in one_m.tolist()],
                         'two': [frs(r) for r in two.tolist()], 'const': to_gq(complex(H.constant))}, jw_ok))
        b.add(case, fr(x), {'op': 'c19.lambda_norm', 'one': [frs(r) for r in one_m.tolist()], 'two': [frs(r) for r in two.tolist()]},
              orc)
    for _ in range(b3(ctx, 300, 800, 1500)):
        n = rng.choice([1, 2, 2, 3, 3, 4, 5, 5, 6, 9, b3(ctx, 10, 12, 17)])
        vals = rng.choice([VALS, VALS, VALS_INT])
        if rng.random() < 0.25:
            vals = small_vals(vals)
        T, V = sym_matrix(rng, n, vals), sym_matrix(rng, n, vals)
        const = rng.choice([0.0, 0.5, -1.25, 0.5 + 0.25j, 2j])
        # one_body may be float64 / float32 / complex (real values); two_body must be float64 (checked by the class);
        # integer one_body is rejected by the class itself (in-place += of a float diagonal)
        kind = rng.choice(['float64', 'float64', 'float32', 'complex128', 'complex128'])
        if kind == 'float32' and vals is not VALS and vals is not VALS_INT:
            kind = 'float64'
        T_in = as_dtype(rng, T, kind)
        imag = kind == 'complex128' and rng.random() < 0.5
        if imag:
            # Hermitian with purely imaginary off-diagonal entries (zero real part)
            T_in = numpy.array(T_in)
            for p_ in range(n):
                for q_ in range(p_ + 1, n):
                    T_in[p_, q_], T_in[q_, p_] = 1j * T[p_, q_], -1j * T[p_, q_]
        case = {'fn': 'lambda_norm', 'one_body': T.tolist(), 'two_body': V.tolist(), 'constant': [const.real, const.imag],
                'one_body_dtype': kind, 'imaginary_offdiagonal': imag}
        try:
            H = of.DiagonalCoulombHamiltonian(T_in, as_dtype(rng, V, 'float64'), constant=const)
        except Exception as e:  # noqa: BLE001
            s.violate('DiagonalCoulombHamiltonian rejects a Hermitian / real symmetric input: ' + type(e).__name__, case, {})
            continue
        s.count('lambda_norm:dtype=' + kind + (':imaginary' if imag else ''))
        query_lambda(H, case)
        # the same object edited in place must be answered according to its new content
        if rng.random() < 0.3:
            how = rng.choice(['*=2', '/=4', 'entry', 'two_body'])
            try:
                if how == '*=2':
                    H *= 2
                elif how == '/=4':
                    H /= 4
                elif how == 'entry' and n >= 2:
                    p_, q_ = rng.sample(range(n), 2)
                    H.one_body[p_, q_] = H.one_body[q_, p_] = 3.5
                    H.one_body[p_, p_] = -0.75
                elif n >= 2:
                    p_, q_ = rng.sample(range(n), 2)
                    H.two_body[p_, q_] = H.two_body[q_, p_] = -2.25
                else:
                    continue
            except Exception:  # noqa: BLE001
                continue
            s.count('lambda_norm:edited-in-place:' + how)
            query_lambda(H, {'fn': 'lambda_norm', 'edited_in_place': how, 'one_body': norm(H.one_body), 'two_body': norm(H.two_body),
                             'dtype': str(H.one_body.dtype)})
    n3 = 0

    def query_one_norm(const, h, g, kind_h, kind_g, via, symmetric, extra=None, mol=None, arrays=None):
        """get_one_norm_int(_woconst) (or the MolecularData wrappers) against the Model and the Jordan-Wigner oracle"""
        nonlocal n3
        n = h.shape[0]
        ckind = 'float'
        if via == 'mol':
            a, e1 = call(gon.get_one_norm_mol, mol)
            w, e2 = call(gon.get_one_norm_mol_woconst, mol)
        else:
            ckind = rng.choice(['float', 'float', 'float64', 'int' if float(const).is_integer() else 'float'])
            c_arg = numpy.float64(const) if ckind == 'float64' else int(const) if ckind == 'int' else const
            if arrays is not None:
                # the caller's own array objects (the same objects are passed to both functions, and again after edits)
                a, e1 = call(gon.get_one_norm_int, c_arg, arrays[0], arrays[1])
                w, e2 = call(gon.get_one_norm_int_woconst, arrays[0], arrays[1])
            else:
                a, e1 = call(gon.get_one_norm_int, c_arg, as_dtype(rng, h, kind_h), as_dtype(rng, g, kind_g))
                w, e2 = call(gon.get_one_norm_int_woconst, as_dtype(rng, h, kind_h), as_dtype(rng, g, kind_g))
        case = {'fn': 'get_one_norm_int', 'constant': const, 'one_body_integrals': h.tolist(), 'two_body_integrals': g.tolist(),
                'dtypes': [kind_h, kind_g], 'via': via, 'constant_type': ckind, 'symmetric': symmetric}
        if extra:
            case.update(extra)
        s.count('get_one_norm:via=' + via)
        s.case(case, nontrivial=n >= 2)
        s.count('get_one_norm:n_orb=%d' % n + ('' if symmetric else ':non-symmetric'))
        s.count('get_one_norm:dtypes=%s/%s' % (kind_h, kind_g))
        if e1 or e2:
            s.violate('unexpected exception %s' % (e1 or e2), case, {})
            return
        xa, xw = Fraction(float(a)), Fraction(float(w))
        hj = [frs(r) for r in h.tolist()]
        gj = [[[frs(r) for r in m] for m in blk] for blk in g.tolist()]
        orc_a, orc_w = [], []
        if symmetric and (n <= 2 or (n == 3 and n3 < b3(ctx, 2, 5, 10))):
            n3 += (n == 3)
            terms = enc_ferm(mol_terms(const, h, g))
            orc_a.append(('get_one_norm_int differs from the 1-norm of all Jordan-Wigner coefficients',
                          {'op': 'c19.spec.jw_norm', 'n': 2 * n, 'operator': terms, 'with_id': True}, exact_eq(xa)))
            orc_w.append(('get_one_norm_int_woconst differs from the 1-norm of the non-identity Jordan-Wigner coefficients',
                          {'op': 'c19.spec.jw_norm', 'n': 2 * n, 'operator': terms, 'with_id': False}, exact_eq(xw)))
        if n <= 2 or (n == 3 and n3 <= b3(ctx, 2, 5, 10)):
            # one_norm_identity_coefficient (no symmetry needed): get_one_norm_int - get_one_norm_int_woconst is the modulus
            # of the identity coefficient Tr(H) / 4^n of the Spec operator molOp; molOp itself is compared with the
            # operator built here (mol_terms) as a set of terms
            def ident_ok(ans, d=xa - xw, n=n):
                re_, im_ = from_gq(ans)
                return im_ == 0 and abs(re_) / 4 ** n == d
            s.count('get_one_norm:identity-coefficient')
            orc_a.append(('get_one_norm_int - get_one_norm_int_woconst is not the modulus of the identity coefficient of the '
                          'Pauli decomposition (trace of the Spec operator over all Fock states)',
                          {'op': 'c19.spec.identity_coef', 'const': fr(const), 'h': hj, 'g': gj}, ident_ok))
            if n <= 2:
                want = canon_op_json(enc_ferm(mol_terms(const, h, g)))

                def molop_ok(ans, want=want):
                    try:
                        got = [e for e in canon_op_json(ans) if e[1] != (0, 0)]
                    except Exception:  # noqa: BLE001
                        return False
                    return tuple(got) == tuple(e for e in want if e[1] != (0, 0))
                orc_a.append(('Spec.C19.molOp differs from the operator constant + h a+a + 1/2 g a+a+aa built by the harness',
                              {'op': 'c19.spec.mol_op', 'const': fr(const), 'h': hj, 'g': gj}, molop_ok))
        b.add(case, fr(xa), {'op': 'c19.one_norm', 'const': fr(const), 'h': hj, 'g': gj, 'woconst': False}, orc_a)
        if extra and extra.get('coulomb_type'):
            # one_norm_spec_partial: hypothesis (exact run of the Model transform on the spin-orbital matrices) and the
            # 1-norm of the Model image, for every size
            def coul_ok(ans, xw=xw):
                if not isinstance(ans, dict):
                    return False
                if ans.get('ok') is not True:
                    s.count('get_one_norm:coulomb-type:jw-model-run-not-exact')
                    return True
                return Fraction(ans['norm'][0], ans['norm'][1]) == xw
            s.count('get_one_norm:coulomb-type')
            orc_w.append(('get_one_norm_int_woconst differs from the 1-norm of the non-identity strings of the Model '
                          'Jordan-Wigner image of the spin-orbital Hamiltonian (one_norm_spec_partial)',
                          {'op': 'c19.spec.mol_coulomb', 'const': fr(const), 'h': hj, 'g': gj}, coul_ok))
        b.add(dict(case, fn='get_one_norm_int_woconst'), fr(xw), {'op': 'c19.one_norm', 'h': hj, 'g': gj, 'woconst': True}, orc_w)
    for _ in range(b3(ctx, 200, 500, 1000)):
        n = rng.choice([1, 2, 2, 2, 3, 3, b3(ctx, 4, 4, 5)])
        # integer-valued integrals are also given as numpy integer arrays (the accumulators of the code must not
        # inherit the integer dtype: 1/2 * g would be truncated), dyadic ones as float64 / float32
        # complex128: complex-typed arrays holding real integrals
        kind_h = rng.choice(['float64', 'float64', 'int64', 'int32', 'float32', 'complex128'])
        kind_g = rng.choice([kind_h, kind_h, 'float64', 'int64', 'complex128'])
        ints = kind_h.startswith('int') or kind_g.startswith('int') or rng.random() < 0.2
        vals = VALS_INT if ints else VALS
        if not ints and kind_h == 'float64' and kind_g == 'float64' and rng.random() < 0.4:
            vals = small_vals(vals)
        symmetric = rng.random() < 0.8
        coulomb = symmetric and rng.random() < 0.3
        if coulomb:
            # Coulomb-type ("density-density") integrals: g[p, q, q, p] = J[p, q] symmetric, every other entry 0
            # (the class of one_norm_spec_partial; contains g = 0)
            h, J = sym_matrix(rng, n, vals), sym_matrix(rng, n, vals if rng.random() < 0.8 else [0])
            g = numpy.zeros((n,) * 4)
            for p_ in range(n):
                for q_ in range(n):
                    g[p_, q_, q_, p_] = J[p_, q_]
        elif symmetric:
            h, g = sym_matrix(rng, n, vals), sym8_tensor(rng, n, vals)
        else:
            # (A) arbitrary real tensors (no symmetry): Model only (the function is then not the 1-norm of an operator)
            h = numpy.array([[rng.choice(vals) for _q in range(n)] for _p in range(n)], dtype=float)
            g = numpy.array([rng.choice(vals) for _i in range(n ** 4)], dtype=float).reshape((n,) * 4)
        const = rng.choice([0.0, 0.5, -1.25, 2.0]) if not ints else rng.choice([0, 1, -2, 0.5])
        via = rng.choice(['int', 'int', 'mol'])
        mol = None
        if via == 'mol':
            # the MolecularData wrappers only read three attributes
            import types
            mol = types.SimpleNamespace(nuclear_repulsion=const, one_body_integrals=as_dtype(rng, h, kind_h),
                                        two_body_integrals=as_dtype(rng, g, kind_g))
        arrays = None
        if via == 'int' and kind_h == 'float64' and kind_g == 'float64' and rng.random() < 0.4:
            arrays = (as_dtype(rng, h, kind_h), as_dtype(rng, g, kind_g))
        query_one_norm(const, h, g, kind_h, kind_g, via, symmetric, {'coulomb_type': True} if coulomb else None, mol=mol,
                       arrays=arrays)
        if arrays is not None:
            # the caller's arrays edited in place and passed again (same objects): answers must follow the new content
            p_ = rng.randrange(n)
            arrays[0][p_, p_] += 1.5
            arrays[1][p_, p_, p_, p_] -= 0.75
            s.count('get_one_norm:arrays-edited-in-place')
            query_one_norm(const, numpy.array(arrays[0]), numpy.array(arrays[1]), kind_h, kind_g, via, symmetric,
                           {'edited_in_place': True}, arrays=arrays)
        if mol is not None and kind_h == 'float64' and kind_g == 'float64' and rng.random() < 0.5:
            # the same object edited in place is answered according to its new content
            p_ = rng.randrange(n)
            mol.one_body_integrals[p_, p_] += 1.5
            mol.two_body_integrals[p_, p_, p_, p_] -= 0.75
            mol.nuclear_repulsion = const + 1.0
            s.count('get_one_norm:edited-in-place')
            query_one_norm(mol.nuclear_repulsion, numpy.array(mol.one_body_integrals), numpy.array(mol.two_body_integrals),
                           kind_h, kind_g, via, symmetric, {'edited_in_place': True}, mol=mol)
    b.flush()
    return s


# ---------------------------------------------------------------- QROM helpers

def stream_qrom(ctx, ut):
    s = Stream('qrom-helpers', 'QR(L, M) for all 1 <= M <= L <= N and random L < 2^24; QI(L) for all L <= N2 and random; QR2 / QI2 on random '
               'arguments in both orders (L1, L2) and (L2, L1); arguments as Python int / numpy.int64 / numpy.int32; power_two(m) for all m <= 4096 and random; compared exactly with the Model; Spec: k minimises the cost '
               'over all 0 <= k <= 24 and the value is the ceiling of the minimum; (2^k1, 2^k2) minimises over the 16 x 16 grid; '
               '2-adic valuation; non-trivial = L > M')
    rng = rng_for(ctx.seed, 'c19-qrom')
    harden(s, rng_for(ctx.seed, 'c19-qrom-state'), rate_for(ctx) / 3)
    t = 'thorough' if ctx.drift else ctx.tier
    b = Batch(ctx, s)

    def npint(x):
        import numpy
        r = rng.random()
        return numpy.int64(x) if r < 0.15 else numpy.int32(x) if r < 0.25 and x < 2 ** 31 else x

    def qr_case(L, M):
        res, exc = call(ut.QR, npint(L), npint(M))
        case = {'fn': 'QR', 'L': L, 'M': M}
        s.case(case, nontrivial=L > M)
        s.count('QR')
        if exc:
            if L >= M >= 1:
                s.violate('unexpected exception ' + exc, case, {})
            else:
                b.add(case, None, {'op': 'c19.qr', 'L': L, 'M': M})
            return
        k, v = int(res[0]), int(res[1])
        b.add(case, [k, v], {'op': 'c19.qr', 'L': L, 'M': M},
              [('QR: k is not a minimiser of L/2^k + M(2^k-1) or the value is not its ceiling',
                {'op': 'c19.spec.qr', 'L': L, 'M': M, 'k': k, 'val': v, 'bound': 24}, is_true)])
    nmax = budget(t, 70, 300)
    for L in range(1, nmax + 1):
        for M in range(1, L + 1):
            qr_case(L, M)
    for _ in range(budget(t, 600, 6000)):
        L = rng.randrange(1, 2 ** rng.choice([8, 12, 16, 20, 24]))
        M = rng.randrange(1, max(2, min(L, 2 ** rng.choice([3, 6, 10, 14])) + 1))
        if rng.random() < 0.15:
            # exact powers of four: floor = ceil
            M = rng.randrange(1, 200)
            L = M * 4 ** rng.randrange(0, 8)
        qr_case(L, min(M, L))
    qr_case(3, 5)

    def qi_case(L):
        res, exc = call(ut.QI, npint(L))
        case = {'fn': 'QI', 'L': L}
        s.case(case, nontrivial=L > 1)
        s.count('QI')
        if exc:
            s.violate('unexpected exception ' + exc, case, {})
            return
        k, v = int(res[0]), int(res[1])
        b.add(case, [k, v], {'op': 'c19.qi', 'L': L},
              [('QI: k is not a minimiser of L/2^k + 2^k or the value is not its ceiling',
                {'op': 'c19.spec.qi', 'L': L, 'k': k, 'val': v, 'bound': 24}, is_true)])
    for L in range(1, budget(t, 1500, 6000) + 1):
        qi_case(L)
    for _ in range(budget(t, 300, 3000)):
        qi_case(rng.randrange(1, 2 ** rng.choice([12, 16, 20, 24, 30])))
    pairs = []
    for _ in range(budget(t, 100, 1000)):
        L1 = rng.randrange(1, 2 ** rng.choice([4, 8, 12, 20]))
        L2 = rng.randrange(1, 2 ** rng.choice([4, 8, 12, 20]))
        M = rng.randrange(1, 2 ** rng.choice([2, 6, 12, 17]))
        # both argument orders (L1 > L2 and L1 < L2) of the same pair
        pairs += [(L1, L2, M), (L2, L1, M)]
    for L1, L2, M in pairs:
        s.count('QR2:L1>L2' if L1 > L2 else 'QR2:L1<=L2')
        res, exc = call(ut.QR2, npint(L1), npint(L2), npint(M))
        case = {'fn': 'QR2', 'L1': L1, 'L2': L2, 'M': M}
        s.case(case)
        s.count('QR2')
        if exc:
            s.violate('unexpected exception ' + exc, case, {})
        else:
            r = [int(x) for x in res]
            b.add(case, r, {'op': 'c19.qr2', 'L1': L1, 'L2': L2, 'M': M},
                  [('QR2: not a minimiser over the searched grid',
                    {'op': 'c19.spec.grid2', 'kind': 'qr2', 'L1': L1, 'L2': L2, 'M': M, 'p1': r[0], 'p2': r[1], 'val': r[2]}, is_true)])
        res, exc = call(ut.QI2, npint(L1), npint(L2))
        case = {'fn': 'QI2', 'L1': L1, 'L2': L2}
        s.case(case)
        s.count('QI2')
        if exc:
            s.violate('unexpected exception ' + exc, case, {})
        else:
            r = [int(x) for x in res]
            b.add(case, r, {'op': 'c19.qi2', 'L1': L1, 'L2': L2},
                  [('QI2: not a minimiser over the searched grid',
                    {'op': 'c19.spec.grid2', 'kind': 'qi2', 'L1': L1, 'L2': L2, 'p1': r[0], 'p2': r[1], 'val': r[2]}, is_true)])
    for m in list(range(0, budget(t, 2049, 4097))) + [rng.randrange(1, 2 ** 40) * 2 ** rng.randrange(0, 20) for _ in range(200)]:
        res, exc = call(ut.power_two, npint(m))
        case = {'fn': 'power_two', 'm': m}
        s.case(case, nontrivial=m > 0 and m % 2 == 0)
        s.count('power_two')
        if exc:
            s.violate('unexpected exception ' + exc, case, {})
            continue
        b.add(case, int(res), {'op': 'c19.power_two', 'm': m},
              [('power_two: not the 2-adic valuation', {'op': 'c19.spec.power_two', 'm': m, 'c': int(res)}, is_true)])
    b.flush()
    return s


# ---------------------------------------------------------------- cost functions

def thc_with_br(compute_cost, n, lam, dE, chi, beta, M, stps):
    buf = io.StringIO()
    try:
        with contextlib.redirect_stdout(buf):
            res = compute_cost(n, lam, dE, chi, beta, M, stps, verbose=True)
    except SystemExit:
        return None, None, 'SystemExit'
    except Exception as e:  # noqa: BLE001
        return None, None, type(e).__name__
    m = re.search(r'\[\+\] br =\s+(\d+)', buf.getvalue())
    return res, (int(m.group(1)) if m else None), None


def stream_costs(ctx, thc_cost, sparse_cost):
    s = Stream('cost-functions', 'compute_cost (THC) and cost_sparse on the parameter sets of the repository tests and a lattice / random '
               'sample of integer parameters with dyadic lam, dE (Python numbers, numpy.int64 / float64 scalars, integral lam as int); br observed from the implementation; (step, total, ancilla) compared '
               'exactly with the Model; Spec: total = step x iterations (iterations from the enclosure of pi), total and iterations '
               'monotone in lam and 1/dE on chains of 4 values; non-trivial = every case')
    rng = rng_for(ctx.seed, 'c19-costs')
    harden(s, rng_for(ctx.seed, 'c19-costs-state'), rate_for(ctx))
    t = 'thorough' if ctx.drift else ctx.tier
    b = Batch(ctx, s)

    def typed(params, lam_pos, de_pos):
        """the same parameters as numpy scalars (int64 / float64) or with an integral lam as a Python int"""
        import numpy
        r = rng.random()
        if r < 0.6:
            return list(params), 'python'
        if r < 0.8:
            return [numpy.float64(x) if i in (lam_pos, de_pos) else numpy.int64(x) for i, x in enumerate(params)], 'numpy'
        out = list(params)
        if float(out[lam_pos]).is_integer():
            out[lam_pos] = int(out[lam_pos])
            return out, 'int-lam'
        return out, 'python'
    # iterations for the monotonicity / total checks come from the Model op c19.iters
    thc_params = [(108, 306.3, 0.001, 10, 16, 350, 20000), (152, 1201.5, 0.001, 10, 20, 450, 20000),
                  (108, 306.3, 0.001, 10, 16, 350, 10912), (152, 1201.5, 0.001, 10, 20, 450, 16923)]
    for _ in range(budget(t, 150, 800)):
        n = 2 * rng.randint(2, 100)
        M = rng.randint(8, 600)
        chi = rng.randint(5, 14)
        beta = rng.randint(6, 22)
        lam = rng.choice([1, 3, 10, 57, 306, 1201, 4000, 2.0 ** -10, 3 * 2.0 ** -14]) + rng.choice([0, 0, 0.25, 0.5, 0.75])
        dE = rng.choice([1 / 1024, 1 / 512, 1 / 256, 0.001, 0.0016, 1 / 64, 2.0 ** -17])
        thc_params.append((n, lam, dE, chi, beta, M, rng.choice([1000, 20000, 50000])))
    chains = []
    for (n, lam, dE, chi, beta, M, stps) in thc_params:
        targs, tkind = typed((n, lam, dE, chi, beta, M, stps), 1, 2)
        (res, br), exc = _checked(thc_cost, targs, lambda a_: (lambda r3: ((r3[0], r3[1]), r3[2]))(thc_with_br(thc_cost, *a_)))
        case = {'fn': 'thc.compute_cost', 'n': n, 'lam': lam, 'dE': dE, 'chi': chi, 'beta': beta, 'M': M, 'stps': stps,
                'argument_types': tkind}
        s.count('argument_types=' + tkind)
        if exc == 'SystemExit':
            s.discards += 1
            continue
        s.case(case)
        s.count('compute_cost')
        if exc or br is None:
            s.violate('unexpected exception %s' % exc, case, {})
            continue
        impl = [int(x) for x in res]
        case['br_observed'] = br
        b.add(case, impl, {'op': 'c19.thc', 'n': n, 'lam': fr(lam), 'dE': fr(dE), 'chi': chi, 'beta': beta, 'M': M, 'br': br})
        chains.append(('thc', (n, lam, dE, chi, beta, M, stps), impl))
    sparse_params = [(108, 2135.3, 705831, 0.001, 10, 20000), (152, 1547.3, 440501, 0.001, 10, 20000),
                     (108, 2135.3, 705831, 0.001, 10, 26347), (152, 1547.3, 440501, 0.001, 10, 18143)]
    for _ in range(budget(t, 150, 800)):
        n = 2 * rng.randint(2, 100)
        d = rng.randrange(64, 2 ** rng.choice([8, 12, 16, 20])) * 2 ** rng.choice([0, 0, 1, 3, 5])
        chi = rng.randint(5, 14)
        lam = rng.choice([1, 3, 10, 57, 306, 1547, 4000, 2.0 ** -10, 3 * 2.0 ** -14]) + rng.choice([0, 0, 0.25, 0.5, 0.75])
        dE = rng.choice([1 / 1024, 1 / 512, 1 / 256, 0.001, 0.0016, 1 / 64, 2.0 ** -17])
        sparse_params.append((n, lam, d, dE, chi, rng.choice([1000, 20000, 50000])))
    pending = []
    for (n, lam, d, dE, chi, stps) in sparse_params:
        targs, tkind = typed((n, lam, d, dE, chi, stps), 1, 3)
        res, exc = call(sparse_cost, *targs)
        case = {'fn': 'cost_sparse', 'n': n, 'lam': lam, 'd': d, 'dE': dE, 'chi': chi, 'stps': stps, 'argument_types': tkind}
        s.count('argument_types=' + tkind)
        s.case(case)
        s.count('cost_sparse')
        if exc:
            s.violate('unexpected exception ' + exc, case, {})
            continue
        impl = [int(x) for x in res]
        pending.append((case, impl, (n, lam, d, dE, chi)))
        chains.append(('sparse', (n, lam, d, dE, chi, stps), impl))
    # br of cost_sparse: solved from the ancilla count with the Model evaluated at br = 0
    if pending:
        base = ctx.driver.run([{'op': 'c19.sparse', 'n': p[2][0], 'lam': fr(p[2][1]), 'd': p[2][2], 'dE': fr(p[2][3]),
                                'chi': p[2][4], 'br': 0} for p in pending])
        for (case, impl, (n, lam, d, dE, chi)), m0 in zip(pending, base):
            if m0 is None:
                s.discards += 1
                continue
            br = impl[2] - m0[2]
            case['br_solved_from_ancilla'] = br
            if not 3 <= br <= 22:
                s.disagree('ancilla count of cost_sparse is not Model + br with 3 <= br <= 22', case, impl, m0)
                continue
            b.add(case, impl, {'op': 'c19.sparse', 'n': n, 'lam': fr(lam), 'd': d, 'dE': fr(dE), 'chi': chi, 'br': br})
    b.flush()
    # oracle: total = step * iterations; monotone chains in lam and 1/dE (stps and the other parameters fixed)
    it_reqs, it_cases = [], []
    for kind, p, impl in chains:
        lam, dE = (p[1], p[2]) if kind == 'thc' else (p[1], p[3])
        it_reqs.append({'op': 'c19.iters', 'lam': fr(lam), 'dE': fr(dE)})
        it_cases.append((kind, p, impl))
    its = ctx.driver.run(it_reqs) if it_reqs else []
    for (kind, p, impl), it in zip(it_cases, its):
        if it is None:
            s.discards += 1
            continue
        s.count('oracle:total=step*iters')
        if impl[1] != impl[0] * it:
            s.violate('%s: total cost is not per-step cost times the iteration count' % kind,
                      {'fn': kind, 'params': list(p)}, {'result': impl, 'iterations': it})
    nchain = budget(t, 12, 80)
    for _ in range(nchain):
        kind = rng.choice(['thc', 'sparse'])
        lam0 = rng.choice([3, 57, 306, 1201]) + 0.5
        dE0 = rng.choice([1 / 1024, 1 / 256, 0.001])
        vary = rng.choice(['lam', 'dE'])
        vals = []
        for step in range(4):
            lam = lam0 * (1 + step * rng.choice([0.0, 0.25, 1.0])) if vary == 'lam' else lam0
            dE = dE0 / (1 + step * rng.choice([0.0, 0.5, 1.0])) if vary == 'dE' else dE0
            if kind == 'thc':
                res, _br, exc = thc_with_br(thc_cost, 108, lam, dE, 10, 16, 350, 20000)
            else:
                res, exc = call(sparse_cost, 108, lam, 705831, dE, 10, 20000)
            if exc:
                break
            vals.append((lam, dE, [int(x) for x in res]))
        s.case({'fn': kind + ' monotone chain', 'vary': vary, 'values': [(v[0], v[1]) for v in vals]})
        s.count('oracle:monotone-chain')
        for (l1, d1, r1), (l2, d2, r2) in zip(vals, vals[1:]):
            if (l2 >= l1 and d2 <= d1) and r2[1] < r1[1]:
                s.violate('%s: total cost decreases when lam or 1/dE grows' % kind,
                          {'fn': kind, 'first': [l1, d1], 'second': [l2, d2]}, {'totals': [r1[1], r2[1]]})
    return s


# ---- independent float evaluation of the failure model of physical_costing.py (formulas of the module docstrings /
# arXiv:1808.06709, 1905.06903), NOT calling the helpers of the module

def topo_cell(dist, p_err):
    return 0.1 * (100 * p_err) ** ((dist + 1) / 2)


def autoccz_error(l1, l2, p_err):
    l0_total = p_err + 100 * topo_cell(l1 // 2, p_err)
    l1_total = 35 * l0_total ** 3 + 1100 * topo_cell(l1, p_err)
    return 1000 * topo_cell(l2, p_err) + 28 * l1_total ** 2


def factory_specs(p_err):
    """(l1, l2) of every factory of iter_known_factories(p_err), (0, 0) for the two-level T factory"""
    specs = [(0, 0)] if p_err == 0.001 else []
    return specs + [(l1, l2) for l1 in range(5, 25, 2) for l2 in range(l1 + 2, 41, 2)]


def factory_failure(spec, p_err):
    return 4 * 9 * 10 ** -17 if tuple(spec) == (0, 0) else autoccz_error(spec[0], spec[1], p_err)


def failure(nq, nt, dist, spec, f_rounds, p_err, portion, routing, fcount):
    import math
    storage = int(math.ceil(nq * (1 + routing)))
    rounds = int(nt / fcount * f_rounds)
    data = portion * topo_cell(dist, p_err) * storage * rounds
    return min(1.0, data + factory_failure(spec, p_err) * nt)


# datetime.timedelta.max in microseconds
TIMEDELTA_MAX_US = (999999999 * 86400 + 86399) * 10 ** 6 + 999999


def rel_close(x, y):
    return x == y or abs(x - y) <= 1e-9 * max(abs(x), abs(y))


def stream_physical(ctx, pc):
    s = Stream('physical-costing', 'deterministic arithmetic of physical_costing.py against the Model (C19Phys): '
               '_autoccz_factory_dimensions on all 125 distance pairs of the loop (width, height; depth x l2 = rounds) and the '
               'factory table of iter_known_factories (footprint, rounds) compared exactly; cost_estimator on the Toffoli / qubit '
               'counts of the repository tests and random ones (Python and numpy integers): physical qubit count and rounds of '
               'EVERY candidate layout (126 factories x 14 code distances) compared exactly with the Model, the feasibility of '
               'every candidate decided by an INDEPENDENT float evaluation of the failure model in the harness (topological error per '
               'unit cell, distillation error of the AutoCCZ / T factories, data failure; compared with the implementation to 1e-9 '
               'relative, counted as float comparisons) and handed to the Model, the selected layout compared with the Model '
               'selection loop; every crossing of physical_error_rate in {1e-3, 1e-4, 3e-3, 5e-4} x portion_of_bounding_box in '
               '{1, 0.5, 0.25, 2} (positional and keyword); joint grid physical_error_rate in {1e-3, 3e-4, 1e-4, 1e-5} x '
               'portion_of_bounding_box in {1, 0.5, 0.1, 0.05, 0.04, 0.03, 0.01} x sizes 10..10^4 qubits, 10^4..10^12 Toffolis with an '
               'independent brute-force search (candidates from integer formulas on the Model factory table, admissibility from '
               'the float model, minimiser through the Model loop; 3 sizes per cell quick, 10 after drift, 26 thorough); '
               'direct AlgorithmParameters.estimate_cost calls with other routing '
               'overheads / factory counts; Spec: the returned layout is the first strict minimum '
               'of qubits x duration among the feasible ones; non-trivial = every case')
    rng = rng_for(ctx.seed, 'c19-phys')
    harden(s, rng_for(ctx.seed, 'c19-phys-state'), rate_for(ctx))
    t = 'thorough' if ctx.drift else ctx.tier
    import datetime
    import numpy
    b = Batch(ctx, s)
    # factory dimensions and table
    for l1 in range(5, 25, 2):
        for l2 in range(l1 + 2, 41, 2):
            res, exc = call(pc._autoccz_factory_dimensions, l1, l2)
            case = {'fn': '_autoccz_factory_dimensions', 'l1_distance': l1, 'l2_distance': l2}
            s.case(case)
            s.count('_autoccz_factory_dimensions')
            if exc:
                s.violate('unexpected exception ' + exc, case, {})
                continue
            w, hgt, d = res
            # the depth is a float (may be rounded); what is used downstream is depth * l2 (rounds)
            b.add(case, [int(w), int(hgt), fr(Fraction(d * l2))], {'op': 'c19.phys.dims', 'l1': l1, 'l2': l2},
                  [])
    facs, exc = call(lambda: list(pc.iter_known_factories(physical_error_rate=1.0e-3)))
    case = {'fn': 'iter_known_factories', 'physical_error_rate': 0.001}
    s.case(case)
    if exc:
        s.violate('unexpected exception ' + exc, case, {})
        facs = []
    else:
        b.add(case, [[int(f.physical_qubit_footprint), fr(Fraction(f.rounds))] for f in facs], {'op': 'c19.phys.factories'})
    # the Model returns depth, the implementation side above recorded depth * l2: convert the Model answer
    dims_items = [it for it in b.items if it[0].get('fn') == '_autoccz_factory_dimensions']
    other_items = [it for it in b.items if it[0].get('fn') != '_autoccz_factory_dimensions']
    if dims_items:
        ans = ctx.driver.run([it[2] for it in dims_items])
        for (case, impl, _req, _o), m in zip(dims_items, ans):
            l2 = case['l2_distance']
            mm = None if m is None else [m[0], m[1], fr(Fraction(m[2][0], m[2][1]) * l2)]
            if mm != impl:
                s.disagree('factory dimensions differ', case, show(impl, 300), show(mm, 300))
    b.items = other_items
    b.flush()
    dists = list(range(7, 35, 2))

    def close(x, y):
        s.float_comparisons += 1
        return rel_close(x, y)

    def failure(nq, nt, dist, spec, f_rounds, p_err, portion, routing, fcount):
        import math
        storage = int(math.ceil(nq * (1 + routing)))
        rounds = int(nt / fcount * f_rounds)
        data = portion * topo_cell(dist, p_err) * storage * rounds
        return min(1.0, data + factory_failure(spec, p_err) * nt)

    _facs = []

    def overflow_expected(nq, nt, p_err, portion):
        """some admissible candidate has physical_qubit_count * duration beyond datetime.timedelta.max (independent
        integer / float computation, as in the joint grid below): the OverflowError of known finding F19"""
        if not _facs:
            _facs.append(ctx.driver.run([{'op': 'c19.phys.factories'}])[0])
        specs = factory_specs(p_err)
        table = _facs[0] if p_err == 0.001 else _facs[0][1:]
        storage = -((-3 * nq) // 2)
        for spec, (footprint, rnd) in zip(specs, table):
            rounds = int(Fraction(nt, 4) * Fraction(rnd[0], rnd[1]))
            ffail = factory_failure(spec, p_err)
            for dist in dists:
                qubits = storage * 2 * (dist + 1) ** 2 + 4 * footprint
                fail = min(1.0, portion * topo_cell(dist, p_err) * storage * rounds + ffail * nt)
                if fail <= 0.1 + 1e-9 and qubits * rounds > TIMEDELTA_MAX_US:
                    return True
        return False

    def one_estimator(nq, nt, p_err, portion, kind):
        """cost_estimator(nq, nt, p_err, portion): every candidate against the Model (integers) and the independent
        failure model (floats), selection through the Model fed with the independently computed feasibility flags"""
        a_nq, a_nt = (numpy.int64(nq), numpy.int64(nt)) if kind == 'int64' else (nq, nt)
        if kind == 'defaults':
            (res, exc) = call(pc.cost_estimator, a_nq, a_nt)
        elif kind == 'keywords':
            (res, exc) = call(pc.cost_estimator, a_nq, a_nt, physical_error_rate=p_err, portion_of_bounding_box=portion)
        else:
            (res, exc) = call(pc.cost_estimator, a_nq, a_nt, p_err, portion)
        case = {'fn': 'cost_estimator', 'num_logical_qubits': nq, 'num_toffoli': nt, 'physical_error_rate': p_err,
                'portion_of_bounding_box': portion, 'argument_types': kind}
        s.case(case)
        s.count('cost_estimator')
        s.count('argument_types=' + kind)
        s.count('physical_error_rate=%g' % p_err)
        s.count('portion_of_bounding_box=%g' % portion)
        if exc == 'OverflowError' and overflow_expected(nq, nt, p_err, portion):
            s.count('timedelta-overflow')
            s.violate('cost_estimator raises OverflowError: physical_qubit_count * duration of an admissible candidate '
                      'exceeds the range of datetime.timedelta', dict(case, timedelta_overflow_expected=True), {})
            return
        if exc:
            s.violate('unexpected exception ' + exc, case, {})
            return
        best, params = res
        specs = factory_specs(p_err)
        facs_p, exc = call(lambda: list(pc.iter_known_factories(physical_error_rate=p_err)))
        if exc or len(facs_p) != len(specs):
            s.violate('iter_known_factories(%g): %s' % (p_err, exc or 'unexpected number of factories'), case, {})
            return
        for spec, fac in zip(specs, facs_p):
            if not close(float(fac.failure_rate), factory_failure(spec, p_err)):
                s.violate('factory failure rate differs from the independent evaluation of the distillation error model',
                          dict(case, factory=list(spec)), {'implementation': float(fac.failure_rate),
                                                           'independent': factory_failure(spec, p_err)})
                return
        cands, feas, best_idx, ambiguous = [], [], None, False
        try:
            for spec, fac in zip(specs, facs_p):
                for dist in dists:
                    p_ = pc.AlgorithmParameters(physical_error_rate=p_err,
                                                surface_code_cycle_time=datetime.timedelta(microseconds=1),
                                                logical_data_qubit_distance=dist, magic_state_factory=fac, toffoli_count=nt,
                                                max_allocated_logical_qubits=nq, factory_count=4,
                                                routing_overhead_proportion=0.5, proportion_of_bounding_box=portion)
                    c = p_.estimate_cost()
                    us = c.duration // datetime.timedelta(microseconds=1)
                    if c.duration != datetime.timedelta(microseconds=us):
                        raise ValueError('duration is not a whole number of cycles')
                    mine = failure(nq, nt, dist, spec, float(fac.rounds), p_err, portion, 0.5, 4)
                    if not close(float(c.algorithm_failure_probability), mine):
                        s.violate('estimate_cost: algorithm_failure_probability differs from the independent evaluation '
                                  '(topological error per unit cell x storage x rounds x bounding box + distillation failure)',
                                  dict(case, factory=list(spec), logical_data_qubit_distance=dist),
                                  {'implementation': float(c.algorithm_failure_probability), 'independent': mine})
                        return
                    if abs(mine - 0.1) <= 1e-9:
                        ambiguous = True
                    if params is not None and fac == params.magic_state_factory and dist == params.logical_data_qubit_distance \
                            and best_idx is None:
                        best_idx = len(cands)
                    cands.append([int(c.physical_qubit_count), int(us)])
                    feas.append(bool(mine <= 0.1))
        except Exception as e:  # noqa: BLE001
            s.violate('estimate_cost failed on a candidate: ' + type(e).__name__, case, {})
            return
        if ambiguous:
            s.discards += 1
            s.count('failure-probability-at-threshold')
            return
        if best is None:
            s.count('no-feasible-layout')
            impl_best = None
        else:
            us = best.duration // datetime.timedelta(microseconds=1)
            impl_best = [best_idx, int(best.physical_qubit_count), int(us)]
            if best_idx is None or best.duration != datetime.timedelta(microseconds=us):
                s.violate('cost_estimator: the returned parameters are not one of the candidates of the searched grid', case, {})
                return
            if params.physical_error_rate != p_err or params.proportion_of_bounding_box != portion:
                s.violate('cost_estimator: the returned parameters do not carry the requested error rate / bounding box', case,
                          {'physical_error_rate': params.physical_error_rate,
                           'proportion_of_bounding_box': params.proportion_of_bounding_box})
                return
        b.add(case, {'cands': cands, 'best': impl_best},
              {'op': 'c19.phys.select', 'nq': nq, 'nt': nt, 'feasible': feas, 'with_t': p_err == 0.001},
              [('cost_estimator: the returned layout is not the first strict minimum of qubits x duration among the '
                'candidates that are feasible according to the independent failure model',
                {'op': 'c19.spec.select', 'cands': cands, 'feasible': feas, 'res': impl_best}, is_true)])
    # num_toffoli = 0: every candidate costs 0 rounds, so the tie rule of the loop (first minimum) decides
    cases = [(2142, 5250145120), (2196, 31938980976), (2190, 88371052334), (1, 1), (3, 7), (5, 0), (100, 0)]
    # corpus of past failures (runs in every tier): qubits x duration beyond datetime.timedelta.max (repaired in
    # 74ee02b0; an int * timedelta comparison raised OverflowError)
    cases += [(4860, 264227406989), (10000, 10 ** 12), (9000, 7 * 10 ** 11)]
    for _ in range(budget(t, 3, 30)):
        cases.append((rng.randint(100, 5000), rng.randint(10 ** 6, 10 ** 11)))
    for nq, nt in cases:
        one_estimator(nq, nt, 1.0e-3, 1.0, rng.choice(['defaults', 'defaults', 'int64', 'positional', 'keywords']))
    # every crossing of the two optional arguments (both non-default at once included)
    rates = [1.0e-3, 1.0e-4, 3.0e-3, 5.0e-4]
    portions = [1.0, 0.5, 0.25, 2.0]
    sizes = [(2142, 5250145120), (300, 10 ** 7), (4000, 10 ** 10)]
    for p_err in rates:
        for portion in portions:
            picks = sizes if t == 'thorough' else [sizes[rng.randrange(len(sizes))],
                                                   (rng.randint(100, 5000), rng.randint(10 ** 6, 10 ** 11))]
            for nq, nt in picks:
                one_estimator(nq, nt, p_err, portion, rng.choice(['positional', 'keywords']))
    b.flush()

    # ---- joint grid of the two keywords: an independent brute-force search over the full candidate grid.  Candidate
    # qubit counts / rounds come from plain integer formulas on the factory table of the Lean Model (not from the
    # library), feasibility from the independent float failure model with the GIVEN rate and portion; the Model
    # selection loop (first strict minimum of qubits x rounds among the feasible ones) must return the library's answer
    model_facs = ctx.driver.run([{'op': 'c19.phys.factories'}])[0]       # [[footprint, [rounds num, den]], ...]
    fac_cache = {}

    def joint_case(nq, nt, p_err, portion):
        case = {'fn': 'cost_estimator', 'num_logical_qubits': nq, 'num_toffoli': nt, 'physical_error_rate': p_err,
                'portion_of_bounding_box': portion, 'argument_types': 'keywords', 'joint_grid': True}
        s.case(case)
        s.count('cost_estimator:joint-grid')
        s.count('joint:physical_error_rate=%g' % p_err)
        s.count('joint:portion_of_bounding_box=%g' % portion)
        (res, exc) = call(pc.cost_estimator, nq, nt, physical_error_rate=p_err, portion_of_bounding_box=portion)
        specs = factory_specs(p_err)
        table = model_facs if p_err == 0.001 else model_facs[1:]
        if exc == 'OverflowError':
            # the loop compares physical_qubit_count * duration (int * timedelta): beyond 999999999 days that product
            # cannot be represented.  Expected exactly when some admissible candidate exceeds the range (known finding).
            storage = -((-3 * nq) // 2)
            over = False
            for spec, (footprint, rnd) in zip(specs, table):
                rounds = int(Fraction(nt, 4) * Fraction(rnd[0], rnd[1]))
                ffail = factory_failure(spec, p_err)
                for dist in dists:
                    qubits = storage * 2 * (dist + 1) ** 2 + 4 * footprint
                    fail = min(1.0, portion * topo_cell(dist, p_err) * storage * rounds + ffail * nt)
                    if fail <= 0.1 + 1e-9 and qubits * rounds > TIMEDELTA_MAX_US:
                        over = True
            if over:
                s.count('joint:timedelta-overflow')
                s.violate('cost_estimator raises OverflowError: physical_qubit_count * duration of an admissible candidate '
                          'exceeds the range of datetime.timedelta', dict(case, timedelta_overflow_expected=True), {})
                return
        if exc:
            s.violate('unexpected exception ' + exc, case, {})
            return
        best, params = res
        if p_err not in fac_cache:
            fl, exc = call(lambda: list(pc.iter_known_factories(physical_error_rate=p_err)))
            fac_cache[p_err] = None if exc else fl
        facs_p = fac_cache[p_err]
        if facs_p is None or len(facs_p) != len(specs) or len(table) != len(specs):
            s.violate('iter_known_factories(%g): unexpected number of factories' % p_err, case, {})
            return
        storage = -((-3 * nq) // 2)                      # ceil(1.5 nq)
        cands, feas, fails, ambiguous = [], [], [], False
        for spec, (footprint, rnd) in zip(specs, table):
            f_rounds = Fraction(rnd[0], rnd[1])
            rounds = int(Fraction(nt, 4) * f_rounds)     # floor
            ffail = factory_failure(spec, p_err)
            for dist in dists:
                qubits = storage * 2 * (dist + 1) ** 2 + 4 * footprint
                fail = min(1.0, portion * topo_cell(dist, p_err) * storage * rounds + ffail * nt)
                if abs(fail - 0.1) <= 1e-9:
                    ambiguous = True
                cands.append([qubits, rounds])
                feas.append(bool(fail <= 0.1))
                fails.append(fail)
        if ambiguous:
            s.discards += 1
            s.count('failure-probability-at-threshold')
            return
        if best is None:
            s.count('joint:no-feasible-layout')
            impl_best = None
        else:
            idx = None
            for fi, fac in enumerate(facs_p):
                if fac == params.magic_state_factory and params.logical_data_qubit_distance in dists:
                    idx = fi * len(dists) + dists.index(params.logical_data_qubit_distance)
                    break
            us = best.duration // datetime.timedelta(microseconds=1)
            if idx is None or best.duration != datetime.timedelta(microseconds=us):
                s.violate('cost_estimator: the returned parameters are not one of the candidates of the searched grid', case, {})
                return
            if params.physical_error_rate != p_err or params.proportion_of_bounding_box != portion:
                s.violate('cost_estimator: the returned parameters do not carry the requested error rate / bounding box', case,
                          {'physical_error_rate': params.physical_error_rate,
                           'proportion_of_bounding_box': params.proportion_of_bounding_box})
                return
            if not close(float(best.algorithm_failure_probability), fails[idx]):
                s.violate('cost_estimator: the failure probability of the returned layout differs from the independent '
                          'evaluation with the given rate and bounding box', case,
                          {'implementation': float(best.algorithm_failure_probability), 'independent': fails[idx]})
                return
            impl_best = [idx, int(best.physical_qubit_count), int(us)]
        b.add(case, {'cands': cands, 'best': impl_best},
              {'op': 'c19.phys.select', 'nq': nq, 'nt': nt, 'feasible': feas, 'with_t': p_err == 0.001},
              [('cost_estimator: the returned layout is not the brute-force minimiser of qubits x duration (first strict '
                'minimum in loop order) among all factory x distance candidates that are admissible for the given rate '
                'and bounding box', {'op': 'c19.spec.select', 'cands': cands, 'feasible': feas, 'res': impl_best}, is_true)])
    jrates = [1.0e-3, 3.0e-4, 1.0e-4, 1.0e-5]
    jportions = [1.0, 0.5, 0.1, 0.05, 0.04, 0.03, 0.01]
    jsizes = [(nq_, nt_) for nq_ in (10, 37, 100, 300, 1000, 2142, 5000, 10000)
              for nt_ in (10 ** 4, 10 ** 6, 10 ** 8, 10 ** 9, 10 ** 10, 10 ** 12)]
    jsizes = [jsizes[i] for i in range(0, len(jsizes), 2)] + [(1000, 10 ** 9), (100, 10 ** 8)]
    named = [(1000, 10 ** 9), (100, 10 ** 8)]
    cell = 0
    for p_err in jrates:
        for portion in jportions:
            if ctx.tier != 'quick':
                picks = jsizes
            elif ctx.drift:
                # a quick run after source drift: every cell of the grid with 10 sizes (the full list of 26 at thorough)
                picks = [jsizes[i] for i in range((cell % 2), len(jsizes) - 2, 2)][:8] + named
            else:
                picks = [named[cell % 2], jsizes[rng.randrange(len(jsizes))],
                         (rng.randint(10, 10 ** 4), rng.randint(10 ** 4, 10 ** 12))]
            cell += 1
            for nq, nt in picks:
                joint_case(nq, nt, p_err, portion)
    b.flush()
    # direct AlgorithmParameters(...).estimate_cost calls: routing overhead, factory count, bounding box, error rate
    for _ in range(budget(t, 150, 800)):
        p_err = rng.choice(rates)
        portion = rng.choice(portions)
        routing = rng.choice([0.5, 0.25, 1.0, 0.0, 0.75])
        fcount = rng.choice([1, 2, 4, 8])
        specs = factory_specs(p_err)
        si = rng.randrange(len(specs))
        spec = specs[si]
        dist = rng.choice(dists + [3, 5, 41])
        nq, nt = rng.randint(1, 5000), rng.choice([0, rng.randint(1, 10 ** 4), rng.randint(10 ** 6, 10 ** 11)])
        case = {'fn': 'AlgorithmParameters.estimate_cost', 'physical_error_rate': p_err, 'proportion_of_bounding_box': portion,
                'routing_overhead_proportion': routing, 'factory_count': fcount, 'factory': list(spec),
                'logical_data_qubit_distance': dist, 'max_allocated_logical_qubits': nq, 'toffoli_count': nt}
        s.case(case)
        s.count('estimate_cost:direct')

        def direct():
            fac = list(pc.iter_known_factories(physical_error_rate=p_err))[si]
            p_ = pc.AlgorithmParameters(physical_error_rate=p_err, surface_code_cycle_time=datetime.timedelta(microseconds=1),
                                        logical_data_qubit_distance=dist, magic_state_factory=fac, toffoli_count=nt,
                                        max_allocated_logical_qubits=nq, factory_count=fcount,
                                        routing_overhead_proportion=routing, proportion_of_bounding_box=portion)
            return fac, p_.estimate_cost()
        res, exc = call(direct)
        if exc:
            s.violate('unexpected exception ' + exc, case, {})
            continue
        fac, c = res
        us = c.duration // datetime.timedelta(microseconds=1)
        mine = failure(nq, nt, dist, spec, float(fac.rounds), p_err, portion, routing, fcount)
        if not close(float(c.algorithm_failure_probability), mine):
            s.violate('estimate_cost: algorithm_failure_probability differs from the independent evaluation', case,
                      {'implementation': float(c.algorithm_failure_probability), 'independent': mine})
            continue
        b.add(case, [int(c.physical_qubit_count), int(us)],
              {'op': 'c19.phys.estimate', 'l1': spec[0], 'l2': spec[1], 'nq': nq, 'nt': nt, 'dist': dist,
               'routing': fr(routing), 'fcount': fcount})
    b.flush()
    return s


def classify(v):
    case = v.get('input', {}) or {}
    if case.get('timedelta_overflow_expected') and v.get('what', '').startswith('cost_estimator raises OverflowError'):
        return 'F19-cost-estimator-timedelta-overflow'
    return None


def probe_known(ctx, k):
    """replay the listed witness on the real code: True while it still fails"""
    import importlib
    if k.get('id') != 'F19-cost-estimator-timedelta-overflow':
        return False
    pc = importlib.import_module('openfermion.resource_estimates.surface_code_compilation.physical_costing')
    try:
        pc.cost_estimator(4860, 264227406989)
    except OverflowError:
        return True
    except Exception:  # noqa: BLE001
        return False
    return False


def run(ctx):
    import importlib
    of = ctx.of
    lcu = importlib.import_module('openfermion.circuits.lcu_util')
    gon = importlib.import_module('openfermion.functionals.get_one_norm')
    ut = importlib.import_module('openfermion.resource_estimates.utils')
    thc = importlib.import_module('openfermion.resource_estimates.thc.compute_cost_thc')
    sp = importlib.import_module('openfermion.resource_estimates.sparse.costing_sparse')
    pc = importlib.import_module('openfermion.resource_estimates.surface_code_compilation.physical_costing')
    import os
    import time
    streams = []
    for fn, args in ((stream_roulette, (ctx, lcu)), (stream_lcu, (ctx, lcu)), (stream_norms, (ctx, of, lcu, gon)),
                     (stream_qrom, (ctx, ut)), (stream_costs, (ctx, thc.compute_cost, sp.cost_sparse)),
                     (stream_physical, (ctx, pc))):
        t0 = time.time()
        streams.append(fn(*args))
        if os.environ.get('OFV_TIMING'):
            print('timing %s %.1fs' % (fn.__name__, time.time() - t0), flush=True)
    return streams


def replay(ctx, payload):
    """re-run the recorded failing input on the real code with the Spec oracle -> True when it passes now"""
    import importlib
    v = payload.get('violation')
    if not v:
        return None
    case = v['input']
    fn = case.get('fn')
    d = ctx.driver
    lcu = importlib.import_module('openfermion.circuits.lcu_util')
    ut = importlib.import_module('openfermion.resource_estimates.utils')
    try:
        if case.get('state_check'):
            if not case.get('module') or any(isinstance(x, dict) and 'repr' in x for x in case['args']):
                return None
            f = getattr(importlib.import_module(case['module']), fn, None)
            return None if f is None else replay_state(f, case)
        if fn == '_preprocess_for_efficient_roulette_selection':
            import numpy
            ws = case['weights']
            kind = case.get('container', 'list')
            arg = (tuple(ws) if kind == 'tuple' else numpy.array(ws, dtype=kind) if kind in ('int64', 'int32')
                   else [numpy.int64(w) for w in ws] if kind == 'npint_list' else list(ws))
            alt, keep = lcu._preprocess_for_efficient_roulette_selection(arg)
            return d.one({'op': 'c19.spec.alias', 'ws': ws, 'alt': [int(x) for x in alt], 'keep': [int(x) for x in keep]}) is True
        if fn in ('preprocess_lcu_coefficients_for_reversible_sampling', '_discretize_probability_distribution'):
            import numpy
            cs, eps = case['lcu_coefficients'], case['epsilon']
            kind = case.get('container', 'list')
            arg = (tuple(cs) if kind == 'tuple' else numpy.array(cs, dtype=kind) if kind in ('int64', 'float64')
                   else [int(c) for c in cs] if kind == 'pyint' else [numpy.float64(c) for c in cs] if kind == 'npfloat_list'
                   else list(cs))
            ek = case.get('epsilon_type', 'float')
            eps_arg = numpy.float64(eps) if ek == 'float64' else numpy.float32(eps) if ek == 'float32' else eps
            alt, keep, mu = lcu.preprocess_lcu_coefficients_for_reversible_sampling(arg, eps_arg)
            return d.one({'op': 'c19.spec.lcu', 'coeffs': frs(cs), 'eps': fr(eps), 'alt': [int(x) for x in alt],
                          'keep': [int(x) for x in keep], 'mu': int(mu)}) is True
        if fn in ('thc', 'sparse') and 'params' in case:
            pr = case['params']
            if fn == 'thc':
                thc = importlib.import_module('openfermion.resource_estimates.thc.compute_cost_thc')
                res = [int(x) for x in thc.compute_cost(*pr)]
                lam, dE = pr[1], pr[2]
            else:
                sp = importlib.import_module('openfermion.resource_estimates.sparse.costing_sparse')
                res = [int(x) for x in sp.cost_sparse(*pr)]
                lam, dE = pr[1], pr[3]
            it = d.one({'op': 'c19.iters', 'lam': fr(lam), 'dE': fr(dE)})
            return it is not None and res[1] == res[0] * it
        if fn in ('cost_estimator', 'AlgorithmParameters.estimate_cost'):
            import datetime
            pc = importlib.import_module('openfermion.resource_estimates.surface_code_compilation.physical_costing')
            p_err = case.get('physical_error_rate', 1.0e-3)
            portion = case.get('portion_of_bounding_box', case.get('proportion_of_bounding_box', 1.0))
            specs = factory_specs(p_err)
            facs = list(pc.iter_known_factories(physical_error_rate=p_err))
            if len(facs) != len(specs):
                return False

            def est(nq, nt, dist, fac, routing, fcount):
                p_ = pc.AlgorithmParameters(physical_error_rate=p_err,
                                            surface_code_cycle_time=datetime.timedelta(microseconds=1),
                                            logical_data_qubit_distance=dist, magic_state_factory=fac, toffoli_count=nt,
                                            max_allocated_logical_qubits=nq, factory_count=fcount,
                                            routing_overhead_proportion=routing, proportion_of_bounding_box=portion)
                return p_.estimate_cost()
            if fn == 'AlgorithmParameters.estimate_cost':
                spec = tuple(case['factory'])
                fac = facs[specs.index(spec)]
                nq, nt = case['max_allocated_logical_qubits'], case['toffoli_count']
                c = est(nq, nt, case['logical_data_qubit_distance'], fac, case['routing_overhead_proportion'],
                        case['factory_count'])
                mine = failure(nq, nt, case['logical_data_qubit_distance'], spec, float(fac.rounds), p_err, portion,
                               case['routing_overhead_proportion'], case['factory_count'])
                m = d.one({'op': 'c19.phys.estimate', 'l1': spec[0], 'l2': spec[1], 'nq': nq, 'nt': nt,
                           'dist': case['logical_data_qubit_distance'], 'routing': fr(case['routing_overhead_proportion']),
                           'fcount': case['factory_count']})
                return rel_close(float(c.algorithm_failure_probability), mine) and \
                    m == [int(c.physical_qubit_count), int(c.duration // datetime.timedelta(microseconds=1))]
            nq, nt = case['num_logical_qubits'], case['num_toffoli']
            best, params = pc.cost_estimator(nq, nt, p_err, portion)
            cands, feas, best_idx = [], [], None
            for spec, fac in zip(specs, facs):
                if not rel_close(float(fac.failure_rate), factory_failure(spec, p_err)):
                    return False
                for dist in range(7, 35, 2):
                    c = est(nq, nt, dist, fac, 0.5, 4)
                    mine = failure(nq, nt, dist, spec, float(fac.rounds), p_err, portion, 0.5, 4)
                    if not rel_close(float(c.algorithm_failure_probability), mine):
                        return False
                    if params is not None and fac == params.magic_state_factory \
                            and dist == params.logical_data_qubit_distance and best_idx is None:
                        best_idx = len(cands)
                    cands.append([int(c.physical_qubit_count), int(c.duration // datetime.timedelta(microseconds=1))])
                    feas.append(bool(mine <= 0.1))
            if best is not None and (params.physical_error_rate != p_err or params.proportion_of_bounding_box != portion
                                     or best_idx is None):
                return False
            res = None if best is None else [best_idx, int(best.physical_qubit_count),
                                             int(best.duration // datetime.timedelta(microseconds=1))]
            return d.one({'op': 'c19.spec.select', 'cands': cands, 'feasible': feas, 'res': res}) is True
        if fn == 'QR':
            k, val = ut.QR(case['L'], case['M'])
            return d.one({'op': 'c19.spec.qr', 'L': case['L'], 'M': case['M'], 'k': int(k), 'val': int(val), 'bound': 24}) is True
        if fn == 'QI':
            k, val = ut.QI(case['L'])
            return d.one({'op': 'c19.spec.qi', 'L': case['L'], 'k': int(k), 'val': int(val), 'bound': 24}) is True
        if fn == 'QR2':
            r = [int(x) for x in ut.QR2(case['L1'], case['L2'], case['M'])]
            return d.one({'op': 'c19.spec.grid2', 'kind': 'qr2', 'L1': case['L1'], 'L2': case['L2'], 'M': case['M'],
                          'p1': r[0], 'p2': r[1], 'val': r[2]}) is True
        if fn == 'QI2':
            r = [int(x) for x in ut.QI2(case['L1'], case['L2'])]
            return d.one({'op': 'c19.spec.grid2', 'kind': 'qi2', 'L1': case['L1'], 'L2': case['L2'],
                          'p1': r[0], 'p2': r[1], 'val': r[2]}) is True
        if fn == 'power_two':
            return d.one({'op': 'c19.spec.power_two', 'm': case['m'], 'c': int(ut.power_two(case['m']))}) is True
        if fn == 'lambda_norm':
            import numpy
            def cplx(m):
                return numpy.array([[complex(*e) if isinstance(e, list) else e for e in row] for row in m])
            if 'edited_in_place' in case:
                T = cplx(case['one_body'])
                T = T.real.astype(float) if not numpy.iscomplexobj(T) or not T.imag.any() else T
            else:
                T0 = numpy.array(case['one_body'], dtype=float)
                T = T0.astype(case.get('one_body_dtype', 'float64'))
                if case.get('imaginary_offdiagonal'):
                    for p_ in range(T.shape[0]):
                        for q_ in range(p_ + 1, T.shape[0]):
                            T[p_, q_], T[q_, p_] = 1j * T0[p_, q_], -1j * T0[p_, q_]
            V = numpy.array(case['two_body'], dtype=float)
            c = case.get('constant', 0.0)
            c = complex(*c) if isinstance(c, list) else c
            H = ctx.of.DiagonalCoulombHamiltonian(T.copy(), V.copy(), constant=c)
            if T.shape[0] > 5:
                return None
            x = Fraction(float(lcu.lambda_norm(H)))
            terms = dch_terms(numpy.array(H.one_body), numpy.array(H.two_body), 0)
            a = d.one({'op': 'c19.spec.jw_norm', 'n': T.shape[0], 'operator': enc_ferm(terms), 'with_id': False})
            return a is not None and Fraction(a[0], a[1]) == x
        if fn in ('get_one_norm_int', 'get_one_norm_int_woconst'):
            import numpy
            gon = importlib.import_module('openfermion.functionals.get_one_norm')
            kinds = case.get('dtypes', ['float64', 'float64'])
            h = numpy.array(case['one_body_integrals'], dtype=float).astype(kinds[0])
            g = numpy.array(case['two_body_integrals'], dtype=float).astype(kinds[1])
            const = case['constant']
            if not case.get('symmetric', True) or h.shape[0] > 3:
                return None
            terms = enc_ferm(mol_terms(const, h, g))
            if fn == 'get_one_norm_int':
                x = Fraction(float(gon.get_one_norm_int(const, h, g)))
                a = d.one({'op': 'c19.spec.jw_norm', 'n': 2 * h.shape[0], 'operator': terms, 'with_id': True})
            else:
                x = Fraction(float(gon.get_one_norm_int_woconst(h, g)))
                a = d.one({'op': 'c19.spec.jw_norm', 'n': 2 * h.shape[0], 'operator': terms, 'with_id': False})
            return a is not None and Fraction(a[0], a[1]) == x
    except BaseException:  # noqa: BLE001
        return False
    return None
