"""C13 — model Hamiltonian generators.

Correspondence: the real generators (fermi_hubbard, bose_hubbard, mean_field_dwave,
FermiHubbardModel + HubbardSquareLattice iterators, spin operators, Grid index arithmetic,
plane-wave / dual-basis jellium) against the Lean Model (OFV.Model.C13*), exactly on dyadic
couplings.  Spec oracles (independent of the Model, evaluated on the implementation's output):
* every hopping bond of the generated Hamiltonian is an edge of the Spec lattice graph
  (OFV.Spec.C13.edges) and every edge occurs exactly once ("bond oracle"),
* the Hamiltonian equals the docstring formula summed over the Spec edge list
  (term dictionaries, and as linear maps through `spec.eq` on small lattices),
* Hermiticity, particle-number / S_z conservation through `spec.eq`,
* FermiHubbardModel = fermi_hubbard where the documented conventions coincide,
* su(2) relations of the spin operators,
* jellium: Hermiticity, number conservation, constant added once, plane-wave vs dual basis
  (independent numpy DFT of the one-body part; isospectrality on small grids), direct qubit
  form vs jordan_wigner — float comparisons at 1e-9, counted.
"""
import itertools
import math
from fractions import Fraction

from common import (Stream, budget, enc_op, canon_op_json, to_gq, from_gq, rng_for, show)

TRUSTED = [
    'C13: the docstring formulas are re-implemented in the harness (term dictionaries over Fractions) from the Spec edge list returned by the Lean Spec (OFV.Spec.C13.edges)',
    'C13: jellium coefficients involve pi/cos: compared at absolute tolerance 1e-9 (counted in float_comparisons); numpy.linalg.eigvalsh / get_sparse_operator / jordan_wigner are used as trusted kernels in the isospectrality and qubit-form oracles',
]
ASSUMPTIONS = [
    'couplings are real dyadic rationals (float arithmetic exact); lattice dimensions >= 1; Grid: cubic cells (float scale), dimension <= 2 (quick) / <= 3 (thorough)',
    'FermiHubbardModel parameters are valid (constructor ValueErrors are not explored)',
]
OPEN_STATEMENTS = [
    'hubbard_sound is proved for the spinless and spinful fermi_hubbard and for the bose_hubbard Model for ALL lattice sizes (spinless_hubbard_sound / spinless_hubbard_sound_edges / spinless_hubbard_sound_spec [matrix elements of the Spec action, no hypothesis on the functional] / spinful_hubbard_sound + spin_site_terms / bose_hubbard_sound: den phi of the site-loop fold = docstring formula summed over the Spec edge set) under the hypotheses ExactSum (every += in the exact regime; DISCHARGED for couplings on a grid (1/D) Z[i] with tol * D <= 1, i.e. all generated dyadic couplings: exact_regime_of_grid, spinless_hubbard_sound_spec_grid, spinful_hubbard_sound_grid have no += hypothesis left; with tol * 4D <= 1 also the particle-hole form and bose_hubbard: hubbard_exact_regime_of_grid, bose_hubbard_sound_grid, spinful_hubbard_sound_grid_phs), real hopping amplitude, phi(n_i n_j) = phi(n_j n_i) (spinless only, discharged for the Spec matrix elements; the spinful and bose theorems hold for every phi); mean_field_dwave, FermiHubbardModel and the particle-hole docstring form are still covered by the docstring / spec.eq oracles only; also proved for all sizes: the bond enumerations equal the Spec edge set, every generated term has zero charge for N (and S_z where conserved) and zero-charge terms preserve the Spec weight of basis states, the grid index bijection, all_points_indices = the tuples inside the grid each once with orbital_id a bijection onto range(num_points) (all_points_spec, all_points_orbital_bijection), one number operator per orbital in the spinless plane_wave_kinetic loop (plane_wave_kinetic_structure_spec)',
    'hermitian_generators is proved for the spinless and the spinful fermi_hubbard Model (spinless_hubbard_hermitian, spinful_hubbard_hermitian on Spec matrix elements, same hypotheses as hubbard_sound, real t / U / mu); for the other generators it is covered by the spec.eq / dictionary oracles only',
    'onsite edge type and spin_pairs_iter: proved (site_pairs_onsite_spec, spin_pairs_spec); S_z and N_up / N_down conservation of FermiHubbardModel on spinful lattices: proved for every parameter set (fermi_hubbard_model_conserves_spin_resolved / _sz / _spin_species / fermi_hubbard_model_preserves_sz)',
    'su2_relations for all n: oracle only (n <= 3)',
    'RichardsonGaudin: richardson_gaudin_documented proves the documented form for every n under ExactRG (exact regime of every + / sum step; not discharged in general, it holds for the dyadic g generated); get_antisymmetrized_tensors is not covered',
    'fourier_transform_unitary_structure / isospectrality: numeric oracle only',
    'dual_basis_jellium_model ignores non_periodic / period_cutoff (the truncated Coulomb factor is only applied in plane_wave_potential): known finding C13-dual-basis-non-periodic',
    'isospectrality of momentum-space and position-space jellium fails on non-orthogonal cells with mixed even / >= 3 grid lengths: known finding C13-jellium-sheared-even',
]

EDGE_NAMES = ['onsite', 'neighbor', 'diagonal_neighbor', 'horizontal_neighbor', 'vertical_neighbor']
EDGE_SPEC_KIND = {1: 0, 2: 1, 3: 2, 4: 3}
ONE = Fraction(1)
HALF = Fraction(1, 2)


# ---------------------------------------------------------------- exact dictionaries

def fr(c):
    j = to_gq(c)
    return (Fraction(j[0], j[1]), Fraction(j[2], j[3]))


def exact_terms(op):
    return {t: fr(c) for t, c in op.terms.items()}


def canon_term(term):
    """harness-level canonical key for the shapes the generators produce:
    n_i n_j (i != j) -> modes ascending; two creation / two annihilation operators on distinct
    modes -> indices descending with the anticommutation sign (fermions only)."""
    sign = 1
    if len(term) == 4:
        (a, p), (b, q), (c, r), (d, s) = term
        if a == b and c == d and (p, q, r, s) == (1, 0, 1, 0) and a != c and a > c:
            term = ((c, 1), (c, 0), (a, 1), (a, 0))
    elif len(term) == 2:
        (a, p), (b, q) = term
        if p == q and a != b and a < b:
            term = ((b, q), (a, p))
            sign = -1
    return term, sign


def canon_dict(d, fermion=True):
    out = {}
    for t, (re, im) in d.items():
        if fermion:
            k, s = canon_term(t)
        else:
            k, s = t, 1
        a = out.get(k, (Fraction(0), Fraction(0)))
        out[k] = (a[0] + s * re, a[1] + s * im)
    return {k: v for k, v in out.items() if v != (0, 0)}


class Acc:
    """docstring formula accumulator (exact)"""

    def __init__(self):
        self.d = {}

    def add(self, term, c):
        c = Fraction(c)
        a = self.d.get(tuple(term), (Fraction(0), Fraction(0)))
        self.d[tuple(term)] = (a[0] + c, a[1])

    def hop(self, i, j, c):
        self.add(((i, 1), (j, 0)), c)
        self.add(((j, 1), (i, 0)), c)

    def n(self, i, c):
        self.add(((i, 1), (i, 0)), c)

    def nn(self, i, j, c, shift=Fraction(0)):
        """c (n_i - shift)(n_j - shift)"""
        self.add(((i, 1), (i, 0), (j, 1), (j, 0)), c)
        if shift:
            self.n(i, -c * shift)
            self.n(j, -c * shift)
            self.add((), c * shift * shift)


def dict_to_op(d):
    """exact dict -> protocol operator"""
    out = []
    for t, (re, im) in d.items():
        out.append([[[int(i), int(a)] for i, a in t], [re.numerator, re.denominator, im.numerator, im.denominator]])
    return out


def dagger_dict(d):
    return {tuple((i, 1 - a) for i, a in reversed(t)): (re, -im) for t, (re, im) in d.items()}


def leaf(jop):
    return ['leaf', jop]


def number_dict(modes):
    return {((m, 1), (m, 0)): (ONE, Fraction(0)) for m in modes}


def sz_dict(n_sites):
    d = {}
    for s in range(n_sites):
        d[((2 * s, 1), (2 * s, 0))] = (HALF, Fraction(0))
        d[((2 * s + 1, 1), (2 * s + 1, 0))] = (-HALF, Fraction(0))
    return d


def spec_eq(alg, n, lhs, rhs, d=0):
    return {'op': 'spec.eq', 'alg': alg, 'n': n, 'd': d, 'lhs': lhs, 'rhs': rhs}


def commutator_zero(alg, n, H, Q, d=0):
    return spec_eq(alg, n, ['mul', leaf(H), leaf(Q)], ['mul', leaf(Q), leaf(H)], d)


class Oracle:
    """batch of spec.eq requests with the violation to record when one fails"""

    def __init__(self, ctx, stream):
        self.ctx, self.stream, self.items = ctx, stream, []

    def add(self, what, case, req):
        self.items.append((what, case, req))

    def flush(self):
        if not self.items:
            return
        ans = self.ctx.driver.run([r for _, _, r in self.items])
        for (what, case, req), a in zip(self.items, ans):
            self.stream.count('oracle:spec.eq')
            if not a['eq']:
                self.stream.violate(what, case, {'witness_state': a['state'], 'lhs': a['lhs'], 'rhs': a['rhs']})
        self.items = []


# ---------------------------------------------------------------- Spec edges (from Lean)

class Edges:
    def __init__(self, ctx):
        self.ctx = ctx
        self.cache = {}

    def prefetch(self, keys):
        keys = [k for k in dict.fromkeys(keys) if k not in self.cache]
        ans = self.ctx.driver.run([{'op': 'c13.spec_edges', 'x': x, 'y': y, 'periodic': p, 'kind': k}
                                   for (x, y, p, k) in keys])
        for k, a in zip(keys, ans):
            self.cache[k] = [tuple(e) for e in a]

    def get(self, x, y, p, kind=0):
        k = (x, y, bool(p), kind)
        if k not in self.cache:
            self.prefetch([k])
        return self.cache[k]


# ---------------------------------------------------------------- stream 1: bonds / lattice iterators

def bond_multiset_of(terms, lift):
    """hopping keys ((i,1),(j,0)), i != j -> list of unordered site pairs (every orientation once);
    lift(i) -> (site, tag) ; returns dict tag -> list of (min, max, coefficient)"""
    out = {}
    for t, c in terms.items():
        if len(t) == 2 and t[0][1] == 1 and t[1][1] == 0 and t[0][0] != t[1][0]:
            (si, ti), (sj, tj) = lift(t[0][0]), lift(t[1][0])
            out.setdefault((ti, tj), []).append((si, sj, c))
    return out


def check_bonds_of_operator(stream, what, case, terms, lift, tags, edges, coeff):
    """every Spec edge occurs in both orientations exactly once with coefficient `coeff`, nothing else"""
    got = bond_multiset_of(terms, lift)
    expect = sorted([(a, b) for a, b in edges] + [(b, a) for a, b in edges])
    for tag in tags:
        lst = got.pop((tag, tag), [])
        pairs = sorted((a, b) for a, b, _ in lst)
        if pairs != expect:
            stream.violate(what + ': hopping bonds differ from the Spec edge set', case,
                           {'spin': tag, 'bonds': pairs, 'spec_edges': expect})
            return False
        bad = [(a, b, c) for a, b, c in lst if c != coeff]
        if bad:
            stream.violate(what + ': a bond is not counted exactly once', case,
                           {'spin': tag, 'bond': bad[0][:2], 'coefficient': bad[0][2], 'expected': coeff})
            return False
    if got:
        stream.violate(what + ': hopping between different spin species', case, {'keys': sorted(got)[:4]})
        return False
    return True


def lattice_sizes(ctx, quick_max, thorough_max):
    m = thorough_max if (ctx.tier == 'thorough' or ctx.drift) else quick_max
    return [(x, y) for x in range(1, m + 1) for y in range(1, m + 1)]


def stream_bonds(ctx, E, only=None):
    of = ctx.of
    from openfermion.hamiltonians import hubbard as hub
    from openfermion.utils import HubbardSquareLattice
    s = Stream('bonds', 'all lattices x, y <= 7 (quick) / 10 (thorough) x periodic: _right_neighbor/_bottom_neighbor and the '
               'site-loop bonds of fermi_hubbard(spinless/spinful)/bose_hubbard/mean_field_dwave vs Model and vs the Spec edge set; '
               'HubbardSquareLattice.site_pairs_iter (5 edge types, ordered/unordered) vs Model (as multisets) and vs Spec edges')
    sizes = lattice_sizes(ctx, 7, 10)
    cases = [(x, y, p) for (x, y) in sizes for p in (True, False)]
    if only is not None:
        cases = [only]
    E.prefetch([(x, y, p, k) for (x, y, p) in cases for k in (0, 1, 2, 3)])
    reqs = []
    for (x, y, p) in cases:
        reqs.append({'op': 'c13.bonds', 'x': x, 'y': y, 'periodic': p})
        reqs.append({'op': 'c13.dwave_bonds', 'x': x, 'y': y, 'periodic': p})
        reqs.append({'op': 'c13.raw_neighbors', 'x': x, 'y': y, 'periodic': p})
        for e in range(5):
            for o in (True, False):
                reqs.append({'op': 'c13.lattice_pairs', 'x': x, 'y': y, 'periodic': p, 'edge': e, 'ordered': o})
    ans = iter(ctx.driver.run(reqs))
    for (x, y, p) in cases:
        case = {'x': x, 'y': y, 'periodic': p}
        s.case(case)
        s.count('periodic' if p else 'open')
        if 2 in (x, y):
            s.count('length-2 dimension')
        if 1 in (x, y):
            s.count('length-1 dimension')
        m_bonds = [tuple(b) for b in next(ans)]
        m_dwave = [tuple(b) for b in next(ans)]
        m_raw = next(ans)
        n = x * y
        nn = E.get(x, y, p, 0)
        # raw neighbour functions
        try:
            raw = [[hub._right_neighbor(site, x, y, p), hub._bottom_neighbor(site, x, y, p)] for site in range(n)]
        except Exception as e:  # noqa: BLE001
            s.violate('_right_neighbor/_bottom_neighbor raised', case, repr(e))
            raw = None
        if raw is not None and raw != m_raw:
            s.disagree('_right_neighbor/_bottom_neighbor', case, raw, m_raw)
        # site-loop bonds seen through the generated Hamiltonians (coefficients -t = -1)
        gens = []
        try:
            gens.append(('fermi_hubbard spinless', exact_terms(of.fermi_hubbard(x, y, 1.0, 0.0, periodic=p, spinless=True)),
                         (lambda i: (i, 0)), [0], m_bonds))
            gens.append(('fermi_hubbard spinful', exact_terms(of.fermi_hubbard(x, y, 1.0, 0.0, periodic=p)),
                         (lambda i: (i // 2, i % 2)), [0, 1], m_bonds))
            gens.append(('bose_hubbard', exact_terms(of.bose_hubbard(x, y, 1.0, 0.0, periodic=p)),
                         (lambda i: (i, 0)), [0], m_bonds))
            gens.append(('mean_field_dwave', exact_terms(of.mean_field_dwave(x, y, 1.0, 0.0, periodic=p)),
                         (lambda i: (i // 2, i % 2)), [0, 1], m_dwave))
        except Exception as e:  # noqa: BLE001
            s.violate('generator raised on an admissible lattice', case, repr(e))
        for name, terms, lift, tags, mb in gens:
            if name == 'bose_hubbard':
                # boson keys are index-sorted: (j,0),(i,1) with j < i is the hop i^ j
                t2 = {}
                for t, c in terms.items():
                    if len(t) == 2 and t[0][1] == 0 and t[1][1] == 1:
                        t = (t[1], t[0])
                    t2[t] = c
                terms = t2
            ok = check_bonds_of_operator(s, name, case, terms, lift, tags, nn, (-ONE, Fraction(0)))
            # Model bonds vs implementation bonds (unordered multiset)
            got = bond_multiset_of(terms, lift)
            impl_pairs = sorted((min(a, b), max(a, b)) for a, b, _ in got.get((tags[0], tags[0]), []))
            model_pairs = sorted([(min(a, b), max(a, b)) for a, b in mb] * 2)
            if impl_pairs != model_pairs:
                s.disagree(name + ' bonds', case, impl_pairs, model_pairs)
            s.count('generator-bond-checks')
        # lattice iterators
        lat = HubbardSquareLattice(x, y, periodic=p)
        for e in range(5):
            for o in (True, False):
                mo = sorted(tuple(q) for q in next(ans))
                try:
                    io = [tuple(int(v) for v in q) for q in lat.site_pairs_iter(EDGE_NAMES[e], o)]
                except Exception as ex:  # noqa: BLE001
                    s.violate('site_pairs_iter raised', dict(case, edge=EDGE_NAMES[e], ordered=o), repr(ex))
                    continue
                if sorted(io) != mo:
                    s.disagree('site_pairs_iter(%s, %s)' % (EDGE_NAMES[e], o), case, sorted(io), mo)
                # Spec: unordered -> each edge once (either orientation); ordered -> both orientations once
                if e == 0:
                    expect = [(i, i) for i in range(n)]
                    got_n = sorted(io)
                else:
                    ed = E.get(x, y, p, EDGE_SPEC_KIND[e])
                    if o:
                        expect = sorted(list(ed) + [(b, a) for a, b in ed])
                        got_n = sorted(io)
                    else:
                        expect = sorted(ed)
                        got_n = sorted((min(a, b), max(a, b)) for a, b in io)
                s.count('iter:' + EDGE_NAMES[e])
                if got_n != expect:
                    s.violate('site_pairs_iter(%s) is not the Spec edge set (each edge once)' % EDGE_NAMES[e],
                              dict(case, edge=EDGE_NAMES[e], ordered=o),
                              {'pairs': got_n, 'spec_edges': expect})
    s.exhaustive = True
    return s


# ---------------------------------------------------------------- stream 2: Hubbard generators

_COUPLING_TYPES = {}


def coupling_types(of):
    """(T) numeric types a coupling may have: probed once per run on the tree under test; a type the tree rejects is excluded"""
    if 'ok' not in _COUPLING_TYPES:
        import numpy
        cands = {'float64': numpy.float64, 'int64': numpy.int64, 'int32': numpy.int32, 'float32': numpy.float32, 'bool': bool,
                 'float16': numpy.float16}
        ok = {}
        for name, ty in cands.items():
            try:
                of.fermi_hubbard(2, 1, ty(1), ty(1), ty(1), ty(1))
                of.bose_hubbard(2, 1, ty(1), ty(1), ty(1), ty(1))
                of.mean_field_dwave(2, 1, ty(1), ty(1), ty(1))
                ok[name] = ty
            except Exception:  # noqa: BLE001
                pass
        _COUPLING_TYPES['ok'] = ok
    return _COUPLING_TYPES['ok']


def coupling(rng, zero_p=0.15, types=None, band_p=0.12):
    """dyadic coupling: O(1), or (B) of magnitude 1e-7 .. 1e-4 (a decade away from the 1e-8 pruning threshold even after the
    factors 1/2, 1/4 the generators apply); (T) as Python float / int or one of the accepted numpy / bool types"""
    if rng.random() < zero_p:
        return 0.0
    if rng.random() < band_p:
        v = rng.choice([1, -1, 3, -5]) * 2.0 ** -rng.choice([14, 17, 20])
    else:
        n = rng.randint(-8, 8) or 3
        v = n / (2 ** rng.randint(0, 3))
    if types and rng.random() < 0.25:
        name = rng.choice(sorted(types))
        if name == 'bool':
            return bool(rng.random() < 0.7)
        if name.startswith('int'):
            return types[name](int(v) if float(v).is_integer() else rng.randint(-3, 3))
        if name == 'float16' and abs(v) < 1e-3:
            return float(v)
        return types[name](v)
    return int(v) if (rng.random() < 0.2 and float(v).is_integer()) else v


def complex_coupling(rng):
    """(A) complex / purely imaginary dyadic amplitude"""
    re = 0.0 if rng.random() < 0.4 else rng.randint(-4, 4) / 4
    im = (rng.randint(-4, 4) or 2) / 4
    return complex(re, im)


def doc_fermi_hubbard(x, y, t, U, mu, h, spinless, phs, edges):
    t, U, mu, h = map(Fraction, (t, U, mu, h))
    A = Acc()
    n = x * y
    shift = HALF if phs else Fraction(0)
    if spinless:
        for (i, j) in edges:
            A.hop(i, j, -t)
            A.nn(i, j, U, shift)
        for i in range(n):
            A.n(i, -mu)
    else:
        for (i, j) in edges:
            for sp in (0, 1):
                A.hop(2 * i + sp, 2 * j + sp, -t)
        for i in range(n):
            A.nn(2 * i, 2 * i + 1, U, shift)
            A.n(2 * i, -mu - h)
            A.n(2 * i + 1, -mu + h)
    return A.d


def doc_bose_hubbard(x, y, t, U, mu, V, edges):
    """keys index-sorted like BosonOperator stores them"""
    t, U, mu, V = map(Fraction, (t, U, mu, V))
    A = Acc()
    for (i, j) in edges:   # i < j
        A.add(((i, 1), (j, 0)), -t)
        A.add(((i, 0), (j, 1)), -t)
        A.add(((i, 1), (i, 0), (j, 1), (j, 0)), V)
    for i in range(x * y):
        A.add(((i, 1), (i, 0), (i, 1), (i, 0)), U / 2)
        A.n(i, -U / 2)
        A.n(i, -mu)
    return A.d


def doc_dwave(x, y, t, delta, mu, edges_h, edges_v):
    t, delta, mu = map(Fraction, (t, delta, mu))
    A = Acc()
    for edges, sgn in ((edges_h, 1), (edges_v, -1)):
        for (i, j) in edges:
            for sp in (0, 1):
                A.hop(2 * i + sp, 2 * j + sp, -t)
            d = sgn * delta / 2
            iu, idn, ju, jd = 2 * i, 2 * i + 1, 2 * j, 2 * j + 1
            A.add(((iu, 1), (jd, 1)), -d)
            A.add(((idn, 1), (ju, 1)), d)
            A.add(((jd, 0), (iu, 0)), -d)
            A.add(((ju, 0), (idn, 0)), d)
    for i in range(x * y):
        A.n(2 * i, -mu)
        A.n(2 * i + 1, -mu)
    return A.d


def compare_doc(stream, what, case, impl, doc, fermion=True):
    a, b = canon_dict(impl, fermion), canon_dict(doc, fermion)
    if a != b:
        keys = sorted(set(a) | set(b), key=str)
        diff = [(k, a.get(k), b.get(k)) for k in keys if a.get(k) != b.get(k)][:4]
        stream.violate(what + ' differs from the docstring formula over the Spec edge list', case,
                       {'first_differences(term, implementation, docstring)': diff})
        return False
    return True


def stream_hubbard(ctx, E, only=None):
    of = ctx.of
    s = Stream('hubbard-generators', 'fermi_hubbard (spinful/spinless x particle-hole), bose_hubbard, mean_field_dwave on all '
               'lattices x, y <= 4 (quick: + sampled up to 6; thorough: all <= 6) x periodic with random dyadic couplings (zeros included): '
               'terms vs Model exactly; docstring formula over Spec edges (exact dictionaries; spec.eq when <= 8 modes); '
               'Hermiticity, [H, N] = 0, [H, S_z] = 0 through spec.eq')
    rng = rng_for(ctx.seed, 'c13-hubbard')
    big = ctx.tier == 'thorough' or ctx.drift
    sizes = [(x, y) for x in range(1, 5) for y in range(1, 5)]
    extra = [(x, y) for x in range(1, 7) for y in range(1, 7) if (x, y) not in sizes]
    sizes += extra if big else rng.sample(extra, 5)
    reps = (5 if ctx.tier == 'thorough' else 3) if big else 1
    types = coupling_types(of)
    for name in types:
        s.count('accepted coupling type:' + name)
    cases = []
    # (B) lattices with more than 256 modes: mode indices beyond CPython's small-int cache
    sizes += [(1, 130), (130, 1), (2, 65), (17, 8)] if big else [rng.choice([(1, 130), (130, 1), (2, 65), (17, 8)])]
    for (x, y) in sizes:
        for p in (True, False):
            for rep in range(reps):
                for kind in ('fh-spinful', 'fh-spinless', 'bose', 'dwave'):
                    phs = rng.random() < 0.5 if kind.startswith('fh') else False
                    c = {'kind': kind, 'x': x, 'y': y, 'periodic': p, 'phs': phs,
                         't': coupling(rng, types=types), 'u': coupling(rng, types=types), 'mu': coupling(rng, types=types),
                         'h': coupling(rng, types=types)}
                    if rng.random() < 0.12:
                        c['t'] = complex_coupling(rng)          # (A) complex hopping amplitude: t on i->j, conj(t) on j->i
                        if kind == 'dwave' and rng.random() < 0.5:
                            c['u'] = complex_coupling(rng)      # complex gap
                    cases.append(c)
    if only is not None:
        only = dict(only)
        for k in ('t', 'u', 'mu', 'h'):
            if isinstance(only.get(k), list):
                only[k] = complex(*only[k])
        cases = [only]
    E.prefetch([(c['x'], c['y'], c['periodic'], k) for c in cases for k in (0, 2, 3)])
    reqs = []
    for c in cases:
        r = {'x': c['x'], 'y': c['y'], 'periodic': c['periodic'], 'phs': c['phs'],
             't': to_gq(c['t']), 'u': to_gq(c['u']), 'mu': to_gq(c['mu']), 'h': to_gq(c['h'])}
        if c['kind'].startswith('fh'):
            r.update(op='c13.fermi_hubbard', spinless=(c['kind'] == 'fh-spinless'))
        elif c['kind'] == 'bose':
            r.update(op='c13.bose_hubbard')
        else:
            r.update(op='c13.mean_field_dwave')
        reqs.append(r)
    model = ctx.driver.run(reqs)
    orc = Oracle(ctx, s)
    for c, mo in zip(cases, model):
        x, y, p = c['x'], c['y'], c['periodic']
        s.case(c)
        s.count(c['kind'])
        s.count('phs' if c['phs'] else 'no-phs')
        def build():
            if c['kind'] == 'fh-spinful':
                return of.fermi_hubbard(x, y, c['t'], c['u'], c['mu'], c['h'], p, False, c['phs'])
            if c['kind'] == 'fh-spinless':
                return of.fermi_hubbard(x, y, c['t'], c['u'], c['mu'], c['h'], p, True, c['phs'])
            if c['kind'] == 'bose':
                return of.bose_hubbard(x, y, c['t'], c['u'], c['mu'], c['h'], p)
            return of.mean_field_dwave(x, y, c['t'], c['u'], c['mu'], p)
        try:
            # (S) the generator is called twice around an in-place modification of the first result
            H0 = build()
            first = exact_terms(H0)
            H0 *= 3.0
            H0.terms[()] = 99.0
            H0.terms.pop(next(iter(H0.terms)), None)
            H = build()
            if exact_terms(H) != first:
                s.violate('a second call returns a different operator after the first result was modified in place', c, None)
            if H is H0:
                s.violate('two calls return the same object', c, None)
        except Exception as e:  # noqa: BLE001
            s.violate('generator raised on an admissible input', c, repr(e))
            continue
        cls = 'boson' if c['kind'] == 'bose' else 'fermion'
        jop = enc_op(cls, H.terms)
        if canon_op_json(jop) != canon_op_json(mo):
            s.disagree(c['kind'] + ' terms', c, jop, mo)
        impl = exact_terms(H)
        nn = E.get(x, y, p, 0)
        cplx = any(isinstance(c[k], complex) for k in ('t', 'u', 'mu', 'h'))
        if cplx:
            s.count('complex amplitude')
            doc, modes = None, (x * y if c['kind'] in ('fh-spinless', 'bose') else 2 * x * y)
        elif c['kind'] == 'fh-spinful':
            doc = doc_fermi_hubbard(x, y, c['t'], c['u'], c['mu'], c['h'], False, c['phs'], nn)
            modes = 2 * x * y
        elif c['kind'] == 'fh-spinless':
            doc = doc_fermi_hubbard(x, y, c['t'], c['u'], c['mu'], c['h'], True, c['phs'], nn)
            modes = x * y
        elif c['kind'] == 'bose':
            doc = doc_bose_hubbard(x, y, c['t'], c['u'], c['mu'], c['h'], nn)
            modes = x * y
        else:
            doc = doc_dwave(x, y, c['t'], c['u'], c['mu'], E.get(x, y, p, 2), E.get(x, y, p, 3))
            modes = 2 * x * y
        if not cplx:
            compare_doc(s, c['kind'], c, impl, doc, fermion=(cls == 'fermion'))
        # Hermiticity on every lattice size: dictionary level, up to the order of commuting number operators
        dag = dagger_dict(impl)
        if cls == 'boson':
            dag = {tuple(sorted(t, key=lambda f: f[0])): v for t, v in dag.items()}
        if canon_dict(impl, cls == 'fermion') != canon_dict(dag, cls == 'fermion'):
            s.violate(c['kind'] + ' is not Hermitian (term dictionary)', c, None)
        # linear-map oracles
        if cls == 'fermion' and modes <= 8:
            Hj = jop
            if not cplx:
                orc.add(c['kind'] + ' does not denote the docstring Hamiltonian', c, spec_eq('fermion', modes, leaf(Hj), leaf(dict_to_op(doc))))
            orc.add(c['kind'] + ' is not Hermitian', c,
                    spec_eq('fermion', modes, leaf(Hj), leaf(dict_to_op(dagger_dict(impl)))))
            if c['kind'] != 'dwave' or c['u'] == 0:
                orc.add(c['kind'] + ' does not conserve the particle number', c,
                        commutator_zero('fermion', modes, Hj, dict_to_op(number_dict(range(modes)))))
            if c['kind'] != 'fh-spinless':
                orc.add(c['kind'] + ' does not conserve S_z', c,
                        commutator_zero('fermion', modes, Hj, dict_to_op(sz_dict(x * y))))
            s.count('spec.eq-lattices')
        elif cls == 'boson' and modes <= 3:
            Hj = jop
            if not cplx:
                orc.add('bose_hubbard does not denote the docstring Hamiltonian', c, spec_eq('boson', modes, leaf(Hj), leaf(dict_to_op(doc)), 2))
            dag = {tuple(sorted(t, key=lambda f: f[0])): v for t, v in dagger_dict(impl).items()}
            orc.add('bose_hubbard is not Hermitian', c, spec_eq('boson', modes, leaf(Hj), leaf(dict_to_op(dag)), 2))
            orc.add('bose_hubbard does not conserve the particle number', c,
                    commutator_zero('boson', modes, Hj, dict_to_op(number_dict(range(modes))), 2))
            s.count('spec.eq-lattices')
    orc.flush()
    return s


# ---------------------------------------------------------------- stream 3: FermiHubbardModel

SP_CODE = {'ALL': 0, 'SAME': 1, 'DIFF': 2}


def gen_fhm(rng, big, types=None):
    x, y = rng.choice([(1, 2), (2, 1), (2, 2), (1, 3), (3, 1), (2, 3), (3, 2), (3, 3), (1, 1), (2, 4), (4, 2)] if big
                      else [(1, 2), (2, 1), (2, 2), (1, 3), (3, 1), (2, 3), (3, 2), (3, 3), (1, 1)])
    n_dofs = rng.choice([1, 1, 2, 2, 3])
    spinless = rng.random() < 0.5
    periodic = rng.random() < 0.5
    c = {'x': x, 'y': y, 'n_dofs': n_dofs, 'spinless': spinless, 'periodic': periodic,
         'phs': rng.random() < 0.3, 'h': coupling(rng, 0.4, types=types), 'style': rng.randrange(3)}
    tun, inter, pot = [], [], []
    for _ in range(rng.randint(0, 3)):
        e = rng.randrange(5)
        a, aa = rng.randrange(n_dofs), rng.randrange(n_dofs)
        if e == 0 and a == aa:
            if n_dofs == 1:
                continue
            aa = (a + 1) % n_dofs
        tun.append([e, a, aa, complex_coupling(rng) if rng.random() < 0.1 else coupling(rng, 0.05, types=types)])
    for _ in range(rng.randint(0, 3)):
        e = rng.randrange(5)
        a, aa = rng.randrange(n_dofs), rng.randrange(n_dofs)
        sp = rng.choice(['ALL', 'SAME', 'DIFF'])
        if e == 0 and a == aa and sp == 'SAME':
            sp = 'DIFF'
        inter.append([e, a, aa, rng.choice([1.0, 1, coupling(rng, 0.05, types=types)]), sp])
    for _ in range(rng.randint(0, 2)):
        pot.append([rng.randrange(n_dofs), coupling(rng, 0.05, types=types)])
    c.update(tunneling=tun, interaction=inter, potential=pot)
    return c


def fhm_args(c):
    """(T) the parameter containers as tuples or lists (records, dof pairs and the outer sequences), chosen by c['style']"""
    from openfermion.utils import SpinPairs
    style = c.get('style', 0)
    rec = tuple if style == 0 else list
    outer = list if style != 2 else tuple
    dofs = tuple if style != 1 else list
    tun = outer(rec((EDGE_NAMES[e], dofs((a, aa)), t)) for e, a, aa, t in c['tunneling'])
    inter = outer(rec((EDGE_NAMES[e], dofs((a, aa)), u, getattr(SpinPairs, sp))) for e, a, aa, u, sp in c['interaction'])
    pot = outer(rec((d, m)) for d, m in c['potential'])
    return tun, inter, pot


def fhm_build(of, c, args=None):
    from openfermion.utils import HubbardSquareLattice
    lat = HubbardSquareLattice(c['x'], c['y'], n_dofs=c['n_dofs'], spinless=c['spinless'], periodic=c['periodic'])
    tun, inter, pot = args if args is not None else fhm_args(c)
    return of.FermiHubbardModel(lat, tunneling_parameters=tun, interaction_parameters=inter, potential_parameters=pot,
                                magnetic_field=c['h'], particle_hole_symmetry=c['phs'])


def fhm_request(c, part='hamiltonian'):
    return {'op': 'c13.fhm', 'x': c['x'], 'y': c['y'], 'n_dofs': c['n_dofs'], 'spinless': c['spinless'],
            'periodic': c['periodic'], 'phs': c['phs'], 'h': to_gq(c['h']), 'part': part,
            'tunneling': [[e, a, aa, to_gq(t)] for e, a, aa, t in c['tunneling']],
            'interaction': [[e, a, aa, to_gq(u), SP_CODE[sp]] for e, a, aa, u, sp in c['interaction']],
            'potential': [[d, to_gq(m)] for d, m in c['potential']]}


def doc_fhm(c, E):
    """docstring Hamiltonian of FermiHubbardModel over the Spec edge sets"""
    nsv = 1 if c['spinless'] else 2
    per = c['n_dofs'] * nsv
    n_sites = c['x'] * c['y']

    def idx(site, dof, spin):
        return site * per + dof * nsv + spin

    def pairs(e, ordered):
        if e == 0:
            return [(i, i) for i in range(n_sites)]
        ed = E.get(c['x'], c['y'], c['periodic'], EDGE_SPEC_KIND[e])
        return list(ed) + ([(b, a) for a, b in ed] if ordered else [])
    A = Acc()
    shift = HALF if c['phs'] else Fraction(0)
    for e, a, aa, t in c['tunneling']:
        for (r, rr) in pairs(e, a != aa):
            for sp in range(nsv):
                A.hop(idx(r, a, sp), idx(rr, aa, sp), -Fraction(t))
    for e, a, aa, u, spn in c['interaction']:
        for (r, rr) in pairs(e, a != aa):
            same = (a, r) == (aa, rr)
            if same:
                sps = [(0, 1)] if nsv == 2 else []
            elif nsv == 1:
                sps = [(0, 0)]          # "spin_pairs ... is ignored for spinless lattices"
            elif spn == 'ALL':
                sps = [(0, 0), (0, 1), (1, 0), (1, 1)]
            elif spn == 'SAME':
                sps = [(0, 0), (1, 1)]
            else:
                sps = [(0, 1), (1, 0)]
            for (s1, s2) in sps:
                A.nn(idx(r, a, s1), idx(rr, aa, s2), Fraction(u), shift)
    for d, m in c['potential']:
        for site in range(n_sites):
            for sp in range(nsv):
                A.n(idx(site, d, sp), -Fraction(m))
                if shift:
                    A.add((), Fraction(m) * shift)
    if nsv == 2 and c['h']:
        for site in range(n_sites):
            for d in range(c['n_dofs']):
                A.n(idx(site, d, 0), -Fraction(c['h']))
                A.n(idx(site, d, 1), Fraction(c['h']))
    return A.d, n_sites * per


def stream_fhm(ctx, E, only=None):
    of = ctx.of
    s = Stream('fermi-hubbard-model', 'random valid FermiHubbardModel parameter sets (lattices <= 3x3 (thorough: + 2x4, 4x2), n_dofs <= 3, '
               'spinful/spinless, all 5 edge types, SpinPairs ALL/SAME/DIFF, particle-hole flag, dyadic couplings): hamiltonian() and its '
               '4 parts vs Model exactly; docstring formula over Spec edge sets; Hermiticity / N / S_z conservation (spec.eq, <= 8 modes); '
               'FermiHubbardModel = fermi_hubbard where the conventions coincide')
    rng = rng_for(ctx.seed, 'c13-fhm')
    n = budget(ctx.tier, 300, 3000)
    if ctx.drift:
        n = max(n, 600)
    cases = [gen_fhm(rng, ctx.tier == 'thorough', coupling_types(of)) for _ in range(n)]
    if only is not None:
        cases = [only] if 'tunneling' in only else []
    E.prefetch([(c['x'], c['y'], c['periodic'], k) for c in cases for k in (0, 1, 2, 3)])
    parts = ['hamiltonian', 'tunneling', 'interaction', 'potential', 'field']
    model = ctx.driver.run([fhm_request(c, part) for c in cases for part in parts])
    orc = Oracle(ctx, s)
    for k, c in enumerate(cases):
        s.case(c)
        s.count('spinless' if c['spinless'] else 'spinful')
        for p in c['tunneling'] + c['interaction']:
            s.count('edge:' + EDGE_NAMES[p[0]])
        try:
            import copy
            args = fhm_args(c)
            snapshot = copy.deepcopy(args)
            m = fhm_build(of, c, args)
            # (S) every part is computed twice around an in-place modification of the first result; arguments stay untouched
            h0 = m.hamiltonian()
            first = exact_terms(h0)
            h0 *= 2.0
            h0.terms[()] = 7.0
            outs = [m.hamiltonian(), m.tunneling_terms(), m.interaction_terms(), m.potential_terms(), m.field_terms()]
            for o in outs[1:]:
                o *= 0.5
            again = [m.tunneling_terms(), m.interaction_terms(), m.potential_terms(), m.field_terms()]
            for o in outs[1:]:
                o *= 2.0
            if exact_terms(outs[0]) != first or any(exact_terms(a_) != exact_terms(b_) for a_, b_ in zip(again, outs[1:])):
                s.violate('FermiHubbardModel returns different terms after an earlier result was modified in place', c, None)
            if repr(args) != repr(snapshot):
                s.violate('FermiHubbardModel modified its parameter containers', c, {'before': repr(snapshot)[:300], 'after': repr(args)[:300]})
        except Exception as e:  # noqa: BLE001
            s.violate('FermiHubbardModel raised on a valid parameter set', c, repr(e))
            continue
        for part, o, mo in zip(parts, outs, model[5 * k: 5 * k + 5]):
            if canon_op_json(enc_op('fermion', o.terms)) != canon_op_json(mo):
                s.disagree('FermiHubbardModel.' + part, c, enc_op('fermion', o.terms), mo)
                break
        impl = exact_terms(outs[0])
        cplx = any(isinstance(p_[3], complex) for p_ in c['tunneling'])
        if cplx:
            # (A) complex hopping amplitude: the docstring formula is for real couplings; Hermiticity / conservation still apply
            s.count('complex amplitude')
            modes = c['x'] * c['y'] * c['n_dofs'] * (1 if c['spinless'] else 2)
        else:
            doc, modes = doc_fhm(c, E)
            compare_doc(s, 'FermiHubbardModel.hamiltonian()', c, impl, doc)
        if canon_dict(impl) != canon_dict(dagger_dict(impl)):
            s.violate('FermiHubbardModel.hamiltonian() is not Hermitian (term dictionary)', c, None)
        if modes <= 8:
            Hj = enc_op('fermion', outs[0].terms)
            if not cplx:
                orc.add('FermiHubbardModel.hamiltonian() does not denote the docstring Hamiltonian', c,
                        spec_eq('fermion', modes, leaf(Hj), leaf(dict_to_op(doc))))
            orc.add('FermiHubbardModel.hamiltonian() is not Hermitian', c,
                    spec_eq('fermion', modes, leaf(Hj), leaf(dict_to_op(dagger_dict(impl)))))
            orc.add('FermiHubbardModel.hamiltonian() does not conserve the particle number', c,
                    commutator_zero('fermion', modes, Hj, dict_to_op(number_dict(range(modes)))))
            if not c['spinless']:
                szd = {}
                for o in range(modes):
                    szd[((o, 1), (o, 0))] = (HALF if o % 2 == 0 else -HALF, Fraction(0))
                orc.add('FermiHubbardModel.hamiltonian() does not conserve S_z', c,
                        commutator_zero('fermion', modes, Hj, dict_to_op(szd)))
            s.count('spec.eq-models')
    orc.flush()
    # agreement with fermi_hubbard where the conventions coincide (no particle-hole flag)
    from openfermion.utils import HubbardSquareLattice
    rng = rng_for(ctx.seed, 'c13-agree')
    sizes = [(x, y) for x in range(1, 5) for y in range(1, 5)]
    agree_cases = []
    for (x, y) in sizes:
        for p in (True, False):
            for spinless in (True, False):
                t, u, mu, h = coupling(rng), coupling(rng), coupling(rng), coupling(rng)
                agree_cases.append({'agree': True, 'x': x, 'y': y, 'periodic': p, 'spinless': spinless, 't': t, 'u': u, 'mu': mu, 'h': h})
    if only is not None:
        agree_cases = [only] if only.get('agree') else []
    for c in agree_cases:
        if True:
            if True:
                x, y, p, spinless, t, u, mu, h = c['x'], c['y'], c['periodic'], c['spinless'], c['t'], c['u'], c['mu'], c['h']
                c0 = {'agree': True, 'x': x, 'y': y, 'periodic': p, 'spinless': spinless, 't': t, 'u': u, 'mu': mu, 'h': h}
                s.case(c)
                s.count('agreement')
                try:
                    special = of.fermi_hubbard(x, y, t, u, mu, h, p, spinless)
                    lat = HubbardSquareLattice(x, y, periodic=p, spinless=spinless)
                    general = of.FermiHubbardModel(
                        lat, tunneling_parameters=(('neighbor', (0, 0), t),),
                        interaction_parameters=(('neighbor' if spinless else 'onsite', (0, 0), u),),
                        potential_parameters=((0, mu),), magnetic_field=h).hamiltonian()
                except Exception as e:  # noqa: BLE001
                    s.violate('generator raised', c, repr(e))
                    continue
                a, b = canon_dict(exact_terms(special)), canon_dict(exact_terms(general))
                if a != b:
                    keys = sorted(set(a) | set(b), key=str)
                    s.violate('FermiHubbardModel and fermi_hubbard disagree where their conventions coincide', c,
                              {'first_differences(term, fermi_hubbard, FermiHubbardModel)':
                               [(k, a.get(k), b.get(k)) for k in keys if a.get(k) != b.get(k)][:4]})
    return s


# ---------------------------------------------------------------- stream 4: spin operators

def stream_spin(ctx):
    of = ctx.of
    from openfermion.hamiltonians import special_operators as so
    s = Stream('spin-operators', 's_plus/s_minus/sx/sy/sz/s_squared for n <= 4 (thorough 6) vs Model exactly; su(2) relations '
               '[S+,S-]=2Sz, [Sz,S+-]=+-S+-, S^2 = S-S+ + Sz(Sz+1) = Sx^2+Sy^2+Sz^2, Sx=(S+ + S-)/2, Sy=-i(S+ - S-)/2 through spec.eq (n <= 3)')
    names = ['s_plus', 's_minus', 'sx', 'sy', 'sz', 's_squared']
    fn = {'s_plus': so.s_plus_operator, 's_minus': so.s_minus_operator, 'sx': so.sx_operator, 'sy': so.sy_operator,
          'sz': so.sz_operator, 's_squared': so.s_squared_operator}
    ns = list(range(0, budget(ctx.tier, 5, 7)))
    model = iter(ctx.driver.run([{'op': 'c13.spin_op', 'n': n, 'which': w} for n in ns for w in names]))
    orc = Oracle(ctx, s)
    for n in ns:
        ops = {}
        for w in names:
            mo = next(model)
            c = {'n_spatial_orbitals': n, 'operator': w}
            s.case(c)
            try:
                o = fn[w](n)
            except Exception as e:  # noqa: BLE001
                s.violate('spin operator raised', c, repr(e))
                continue
            ops[w] = enc_op('fermion', o.terms)
            if canon_op_json(ops[w]) != canon_op_json(mo):
                s.disagree(w, c, ops[w], mo)
        if len(ops) == 6 and 1 <= n <= 3:
            L = {w: leaf(ops[w]) for w in names}
            c = {'n_spatial_orbitals': n}
            m = 2 * n
            two = [2, 1, 0, 1]
            half = [1, 2, 0, 1]
            mi_half = [0, 1, -1, 2]
            one = leaf([[[], [1, 1, 0, 1]]])

            def comm(a, b):
                return ['sub', ['mul', a, b], ['mul', b, a]]
            orc.add('[S+, S-] != 2 Sz', c, spec_eq('fermion', m, comm(L['s_plus'], L['s_minus']), ['smul', two, L['sz']]))
            orc.add('[Sz, S+] != S+', c, spec_eq('fermion', m, comm(L['sz'], L['s_plus']), L['s_plus']))
            orc.add('[Sz, S-] != -S-', c, spec_eq('fermion', m, comm(L['sz'], L['s_minus']), ['smul', [-1, 1, 0, 1], L['s_minus']]))
            orc.add('S^2 != S- S+ + Sz (Sz + 1)', c, spec_eq('fermion', m, L['s_squared'],
                    ['add', ['mul', L['s_minus'], L['s_plus']], ['mul', L['sz'], ['add', L['sz'], one]]]))
            orc.add('S^2 != Sx^2 + Sy^2 + Sz^2', c, spec_eq('fermion', m, L['s_squared'],
                    ['add', ['add', ['pow', L['sx'], 2], ['pow', L['sy'], 2]], ['pow', L['sz'], 2]]))
            orc.add('Sx != (S+ + S-)/2', c, spec_eq('fermion', m, L['sx'], ['smul', half, ['add', L['s_plus'], L['s_minus']]]))
            orc.add('Sy != -i (S+ - S-)/2', c, spec_eq('fermion', m, L['sy'], ['smul', mi_half, ['sub', L['s_plus'], L['s_minus']]]))
            orc.add('S+ is not the adjoint of S-', c,
                    spec_eq('fermion', m, L['s_plus'], leaf(dict_to_op(dagger_dict({tuple(tuple(f) for f in t): from_gq(cf)
                                                                                   for t, cf in ops['s_minus']})))))
    orc.flush()
    s.exhaustive = True
    return s


# ---------------------------------------------------------------- stream 4b: RichardsonGaudin

def frac_of(g):
    """exact value of a Python / numpy number or Fraction"""
    import numpy
    if isinstance(g, Fraction):
        return g
    if isinstance(g, (bool, int, numpy.integer, numpy.bool_)):
        return Fraction(int(g))
    return Fraction(float(g))


def stream_rg(ctx):
    import numpy
    of = ctx.of
    from openfermion.hamiltonians import RichardsonGaudin
    s = Stream('richardson-gaudin', 'RichardsonGaudin(g, n) for n <= 6 (thorough 9) and dyadic g (incl. 0, negative): hc / hr1 / hr2 / constant '
               'and qubit_operator vs Model exactly; Spec: qubit_operator = sum_p (p+1)(1 - Z_p) + g/2 sum_{p<q} (X_p X_q + Y_p Y_q) '
               '(the DOCIHamiltonian form with hc_p = 2(p+1), hr1 = g), exact dictionaries and spec.eq (n <= 5); Hermitian; conserves the '
               'number of pairs ([H, sum_p Z_p] = 0); diagonal values 2*range(n(n+1)/2 + 1)')
    rng = rng_for(ctx.seed, 'c13-rg')
    cases = [(g, n) for n in range(1, budget(ctx.tier, 7, 10)) for g in (0.5, -0.25, 0.0, coupling(rng, 0.0))]
    # (T) the coupling as an integer type (odd integers: g/2 is not an integer), numpy scalars, Fraction — types the tree
    # rejects are probed once and excluded
    typed = []
    for g in (1, -1, 3, 2, numpy.int64(5), numpy.int32(-3), numpy.float32(0.5), numpy.float64(-0.75), Fraction(1, 2), Fraction(-3, 4), True, 1.0, -0.75):
        try:
            RichardsonGaudin(g, 2).qubit_operator
            typed.append(g)
        except Exception:  # noqa: BLE001
            s.count('coupling type rejected by the tree:' + type(g).__name__)
    cases += [(g, n) for n in range(1, 5) for g in typed]
    model = ctx.driver.run([{'op': 'c13.richardson_gaudin', 'g': to_gq(g), 'n': n} for g, n in cases])
    orc = Oracle(ctx, s)
    for (g, n), mo in zip(cases, model):
        c = {'g': repr(g), 'g_type': type(g).__name__, 'n_qubits': n}
        s.case(c)
        s.count('n=%d' % n)
        s.count('g type:' + type(g).__name__)
        try:
            rg = RichardsonGaudin(g, n)
            Q = rg.qubit_operator
            hc, hr1, hr2, const = rg.hc, rg.hr1, rg.hr2, rg.constant
        except Exception as e:  # noqa: BLE001
            s.violate('RichardsonGaudin raised', c, repr(e))
            continue
        if [to_gq(v) for v in hc] != mo['hc'] or [[to_gq(v) for v in row] for row in hr1] != mo['hr1']:
            s.disagree('RichardsonGaudin hc / hr1', c, [hc.tolist(), hr1.tolist()], [mo['hc'], mo['hr1']])
        jop = enc_op('qubit', Q.terms)
        if mo['qubit_operator'] is None or canon_op_json(jop) != canon_op_json(mo['qubit_operator']):
            s.disagree('RichardsonGaudin.qubit_operator', c, jop, mo['qubit_operator'])
        # Spec: the documented form
        gf = frac_of(g)
        doc = {(): (Fraction(n * (n + 1), 2), Fraction(0))}
        for p in range(n):
            doc[((p, 'Z'),)] = (Fraction(-(p + 1)), Fraction(0))
            for q in range(p + 1, n):
                if gf != 0:
                    doc[((p, 'X'), (q, 'X'))] = (gf / 2, Fraction(0))
                    doc[((p, 'Y'), (q, 'Y'))] = (gf / 2, Fraction(0))
        impl = {t: fr(v) for t, v in Q.terms.items() if fr(v) != (0, 0)}
        if impl != doc:
            keys = sorted(set(impl) | set(doc), key=str)
            s.violate('RichardsonGaudin.qubit_operator differs from the documented Hamiltonian', c,
                      {'first_differences(term, implementation, documented)':
                       [(k, impl.get(k), doc.get(k)) for k in keys if impl.get(k) != doc.get(k)][:4]})
        if any(numpy.asarray(a_).dtype.kind != 'f' for a_ in (hc, hr1, hr2)):
            s.violate('RichardsonGaudin coefficient arrays are not floating point (they inherit the type of g)', c,
                      {'dtypes': [str(numpy.asarray(a_).dtype) for a_ in (hc, hr1, hr2)]})
        if const != 0 or numpy.any(hr2 != 0) or [float(v) for v in hc] != [2.0 * (p + 1) for p in range(n)] \
                or any(Fraction(float(hr1[p, q])) != (frac_of(g) if p != q else 0) for p in range(n) for q in range(n)):
            s.violate('RichardsonGaudin coefficient arrays differ from hc_p = 2(p+1), hr1 = g (p != q), hr2 = 0', c,
                      {'hc': hc.tolist(), 'hr1': hr1.tolist(), 'hr2': hr2.tolist(), 'constant': const})
        if n <= 4:
            # the fermionic parent Hamiltonian (n_body_tensors -> InteractionOperator -> get_fermion_operator, as the repo's
            # own test builds it) restricted to the paired (seniority-zero) subspace is the documented qubit Hamiltonian
            try:
                tens = rg.n_body_tensors
                one_b, two_b = numpy.asarray(tens[(1, 0)]), numpy.asarray(tens[(1, 1, 0, 0)])
                if one_b.dtype.kind not in 'fc' or two_b.dtype.kind not in 'fc':
                    s.violate('RichardsonGaudin.n_body_tensors are not floating point', c, {'dtypes': [str(one_b.dtype), str(two_b.dtype)]})
                fop = of.get_fermion_operator(of.InteractionOperator(tens[()], one_b, 0.5 * two_b))
                M = of.get_sparse_operator(fop, 2 * n).toarray()
                idx = [int(''.join(str(b) * 2 for b in bits), 2) for bits in itertools.product((0, 1), repeat=n)]
                ref_op = of.QubitOperator()
                for t_, v_ in doc.items():
                    ref_op += of.QubitOperator(t_, float(v_[0]))
                Rm = of.get_sparse_operator(ref_op, n).toarray()
                s.float_comparisons += len(idx) ** 2
                s.count('oracle:fermionic form on the paired subspace')
                if numpy.max(numpy.abs(M[numpy.ix_(idx, idx)] - Rm)) > 1e-9:
                    s.violate('the fermionic form of RichardsonGaudin (n_body_tensors) restricted to the paired subspace is not the documented Hamiltonian', c,
                              {'max_difference': float(numpy.max(numpy.abs(M[numpy.ix_(idx, idx)] - Rm)))})
                if Fraction(float(tens[()])) != 0:
                    s.violate('RichardsonGaudin constant is not 0', c, {'constant': repr(tens[()])})
            except Exception as e:  # noqa: BLE001
                s.violate('the fermionic form of RichardsonGaudin raised', c, repr(e))
        if n <= 5:
            enc = lambda d: [[[[i, {'X': 1, 'Y': 2, 'Z': 3}[a]] for i, a in t], [v[0].numerator, v[0].denominator, v[1].numerator, v[1].denominator]]
                             for t, v in d.items()]
            orc.add('RichardsonGaudin.qubit_operator does not denote the documented Hamiltonian', c,
                    spec_eq('qubit', n, leaf(jop), leaf(enc(doc))))
            ztot = [[[[p, 3]], [1, 1, 0, 1]] for p in range(n)]
            orc.add('RichardsonGaudin does not conserve the number of pairs', c, commutator_zero('qubit', n, jop, ztot))
            conj = [[t, [cf[0], cf[1], -cf[2], cf[3]]] for t, cf in jop]
            orc.add('RichardsonGaudin.qubit_operator is not Hermitian', c, spec_eq('qubit', n, leaf(jop), leaf(conj)))
    orc.flush()
    return s


# ---------------------------------------------------------------- stream 5: grid and jellium

TOL = 1e-9


def close_dicts(stream, a, b, band=0.0):
    """max scaled difference |a - b| / max(1, |a|, |b|) over the union of keys (missing = 0): absolute for O(1)
    coefficients, relative for large ones; keys whose two values are both below `band` are skipped (coefficients next to
    the library's own 1e-8 pruning threshold); counts float comparisons"""
    worst, wk = 0.0, None
    for k in set(a) | set(b):
        x, y = complex(a.get(k, 0.0)), complex(b.get(k, 0.0))
        if band and abs(x) < band and abs(y) < band:
            continue
        d = abs(x - y) / max(1.0, abs(x), abs(y))
        stream.float_comparisons += 1
        if d > worst:
            worst, wk = d, k
    return worst, wk


def float_terms(op):
    return {t: complex(c) for t, c in op.terms.items()}


def normal_order_number_pairs(d):
    """a^ a b^ b keys of the dual-basis potential: canonical mode order"""
    out = {}
    for t, c in d.items():
        k, sgn = canon_term(t)
        out[k] = out.get(k, 0.0) + sgn * c
    return out


def stream_grid(ctx):
    import numpy
    of = ctx.of
    from openfermion.utils import Grid
    from openfermion.hamiltonians import jellium as jm
    s = Stream('grid-jellium', 'Grid.orbital_id / grid_indices (random lengths, dimension <= 3) vs Model exactly and inverse of each other; '
               'plane_wave_kinetic / plane_wave_potential vs Model (keys exactly, coefficients = exact rational x unit at 1e-9); '
               'dual_basis_jellium_model index structure vs Model with K(delta), P(delta) evaluated independently; jellium_model on every '
               'flag combination: Hermitian, number conserving, Madelung constant added exactly once, plane-wave one-body part = DFT of the '
               'dual-basis one-body part, isospectral (<= 8 qubits), jordan_wigner_dual_basis_jellium = jordan_wigner(model)')
    rng = rng_for(ctx.seed, 'c13-grid')
    # --- index arithmetic
    lens = [[1], [2], [3], [5], [2, 3], [3, 2], [4, 3], [1, 4], [2, 2, 3], [3, 1, 2], [3, 4, 2]]
    lens += [[rng.randint(1, 5) for _ in range(rng.randint(1, 3))] for _ in range(budget(ctx.tier, 6, 40))]
    reqs, meta = [], []
    for L in lens:
        g = Grid(len(L), tuple(L), 1.0)
        for coords in itertools.product(*[range(l) for l in L]):
            for spin in (None, 0, 1):
                reqs.append({'op': 'c13.orbital_id', 'length': L, 'coords': list(coords), 'spin': spin})
                meta.append(('oid', g, L, coords, spin))
        npts = int(numpy.prod(L))
        for q in range(2 * npts):
            for spinless in (True, False):
                if spinless and q >= npts:
                    continue
                reqs.append({'op': 'c13.grid_indices', 'length': L, 'qubit': q, 'spinless': spinless})
                meta.append(('gi', g, L, q, spinless))
    ans = ctx.driver.run(reqs)
    seen = {}
    for (kind, g, L, a, b), mo in zip(meta, ans):
        c = {'length': L, 'call': kind, 'args': [list(a) if kind == 'oid' else a, b]}
        s.case(c)
        s.count('index:' + kind)
        try:
            if kind == 'oid':
                io = int(g.orbital_id(tuple(a), b))
                back = [int(v) for v in g.grid_indices(io, b is None)]
                if back != list(a):
                    s.violate('grid_indices(orbital_id(c)) != c', c, {'orbital_id': io, 'grid_indices': back})
                key = (tuple(L), b is None, io)
                if key in seen and seen[key] != (tuple(a), b):
                    s.violate('orbital_id is not injective', c, {'other': seen[key]})
                seen[key] = (tuple(a), b)
            else:
                io = [int(v) for v in g.grid_indices(a, b)]
                spin = None if b else a % 2
                if int(g.orbital_id(tuple(io), spin)) != a:
                    s.violate('orbital_id(grid_indices(q)) != q', c, {'grid_indices': io})
        except Exception as e:  # noqa: BLE001
            s.violate('Grid index function raised on an admissible input', c, repr(e))
            continue
        if io != mo:
            s.disagree('Grid.' + ('orbital_id' if kind == 'oid' else 'grid_indices'), c, io, mo)
    # --- jellium generators
    # cubic cells (float scale) and sheared / non-symmetric supercells (matrix scale, columns = cell vectors)
    grids = [([2], 1.0), ([3], 2.0), ([4], 0.5), ([5], 1.5), ([2, 2], 1.0), ([3, 3], 2.0), ([2, 3], 1.0), ([3, 2], 0.75),
             ([2, 2], [[1.3, 0.5], [0.0, 0.9]]), ([3, 2], [[1.0, 0.4], [0.2, 1.5]]), ([2, 3], [[0.8, -0.3], [0.5, 1.1]]),
             ([3], [[1.7]]),
             # large cells: |k|^2 down to 4e-9, potential coefficients up to 1e4 (coefficients of the kinetic term fall
             # below the library's 1e-8 pruning there: they lie in the skipped band, see close_dicts)
             ([3], 1.0e5), ([3], 2.0e4), ([4], 5.0e4), ([2, 2], 1.0e3), ([3, 2], 3.0e4)]
    # sequences of grids with the same dimension, lengths and volume but different cell shapes, A, B, C, D, A again: every
    # generator is called for each of them in this order within the one process (a result memoised on (dimension, length,
    # volume) would be reused), each time against the independent construction
    grids += [([3, 2], [[1.0, 0.0], [0.0, 4.0]]), ([3, 2], [[4.0, 0.0], [0.0, 1.0]]), ([3, 2], [[2.0, 1.0], [0.0, 2.0]]),
              ([3, 2], 2.0), ([3, 2], [[1.0, 0.0], [0.0, 4.0]]),
              ([3], 2.0), ([3], [[-2.0]]), ([3], 2.0)]
    if ctx.tier == 'thorough' or ctx.drift:
        grids += [([2, 2], [[1.0, 0.0], [0.0, 4.0]]), ([2, 2], [[4.0, 0.0], [0.0, 1.0]]), ([2, 2], 2.0), ([2, 2], [[1.0, 0.0], [0.0, 4.0]])]
    if ctx.tier == 'thorough':
        grids += [([2, 2, 2], [[1.0, 0, 0], [0, 1.0, 0], [0, 0, 4.0]]), ([2, 2, 2], [[4.0, 0, 0], [0, 1.0, 0], [0, 0, 1.0]]),
                  ([2, 2, 2], [[1.0, 0, 0], [0, 1.0, 0], [0, 0, 4.0]])]
        grids += [([6], 1.0), ([4, 4], 1.25), ([4, 3], 1.0), ([2, 2, 2], 1.0), ([3, 2, 2], 2.0), ([3, 3, 3], 1.5),
                  ([3, 3], [[1.2, 0.7], [-0.1, 0.9]]), ([2, 2, 2], [[1.0, 0.2, 0.1], [0.0, 1.1, 0.3], [0.4, 0.0, 0.9]]),
                  ([2, 2], [[0.0, 1.1], [0.7, 0.2]])]
    elif ctx.drift:
        # changed source: more grids, still within the quick time limit
        grids += [([6], 1.0), ([2, 2, 2], 1.0), ([3, 3], [[1.2, 0.7], [-0.1, 0.9]]),
                  ([2, 2, 2], [[1.0, 0.2, 0.1], [0.0, 1.1, 0.3], [0.4, 0.0, 0.9]]), ([2, 2], [[0.0, 1.1], [0.7, 0.2]])]
    # (T) cells given as INTEGER-dtype matrices (all entries Python ints here): the Grid is built from an int64 / int32 array,
    # the independent construction below uses exact float64 arithmetic on the same cell
    grids += [([3], [[2]]), ([3, 2], [[2, 1], [0, 3]]), ([2, 2], [[2, 1], [0, 3]])]
    if ctx.tier == 'thorough' or ctx.drift:
        grids += [([3, 2], [[2, 0], [0, 3]]), ([2, 3], [[3, -1], [1, 2]])]
    for _ in range(budget(ctx.tier, 2, 8)):
        L = [rng.randint(2, 3), rng.randint(2, 3)]
        M = [[rng.randint(4, 12) / 8, rng.randint(-6, 6) / 8], [rng.randint(-6, 6) / 8, rng.randint(4, 12) / 8]]
        if abs(M[0][0] * M[1][1] - M[0][1] * M[1][0]) > 0.25:
            grids.append((L, M))
    pi = math.pi
    for L, scale in grids:
        dim = len(L)
        cubic = isinstance(scale, float)
        S = numpy.diag([scale] * dim) if cubic else numpy.array(scale, dtype=float)
        band = 1e-7 if float(numpy.max(numpy.abs(S))) >= 1e3 else 0.0
        int_cell = (not cubic) and all(isinstance(v, int) and not isinstance(v, bool) for row in scale for v in row)
        try:
            if int_cell:
                cell_dtype = numpy.int64 if (len(L) + sum(L)) % 2 == 0 else numpy.int32
                s.count('integer-dtype cell:' + cell_dtype.__name__)
                g = Grid(dim, tuple(L), numpy.array(scale, dtype=cell_dtype))
            else:
                g = Grid(dim, tuple(L), scale if cubic else numpy.array(scale, dtype=float))
        except Exception as e:  # noqa: BLE001
            s.violate('Grid raised on an admissible cell', {'length': L, 'scale': scale}, repr(e))
            continue
        V = abs(float(numpy.linalg.det(S)))
        B = 2 * pi * numpy.linalg.inv(S).T        # columns b_i with b_i . a_j = 2 pi delta_ij
        npts = int(numpy.prod(L))
        pts = list(itertools.product(*[range(l) for l in L]))

        def kvec(idx):
            return B @ numpy.array([idx[i] - L[i] // 2 for i in range(dim)], dtype=float)

        def rvec(idx):
            return S @ numpy.array([(idx[i] - L[i] // 2) / L[i] for i in range(dim)], dtype=float)
        # Grid geometry against the docstring ("vectors are stored as columns"; reciprocal lattice b_i . a_j = 2 pi delta_ij)
        cg = {'length': L, 'scale': scale, 'call': 'Grid geometry'}
        s.case(cg)
        s.count('grid-geometry:' + ('cubic' if cubic else 'matrix-scale'))
        try:
            s.float_comparisons += 1 + dim * dim + 2 * dim * len(pts)
            if abs(g.volume_scale() - V) > TOL * max(1.0, V):
                s.violate('Grid.volume_scale() is not |det(scale)|', cg, {'volume_scale': float(g.volume_scale()), 'det': V})
            dual = numpy.array(g.reciprocal_scale).T @ numpy.array(g.scale)
            if numpy.max(numpy.abs(dual - 2 * pi * numpy.eye(dim))) > TOL:
                s.violate('reciprocal lattice vectors do not satisfy b_i . a_j = 2 pi delta_ij', cg, {'b_i . a_j': dual.tolist()})
            for idx in pts:
                if numpy.max(numpy.abs(numpy.array(g.momentum_vector(idx)) - kvec(idx))) > TOL:
                    s.violate('momentum_vector(indices) is not sum_i n_i b_i', dict(cg, indices=list(idx)),
                              {'momentum_vector': numpy.array(g.momentum_vector(idx)).tolist(), 'expected': kvec(idx).tolist()})
                    break
                if numpy.max(numpy.abs(numpy.array(g.position_vector(idx)) - rvec(idx))) > TOL * max(1.0, float(numpy.max(numpy.abs(S)))):
                    s.violate('position_vector(indices) is not sum_i (n_i / N_i) a_i', dict(cg, indices=list(idx)),
                              {'position_vector': numpy.array(g.position_vector(idx)).tolist(), 'expected': rvec(idx).tolist()})
                    break
        except Exception as e:  # noqa: BLE001
            s.violate('Grid geometry function raised', cg, repr(e))
        for spinless in (True, False):
            if not spinless and npts >= 6 and ctx.tier != 'thorough':
                continue
            if npts * (1 if spinless else 2) > 32:
                continue
            c = {'length': L, 'scale': scale, 'spinless': spinless}
            s.case(c)
            s.count('jellium-grids')
            mk, mp, ms, sk, sp_ = ctx.driver.run([
                {'op': 'c13.pw_kinetic', 'length': L, 'spinless': spinless},
                {'op': 'c13.pw_potential', 'length': L, 'spinless': spinless},
                {'op': 'c13.dual_structure', 'length': L, 'spinless': spinless, 'kinetic': True, 'potential': True},
                {'op': 'c13.pw_kinetic_struct', 'length': L, 'spinless': spinless},
                {'op': 'c13.pw_potential_struct', 'length': L, 'spinless': spinless}])
            try:
                K = jm.plane_wave_kinetic(g, spinless)
                P = jm.plane_wave_potential(g, spinless)
                D = jm.dual_basis_jellium_model(g, spinless)
                flags = {}
                for pw in (True, False):
                    for const in (True, False):
                        for nonper in (True, False):
                            flags[(pw, const, nonper)] = jm.jellium_model(g, spinless, pw, const, None, nonper)
            except Exception as e:  # noqa: BLE001
                s.violate('jellium generator raised on an admissible grid', c, repr(e))
                continue
            # Model (exact rational x unit): cubic cells only
            if cubic:
                for name, impl, mo, unit in (('plane_wave_kinetic', K, mk, (pi / scale) ** 2),
                                             ('plane_wave_potential', P, mp, scale * scale / (pi * V))):
                    md = {tuple((i, a) for i, a in t): float(Fraction(cf[0], cf[1])) * unit for t, cf in mo}
                    idd = float_terms(impl)
                    if name == 'plane_wave_potential' and set(md) != set(idd):
                        s.disagree(name + ' keys', c, sorted(map(str, set(idd) ^ set(md)))[:6], 'symmetric difference of key sets')
                    worst, wk = close_dicts(s, idd, md, band)
                    if worst > TOL:
                        s.disagree(name + ' coefficient', c, [wk, idd.get(wk)], [wk, md.get(wk)])
            # any cell: index structure from the Model, |k|^2 from the independent numpy reciprocal basis
            # (plane_wave_kinetic = sum_k |k|^2/2 n_k;  plane_wave_potential coefficient (2 pi / V) / |k_omega|^2)
            mdk, mdp = {}, {(): 0.0}
            for t, n in sk:
                k = B @ numpy.array(n, dtype=float)
                key = tuple((i, a) for i, a in t)
                mdk[key] = mdk.get(key, 0.0) + float(k.dot(k)) / 2.0
            for t, n in sp_:
                k = B @ numpy.array(n, dtype=float)
                key = tuple((i, a) for i, a in t)
                mdp[key] = mdp.get(key, 0.0) + (2 * pi / V) / float(k.dot(k))
            for name, impl, md in (('plane_wave_kinetic', K, mdk), ('plane_wave_potential', P, mdp)):
                idd = float_terms(impl)
                if name == 'plane_wave_potential' and set(md) != set(idd):
                    s.disagree(name + ' keys', c, sorted(map(str, set(idd) ^ set(md)))[:6], 'symmetric difference of key sets')
                worst, wk = close_dicts(s, idd, md, band)
                if worst > TOL:
                    s.violate(name + ' coefficient differs from the formula over the reciprocal lattice', c,
                              {'term': wk, 'implementation': idd.get(wk), 'expected': md.get(wk)})
            # dual basis: structure from the Model, coefficients evaluated here
            Kd, Pd = {}, {}
            for b in pts:
                diff = rvec(b) - rvec((0,) * dim)
                kk = pp = 0.0
                for m in pts:
                    k = kvec(m)
                    k2 = float(k.dot(k))
                    if k2 == 0:
                        continue
                    cs = math.cos(float(k.dot(diff)))
                    kk += cs * k2 / (2.0 * npts)
                    pp += (2 * pi / V) * cs / k2
                Kd[b], Pd[b] = kk, pp
            md = {}
            for t, kind, delta in ms:
                key = tuple((i, a) for i, a in t)
                md[key] = md.get(key, 0.0) + (Kd if kind == 0 else Pd)[tuple(delta)]
            worst, wk = close_dicts(s, float_terms(D), md, band)
            if worst > TOL:
                s.disagree('dual_basis_jellium_model', c, [wk, float_terms(D).get(wk)], [wk, md.get(wk)])
            # docstring / physics oracles on the implementation's own output
            nq = npts * (1 if spinless else 2)
            const_expected = 2.8372 / V ** (1.0 / dim)
            for (pw, const, nonper), H in flags.items():
                cc = dict(c, plane_wave=pw, include_constant=const, non_periodic=nonper)
                s.count('jellium-flag-combinations')
                ft = float_terms(H)
                # number conservation: every term has as many creation as annihilation operators
                if any(sum(1 for _, a in t if a == 1) * 2 != len(t) for t in ft):
                    s.violate('jellium_model has a term that changes the particle number', cc, None)
                # Hermiticity (normal-ordered comparison by the library's normal_ordered, trusted via C03)
                Hn = of.normal_ordered(H)
                Hd = of.normal_ordered(of.hermitian_conjugated(H))
                worst, wk = close_dicts(s, float_terms(Hn), float_terms(Hd), band)
                if worst > TOL:
                    s.violate('jellium_model is not Hermitian', cc, {'term': wk, 'difference': worst})
                # constant added exactly once
                base = float_terms(flags[(pw, False, nonper)])
                got = ft.get((), 0.0) - base.get((), 0.0)
                s.float_comparisons += 1
                if abs(got - (const_expected if const else 0.0)) > TOL:
                    s.violate('Madelung constant is not added exactly once', cc,
                              {'constant_added': got, 'expected': const_expected if const else 0.0})
                rest_a = {k: v for k, v in ft.items() if k != ()}
                rest_b = {k: v for k, v in base.items() if k != ()}
                worst, wk = close_dicts(s, rest_a, rest_b, band)
                if worst > TOL:
                    s.violate('include_constant changes a non-constant term', cc, {'term': wk})
            # plane-wave one-body part and dual-basis one-body part are related by the Fourier transform of the
            # docstring: c_v^dagger = N^-1/2 sum_m a_m^dagger exp(-i k_v r_m)  =>  T_db = F^T diag(T_pw) conj(F)
            Hpw = float_terms(flags[(True, False, False)])
            Hdb = float_terms(flags[(False, False, False)])
            nsp = 1 if spinless else 2
            strides = [int(numpy.prod(L[:i])) for i in range(dim)]
            by_oid = {sum(p[i] * strides[i] for i in range(dim)): p for p in pts}
            F = numpy.array([[numpy.exp(-1j * float(kvec(by_oid[v]).dot(rvec(by_oid[m])))) for m in range(npts)]
                             for v in range(npts)]) / math.sqrt(npts)
            for sp in range(nsp):
                Tpw = numpy.zeros((npts, npts), complex)
                Tdb = numpy.zeros((npts, npts), complex)
                for (src, T) in ((Hpw, Tpw), (Hdb, Tdb)):
                    for t, cf in src.items():
                        if len(t) == 2 and t[0][1] == 1 and t[1][1] == 0 and t[0][0] % nsp == sp and t[1][0] % nsp == sp:
                            T[t[0][0] // nsp, t[1][0] // nsp] += cf
                expect = F.T @ Tpw @ F.conj()
                s.float_comparisons += npts * npts
                if numpy.max(numpy.abs(expect - Tdb)) > 1e-8:
                    s.violate('dual-basis one-body term is not the Fourier transform of the plane-wave kinetic term', c,
                              {'max_difference': float(numpy.max(numpy.abs(expect - Tdb))), 'spin': sp})
            # isospectrality and the direct qubit form
            if nq <= 8:
                for nonper in (False, True):
                    sa = of.get_sparse_operator(flags[(True, True, nonper)], nq).toarray()
                    sb = of.get_sparse_operator(flags[(False, True, nonper)], nq).toarray()
                    ea, eb = numpy.linalg.eigvalsh(sa), numpy.linalg.eigvalsh(sb)
                    s.float_comparisons += len(ea)
                    s.count('isospectrality:non_periodic=%s' % nonper)
                    if numpy.max(numpy.abs(ea - eb)) > 1e-8 * max(1.0, float(numpy.max(numpy.abs(ea)))):
                        s.violate('momentum-space and position-space jellium are not isospectral', dict(c, non_periodic=nonper),
                                  {'max_difference': float(numpy.max(numpy.abs(ea - eb)))})
            for const in (True, False):
                try:
                    Q = jm.jordan_wigner_dual_basis_jellium(g, spinless, const)
                    R = of.jordan_wigner(flags[(False, const, False)])
                except Exception as e:  # noqa: BLE001
                    s.violate('jordan_wigner_dual_basis_jellium raised', c, repr(e))
                    continue
                worst, wk = close_dicts(s, float_terms(Q), float_terms(R), band)
                if worst > TOL:
                    s.violate('jordan_wigner_dual_basis_jellium differs from jordan_wigner(dual_basis_jellium_model)',
                              dict(c, include_constant=const), {'term': wk, 'difference': worst})
    typed_cells(ctx, s)
    return s


def typed_cells(ctx, s):
    """(T) the dtype of the Grid's `scale`: integer / single-precision cell matrices vs the same cell as float64 and vs exact
    rational arithmetic (an intermediate buffer that inherits an integer dtype would truncate fractional coordinates)"""
    import importlib
    import numpy
    of = ctx.of
    from openfermion.utils import Grid
    from openfermion.hamiltonians import jellium as jm
    pwh = importlib.import_module('openfermion.hamiltonians.plane_wave_hamiltonian')
    pi = math.pi
    cells = [((3, 2), [[2, 0], [0, 3]]), ((3,), [[2]]), ((3, 2), [[2, 1], [0, 3]]), ((2, 3), [[3, -1], [1, 2]]), ((4,), [[3]])]
    if ctx.tier != 'thorough':
        cells = cells[1:3] if not ctx.drift else cells[1:4]
    dtypes = ['int64', 'int32', 'int16', 'uint8', 'uint16', 'float32', 'float64', 'python-int', 'list']
    for L, M in cells:
        dim = len(L)
        if any(v < 0 for row in M for v in row):
            dts = [d for d in dtypes if not d.startswith('uint')]
        else:
            dts = dtypes
        gf = Grid(dim, tuple(L), numpy.array(M, dtype=float))
        # exact rational geometry
        FM = [[Fraction(v) for v in row] for row in M]
        if dim == 1:
            det = FM[0][0]
            inv = [[1 / det]]
        else:
            det = FM[0][0] * FM[1][1] - FM[0][1] * FM[1][0]
            inv = [[FM[1][1] / det, -FM[0][1] / det], [-FM[1][0] / det, FM[0][0] / det]]
        pts = list(itertools.product(*[range(l) for l in L]))
        ref = {'dual': jm.dual_basis_jellium_model(gf, True, True, True, True), 'dual2': jm.dual_basis_jellium_model(gf, False),
               'jellium_dual': jm.jellium_model(gf, True, False), 'jellium_pw': jm.jellium_model(gf, True, True, True),
               'jw': jm.jordan_wigner_dual_basis_jellium(gf, True, True), 'kinetic': jm.plane_wave_kinetic(gf, False),
               'potential': jm.plane_wave_potential(gf, True), 'dual_kinetic': jm.dual_basis_kinetic(gf, True),
               'dual_potential': jm.dual_basis_potential(gf, True)}
        geom = [('H', tuple(float(x) for x in numpy.array(M, dtype=float) @ numpy.array([0.25] * dim))), ('Li', (0.5,) * dim)]
        ref['external_dual'] = pwh.dual_basis_external_potential(gf, geom, True)
        ref['external_pw'] = pwh.plane_wave_external_potential(gf, geom, True)
        ref['jw_hamiltonian'] = pwh.jordan_wigner_dual_basis_hamiltonian(gf, geom, True)
        for dt in dts:
            c = {'length': list(L), 'scale': M, 'scale_dtype': dt}
            try:
                if dt == 'python-int':
                    if dim != 1:
                        continue
                    g = Grid(dim, tuple(L), M[0][0])
                elif dt == 'list':
                    g = Grid(dim, tuple(L), M)
                else:
                    g = Grid(dim, tuple(L), numpy.array(M, dtype=getattr(numpy, dt)))
            except Exception:  # noqa: BLE001
                s.count('scale type rejected by the tree:' + dt)
                continue                      # a type the tree rejects is excluded, never an alarm
            s.case(c)
            s.count('scale dtype:' + dt)
            # Grid converts the cell to float64 (repo fix e08c4481): every dtype is compared at 1e-12; a float32 cell has
            # exactly representable entries here, so its float64 conversion is the same cell
            single = False
            tol = 1e-12
            try:
                s.float_comparisons += 1 + 2 * dim * len(pts) + dim * dim
                if abs(float(g.volume_scale()) - float(abs(det))) > (1e-6 if single else 1e-12) * float(abs(det)):
                    s.violate('Grid.volume_scale() is not |det(scale)| (exact rational arithmetic)', c, {'volume_scale': float(g.volume_scale())})
                R = numpy.array(g.reciprocal_scale, dtype=float)
                for i in range(dim):
                    for j in range(dim):
                        if abs(R[i, j] - 2 * pi * float(inv[j][i])) > tol * 10:
                            s.violate('Grid.reciprocal_scale is not 2 pi inv(scale)^T (exact rational arithmetic)', c,
                                      {'entry': [i, j], 'got': float(R[i, j]), 'expected': 2 * pi * float(inv[j][i])})
                for pt in pts:
                    nfr = [Fraction(pt[i] - L[i] // 2, L[i]) for i in range(dim)]
                    nk = [pt[i] - L[i] // 2 for i in range(dim)]
                    pos = [float(sum(FM[r][i] * nfr[i] for i in range(dim))) for r in range(dim)]
                    mom = [2 * pi * float(sum(inv[i][r] * nk[i] for i in range(dim))) for r in range(dim)]
                    if numpy.max(numpy.abs(numpy.array(g.position_vector(pt), dtype=float) - numpy.array(pos))) > (1e-6 if single else 1e-12):
                        s.violate('position_vector differs from the exact rational value (integer / narrow scale dtype)', dict(c, indices=list(pt)),
                                  {'got': numpy.array(g.position_vector(pt), dtype=float).tolist(), 'expected': pos})
                        break
                    if numpy.max(numpy.abs(numpy.array(g.momentum_vector(pt), dtype=float) - numpy.array(mom))) > tol * 10:
                        s.violate('momentum_vector differs from the exact rational value times 2 pi (integer / narrow scale dtype)', dict(c, indices=list(pt)),
                                  {'got': numpy.array(g.momentum_vector(pt), dtype=float).tolist(), 'expected': mom})
                        break
                got = {'dual': jm.dual_basis_jellium_model(g, True, True, True, True), 'dual2': jm.dual_basis_jellium_model(g, False),
                       'jellium_dual': jm.jellium_model(g, True, False), 'jellium_pw': jm.jellium_model(g, True, True, True),
                       'jw': jm.jordan_wigner_dual_basis_jellium(g, True, True), 'kinetic': jm.plane_wave_kinetic(g, False),
                       'potential': jm.plane_wave_potential(g, True), 'dual_kinetic': jm.dual_basis_kinetic(g, True),
                       'dual_potential': jm.dual_basis_potential(g, True),
                       'external_dual': pwh.dual_basis_external_potential(g, geom, True),
                       'external_pw': pwh.plane_wave_external_potential(g, geom, True),
                       'jw_hamiltonian': pwh.jordan_wigner_dual_basis_hamiltonian(g, geom, True)}
                for name, op in got.items():
                    worst, wk = close_dicts(s, float_terms(op), float_terms(ref[name]))
                    if worst > tol:
                        s.violate('a jellium / plane-wave generator depends on the dtype of the Grid scale: ' + name, c,
                                  {'term': wk, 'typed': float_terms(op).get(wk), 'float64': float_terms(ref[name]).get(wk)})
            except Exception as e:  # noqa: BLE001
                s.violate('a Grid with this scale dtype is accepted but a helper / generator raised', c, repr(e))


# ---------------------------------------------------------------- stream 6: Fourier transforms, external potential, cutoffs

def stream_planewave(ctx):
    import numpy
    of = ctx.of
    from openfermion.utils import Grid
    from openfermion.hamiltonians import jellium as jm
    import importlib
    pwh = importlib.import_module('openfermion.hamiltonians.plane_wave_hamiltonian')
    from openfermion.transforms.repconversions import fourier_transforms as ftm
    from openfermion.chem.molecular_data import periodic_hash_table
    s = Stream('fourier-planewave', 'fourier_transform / inverse_fourier_transform of random one-body operators vs the substitution '
               'c_v^dagger = N^-1/2 sum_m a_m^dagger exp(-i k_v r_m) evaluated with numpy, round trip, fourier_transform(plane-wave jellium) = '
               'dual-basis jellium; dual_basis_external_potential / plane_wave_external_potential / plane_wave_hamiltonian / '
               'jordan_wigner_dual_basis_hamiltonian with nuclei vs the docstring formula; e_cutoff / non_periodic / period_cutoff in '
               'plane_wave_kinetic / plane_wave_potential vs the formula over the Model index structure; wigner_seitz_length_scale and '
               'hypercube_grid_with_given_wigner_seitz_radius_and_filling; float comparisons at 1e-9')
    rng = rng_for(ctx.seed, 'c13-pw')
    pi = math.pi
    grids = [([2], 1.5), ([3], 1.5), ([4], 1.1), ([2, 2], 1.0), ([2, 2], 1.7), ([2, 2], [[1.3, 0.5], [0.0, 0.9]]), ([3], 1.0e5),
             ([2, 2], 2.0e3)]
    if ctx.tier == 'thorough' or ctx.drift:
        grids += [([5], 1.1), ([3, 2], 1.25), ([3, 3], 2.0)]
    for L, scale in grids:
        dim = len(L)
        cubic = isinstance(scale, float)
        S = numpy.diag([scale] * dim) if cubic else numpy.array(scale, dtype=float)
        band = 1e-7 if float(numpy.max(numpy.abs(S))) >= 1e3 else 0.0
        g = Grid(dim, tuple(L), scale if cubic else numpy.array(scale, dtype=float))
        V = abs(float(numpy.linalg.det(S)))
        B = 2 * pi * numpy.linalg.inv(S).T
        npts = int(numpy.prod(L))
        pts = list(itertools.product(*[range(l) for l in L]))
        strides = [int(numpy.prod(L[:i])) for i in range(dim)]
        by_oid = {sum(p[i] * strides[i] for i in range(dim)): p for p in pts}

        def kvec(idx):
            return B @ numpy.array([idx[i] - L[i] // 2 for i in range(dim)], dtype=float)

        def rvec(idx):
            return S @ numpy.array([(idx[i] - L[i] // 2) / L[i] for i in range(dim)], dtype=float)
        # c_v^dagger = sum_m F[v, m] a_m^dagger ;  a_v^dagger = sum_m G[v, m] c_m^dagger
        F = numpy.array([[numpy.exp(-1j * float(kvec(by_oid[v]).dot(rvec(by_oid[m])))) for m in range(npts)]
                         for v in range(npts)]) / math.sqrt(npts)
        G = numpy.array([[numpy.exp(1j * float(kvec(by_oid[m]).dot(rvec(by_oid[v])))) for m in range(npts)]
                         for v in range(npts)]) / math.sqrt(npts)
        for spinless in (True, False):
            nsp = 1 if spinless else 2
            nq = npts * nsp
            if nq > 9:
                continue
            c = {'length': L, 'scale': scale, 'spinless': spinless}
            s.case(c)
            s.count('grids')
            # ---- one-body Fourier transforms
            T = numpy.zeros((nq, nq), complex)
            H = of.FermionOperator()
            for sp in range(nsp):
                for v in range(npts):
                    for w in range(npts):
                        if rng.random() < 0.6:
                            z = complex(rng.randint(-4, 4) / 4, rng.randint(-4, 4) / 4)
                            if z != 0:
                                T[v * nsp + sp, w * nsp + sp] = z
                                H += of.FermionOperator(((v * nsp + sp, 1), (w * nsp + sp, 0)), z)
            for name, fn, M in (('fourier_transform', ftm.fourier_transform, F), ('inverse_fourier_transform', ftm.inverse_fourier_transform, G)):
                try:
                    Ht = fn(H, g, spinless)
                except Exception as e:  # noqa: BLE001
                    s.violate(name + ' raised', c, repr(e))
                    continue
                expect = {}
                for sp in range(nsp):
                    Tsp = T[sp::nsp, sp::nsp]
                    Tt = M.T @ Tsp @ M.conj()
                    for m in range(npts):
                        for n in range(npts):
                            if abs(Tt[m, n]) > 1e-12:
                                expect[((m * nsp + sp, 1), (n * nsp + sp, 0))] = Tt[m, n]
                worst, wk = close_dicts(s, float_terms(Ht), expect, band)
                s.count('oracle:' + name)
                if worst > TOL:
                    s.violate(name + ' of a one-body operator is not the documented substitution', c,
                              {'term': wk, 'implementation': float_terms(Ht).get(wk), 'expected': expect.get(wk)})
            try:
                back = ftm.inverse_fourier_transform(ftm.fourier_transform(H, g, spinless), g, spinless)
                worst, wk = close_dicts(s, float_terms(back), float_terms(H), band)
                if worst > TOL:
                    s.violate('inverse_fourier_transform(fourier_transform(H)) != H', c, {'term': wk, 'difference': worst})
            except Exception as e:  # noqa: BLE001
                s.violate('Fourier round trip raised', c, repr(e))
            # ---- two-body: the Fourier transform of plane-wave jellium is dual-basis jellium
            if nq <= 6:
                try:
                    a = of.normal_ordered(ftm.fourier_transform(jm.jellium_model(g, spinless, True), g, spinless))
                    b = of.normal_ordered(jm.jellium_model(g, spinless, False))
                    worst, wk = close_dicts(s, float_terms(a), float_terms(b), band)
                    s.count('oracle:fourier(jellium)')
                    if worst > 1e-8:
                        s.violate('fourier_transform(momentum-space jellium) is not position-space jellium', c, {'term': wk, 'difference': worst})
                except Exception as e:  # noqa: BLE001
                    s.violate('fourier_transform(jellium) raised', c, repr(e))
            # ---- nuclei
            geom = []
            for sym in rng.sample(['H', 'He', 'Li', 'C'], 2):
                frac = numpy.array([rng.randint(-3, 3) / 8 for _ in range(dim)])
                geom.append((sym, tuple(float(x) for x in S @ frac)))
            cg = dict(c, geometry=geom)
            Vp = {}
            for p_ in pts:
                tot = 0.0
                for sym, R in geom:
                    for m in pts:
                        k = kvec(m)
                        k2 = float(k.dot(k))
                        if k2 == 0:
                            continue
                        tot += (-4 * pi / V) / k2 * periodic_hash_table[sym] * math.cos(float(k.dot(numpy.array(R) - rvec(p_))))
                Vp[p_] = tot
            oid = {p_: sum(p_[i] * strides[i] for i in range(dim)) for p_ in pts}
            expect_db = {((oid[p_] * nsp + sp, 1), (oid[p_] * nsp + sp, 0)): Vp[p_] for p_ in pts for sp in range(nsp)}
            try:
                ext_db = pwh.dual_basis_external_potential(g, geom, spinless)
                ext_pw = pwh.plane_wave_external_potential(g, geom, spinless)
                s.count('oracle:external-potential')
                worst, wk = close_dicts(s, float_terms(ext_db), expect_db, band)
                if worst > TOL:
                    s.violate('dual_basis_external_potential differs from -4 pi/V sum_j sum_k Z_j cos(k.(R_j - r_p))/k^2', cg,
                              {'term': wk, 'implementation': float_terms(ext_db).get(wk), 'expected': expect_db.get(wk)})
                expect_pw = {}
                D = numpy.diag([Vp[by_oid[v]] for v in range(npts)]).astype(complex)
                Tt = G.T @ D @ G.conj()
                for sp in range(nsp):
                    for m in range(npts):
                        for n in range(npts):
                            if abs(Tt[m, n]) > 1e-12:
                                expect_pw[((m * nsp + sp, 1), (n * nsp + sp, 0))] = Tt[m, n]
                worst, wk = close_dicts(s, float_terms(ext_pw), expect_pw, band)
                if worst > TOL:
                    s.violate('plane_wave_external_potential is not the inverse Fourier transform of the dual-basis potential', cg,
                              {'term': wk, 'implementation': float_terms(ext_pw).get(wk), 'expected': expect_pw.get(wk)})
                for pw in (True, False):
                    for nonper in (False, True):
                        Hm = pwh.plane_wave_hamiltonian(g, geom, spinless, pw, False, None, nonper)
                        J = jm.jellium_model(g, spinless, pw, False, None, nonper)
                        ext = pwh.plane_wave_external_potential(g, geom, spinless, None, nonper) if pw \
                            else pwh.dual_basis_external_potential(g, geom, spinless, nonper)
                        worst, wk = close_dicts(s, float_terms(Hm), float_terms(J + ext), band)
                        if worst > TOL:
                            s.violate('plane_wave_hamiltonian is not jellium_model + external potential', dict(cg, plane_wave=pw),
                                      {'term': wk, 'difference': worst})
                    for bad_call, what in ((lambda: pwh.plane_wave_hamiltonian(g, geom, spinless, pw, True), 'include_constant with nuclei'),
                                           (lambda: pwh.plane_wave_hamiltonian(g, [('H', (0.0,) * (dim + 1))], spinless, pw), 'bad coordinate'),
                                           (lambda: pwh.plane_wave_hamiltonian(g, [('Xx', (0.0,) * dim)], spinless, pw), 'bad element')):
                        try:
                            bad_call()
                            s.violate('plane_wave_hamiltonian accepts ' + what, cg, None)
                        except ValueError:
                            pass
                        except Exception as e:  # noqa: BLE001
                            s.violate('plane_wave_hamiltonian raises an undocumented exception for ' + what, cg, repr(e))
                if pwh.plane_wave_hamiltonian(g, None, spinless, True) != jm.jellium_model(g, spinless, True):
                    s.violate('plane_wave_hamiltonian without nuclei is not jellium_model', c, None)
                Q = pwh.jordan_wigner_dual_basis_hamiltonian(g, geom, spinless)
                R = of.jordan_wigner(pwh.plane_wave_hamiltonian(g, geom, spinless, False))
                worst, wk = close_dicts(s, float_terms(Q), float_terms(R), band)
                if worst > TOL:
                    s.violate('jordan_wigner_dual_basis_hamiltonian differs from jordan_wigner(plane_wave_hamiltonian(plane_wave=False))', cg,
                              {'term': wk, 'difference': worst})
            except Exception as e:  # noqa: BLE001
                s.violate('external potential / plane_wave_hamiltonian raised', cg, repr(e))
            # ---- cutoffs
            sk, sp_ = ctx.driver.run([{'op': 'c13.pw_kinetic_struct', 'length': L, 'spinless': spinless},
                                      {'op': 'c13.pw_potential_struct', 'length': L, 'spinless': spinless}])
            k2s = sorted({round(float((B @ numpy.array(n, dtype=float)).dot(B @ numpy.array(n, dtype=float))) / 2.0, 9) for _, n in sk})
            cuts = [None] + [(a + b) / 2 for a, b in zip(k2s, k2s[1:])][:3] + [k2s[-1] + 1.0]
            for e_cut in cuts:
                R0 = V ** (1.0 / dim)
                # boundary values of the explicit cut-off: exactly zero (float, int, numpy scalar) and a tiny positive value are
                # admissible cut-offs, NOT "use the default": the truncated-Coulomb factor 1 - cos(0 |k|) vanishes
                degenerate = ((True, 0.0), (True, 0), (True, numpy.float64(0.0)), (True, 1e-12), (False, 0.0), (False, 0))
                for nonper, pcut in ((False, None), (True, None), (True, 0.7), (True, R0), (True, 0.5 * R0), (True, 2.0 * R0),
                                     (False, 0.5 * R0)) + degenerate:
                    if (nonper, pcut) in degenerate and pcut is not None and float(pcut) < 1e-6 and e_cut is not None \
                            and e_cut != cuts[1]:
                        continue
                    cc = dict(c, e_cutoff=e_cut, non_periodic=nonper, period_cutoff=float(pcut) if pcut is not None else None,
                              period_cutoff_type=type(pcut).__name__)
                    s.count('oracle:cutoffs')
                    Rc = pcut if pcut is not None else V ** (1.0 / dim)
                    ek, ep = {}, {(): 0.0}
                    for t, n in sk:
                        k = B @ numpy.array(n, dtype=float)
                        e = float(k.dot(k)) / 2.0
                        if e_cut is not None and e > e_cut:
                            continue
                        key = tuple((i, a) for i, a in t)
                        ek[key] = ek.get(key, 0.0) + e
                    for t, n in sp_:
                        k = B @ numpy.array(n, dtype=float)
                        k2 = float(k.dot(k))
                        if e_cut is not None and k2 / 2.0 > e_cut:
                            continue
                        cf = (2 * pi / V) / k2
                        if nonper:
                            cf *= 1.0 - math.cos(Rc * math.sqrt(k2))
                        key = tuple((i, a) for i, a in t)
                        ep[key] = ep.get(key, 0.0) + cf
                    try:
                        Kc = jm.plane_wave_kinetic(g, spinless, e_cut)
                        Pc = jm.plane_wave_potential(g, spinless, e_cut, nonper, pcut)
                        Jc = jm.jellium_model(g, spinless, True, False, e_cut, nonper, pcut)
                    except Exception as e:  # noqa: BLE001
                        s.violate('plane-wave generator raised with cutoffs', cc, repr(e))
                        continue
                    for name, impl, md in (('plane_wave_kinetic', Kc, ek), ('plane_wave_potential', Pc, ep)):
                        worst, wk = close_dicts(s, float_terms(impl), md, band)
                        if worst > TOL:
                            s.violate(name + ' with cutoffs differs from the documented formula', cc,
                                      {'term': wk, 'implementation': float_terms(impl).get(wk), 'expected': md.get(wk)})
                    both = dict(ek)
                    for k_, v_ in ep.items():
                        both[k_] = both.get(k_, 0.0) + v_
                    worst, wk = close_dicts(s, float_terms(Jc), both, band)
                    if worst > TOL:
                        s.violate('jellium_model(plane_wave=True) with cutoffs is not kinetic + potential', cc, {'term': wk, 'difference': worst})
                    # the wrappers must hand every optional argument on (explicit period_cutoff, e_cutoff, include_constant,
                    # non_periodic), with and without nuclei, in both bases
                    if e_cut is not None and e_cut != cuts[1]:
                        continue
                    s.count('oracle:wrapper-arguments')
                    try:
                        const = 2.8372 / V ** (1.0 / dim)
                        with_const = dict(both)
                        with_const[()] = with_const.get((), 0.0) + const
                        checks = [('plane_wave_hamiltonian(plane_wave=True)', pwh.plane_wave_hamiltonian(g, None, spinless, True, False, e_cut, nonper, pcut), both),
                                  ('plane_wave_hamiltonian(plane_wave=True, include_constant=True)',
                                   pwh.plane_wave_hamiltonian(g, None, spinless, True, True, e_cut, nonper, pcut), with_const)]
                        if 'expect_pw' in dir() and 'geom' in dir():
                            s.count('oracle:wrapper-arguments with nuclei')
                            with_ext = dict(both)
                            for k_, v_ in expect_pw.items():
                                with_ext[k_] = with_ext.get(k_, 0.0) + v_
                            checks.append(('plane_wave_hamiltonian(geometry, plane_wave=True)',
                                           pwh.plane_wave_hamiltonian(g, geom, spinless, True, False, e_cut, nonper, pcut), with_ext))
                            checks.append(('plane_wave_external_potential', pwh.plane_wave_external_potential(g, geom, spinless, e_cut, nonper, pcut), expect_pw))
                            checks.append(('dual_basis_external_potential', pwh.dual_basis_external_potential(g, geom, spinless, nonper, pcut), expect_db))
                            Jd = jm.jellium_model(g, spinless, False, False, e_cut, nonper, pcut)
                            dual_ext = {k_: v_ for k_, v_ in float_terms(Jd).items()}
                            for k_, v_ in expect_db.items():
                                dual_ext[k_] = dual_ext.get(k_, 0.0) + v_
                            checks.append(('plane_wave_hamiltonian(geometry, plane_wave=False)',
                                           pwh.plane_wave_hamiltonian(g, geom, spinless, False, False, e_cut, nonper, pcut), dual_ext))
                        checks.append(('plane_wave_hamiltonian(plane_wave=False, include_constant=True)',
                                       pwh.plane_wave_hamiltonian(g, None, spinless, False, True, e_cut, nonper, pcut),
                                       float_terms(jm.jellium_model(g, spinless, False, True, e_cut, nonper, pcut))))
                        for name, impl, md in checks:
                            worst, wk = close_dicts(s, float_terms(impl), md, band)
                            if worst > TOL:
                                s.violate(name + ' does not hand its optional arguments on / differs from the independently built Hamiltonian', cc,
                                          {'term': wk, 'implementation': float_terms(impl).get(wk), 'expected': md.get(wk)})
                        if e_cut is None and not nonper and pcut is None:
                            for ic in (True, False):
                                Q = pwh.jordan_wigner_dual_basis_hamiltonian(g, None, spinless, ic)
                                R = of.jordan_wigner(pwh.plane_wave_hamiltonian(g, None, spinless, False, ic))
                                worst, wk = close_dicts(s, float_terms(Q), float_terms(R), band)
                                if worst > TOL:
                                    s.violate('jordan_wigner_dual_basis_hamiltonian(include_constant) differs from jordan_wigner(plane_wave_hamiltonian)',
                                              dict(cc, include_constant=ic), {'term': wk, 'difference': worst})
                    except Exception as e:  # noqa: BLE001
                        s.violate('a plane-wave wrapper raised with explicit optional arguments', cc, repr(e))
    # ---- Wigner-Seitz helpers
    for dimension in (1, 2, 3, 4, 5):
        for rs in (1.0, 2.5):
            for n_particles in (1, 3, 10):
                c = {'call': 'wigner_seitz_length_scale', 'radius': rs, 'n_particles': n_particles, 'dimension': dimension}
                s.case(c)
                vol = math.pi ** (dimension / 2.0) / math.gamma(dimension / 2.0 + 1.0) * rs ** dimension
                want = (vol * n_particles) ** (1.0 / dimension)
                try:
                    got = jm.wigner_seitz_length_scale(rs, n_particles, dimension)
                except Exception as e:  # noqa: BLE001
                    s.violate('wigner_seitz_length_scale raised', c, repr(e))
                    continue
                s.float_comparisons += 1
                if abs(got - want) > 1e-9 * max(1.0, want):
                    s.violate('wigner_seitz_length_scale is not (n V_d(r_s))^(1/d) with V_d the volume of the d-ball', c, {'got': got, 'expected': want})
    for dimension, length, rs, fill, spinless in ((1, 4, 1.5, 0.5, True), (2, 3, 2.0, 0.5, False), (3, 2, 1.0, 0.25, True), (2, 2, 3.0, 1.0, False)):
        c = {'call': 'hypercube_grid_with_given_wigner_seitz_radius_and_filling', 'dimension': dimension, 'grid_length': length,
             'radius': rs, 'filling': fill, 'spinless': spinless}
        s.case(c)
        try:
            gg = jm.hypercube_grid_with_given_wigner_seitz_radius_and_filling(dimension, length, rs, fill, spinless)
            nqb = length ** dimension * (1 if spinless else 2)
            npart = int(math.floor(nqb * fill))
            vol = math.pi ** (dimension / 2.0) / math.gamma(dimension / 2.0 + 1.0) * rs ** dimension
            want = (vol * npart) ** (1.0 / dimension)
            s.float_comparisons += 1
            if gg.dimensions != dimension or tuple(gg.length) != (length,) * dimension or abs(gg.volume_scale() - want ** dimension) > 1e-9 * want ** dimension:
                s.violate('hypercube grid has the wrong shape or volume', c, {'length': list(gg.length), 'volume': float(gg.volume_scale()), 'expected_volume': want ** dimension})
        except Exception as e:  # noqa: BLE001
            s.violate('hypercube_grid_with_given_wigner_seitz_radius_and_filling raised', c, repr(e))
    return s


# ---------------------------------------------------------------- stream 7: small helpers

def stream_helpers(ctx):
    of = ctx.of
    from openfermion.utils import HubbardSquareLattice
    from openfermion.hamiltonians import special_operators as so
    s = Stream('helpers', 'majorana_operator (both types, tuple and string forms) vs the docstring and the Clifford relations through spec.eq; '
               'number_operator(n_modes) = sum of mode number operators; HubbardSquareLattice index helpers: to/from_site_index and '
               'to/from_spin_orbital_index inverse of each other, n_*_neighbor_pairs = length of the iterators, delta_mag / '
               'manhattan_distance vs the lattice metric, dof_pairs_iter')
    orc = Oracle(ctx, s)
    # majorana operators
    n = 3
    gam = {}
    for mode in range(n):
        for typ in (0, 1):
            c = {'call': 'majorana_operator', 'mode': mode, 'type': typ}
            s.case(c)
            try:
                a = so.majorana_operator((mode, typ), 1.0)
                b = so.majorana_operator(('c' if typ == 0 else 'd') + str(mode))
                z = so.majorana_operator((mode, typ), 0.5)
            except Exception as e:  # noqa: BLE001
                s.violate('majorana_operator raised', c, repr(e))
                continue
            want = {((mode, 1),): (ONE, Fraction(0)), ((mode, 0),): (ONE, Fraction(0))} if typ == 0 else \
                {((mode, 1),): (Fraction(0), ONE), ((mode, 0),): (Fraction(0), -ONE)}
            if exact_terms(a) != want or exact_terms(b) != want:
                s.violate('majorana_operator differs from a^dagger + a / i (a^dagger - a)', c, {'tuple_form': str(a), 'string_form': str(b)})
            if exact_terms(z) != {k: (v[0] / 2, v[1] / 2) for k, v in want.items()}:
                s.violate('majorana_operator ignores the coefficient', c, {'operator': str(z)})
            gam[(mode, typ)] = enc_op('fermion', a.terms)
    one = leaf([[[], [1, 1, 0, 1]]])
    for ka, A in gam.items():
        for kb, Bop in gam.items():
            c = {'call': 'majorana anticommutator', 'a': list(ka), 'b': list(kb)}
            anti = ['add', ['mul', leaf(A), leaf(Bop)], ['mul', leaf(Bop), leaf(A)]]
            rhs = ['smul', [2, 1, 0, 1], one] if ka == kb else ['smul', [0, 1, 0, 1], one]
            orc.add('majorana operators do not satisfy {g_a, g_b} = 2 delta_ab', c, spec_eq('fermion', n, anti, rhs))
    for bad in (('x1',), ((1, 2),), (5,)):
        try:
            so.majorana_operator(*bad)
            s.violate('majorana_operator accepts an invalid specification', {'call': 'majorana_operator', 'term': repr(bad)}, None)
        except ValueError:
            pass
        except Exception as e:  # noqa: BLE001
            s.violate('majorana_operator raises an undocumented exception', {'call': 'majorana_operator', 'term': repr(bad)}, repr(e))
    if exact_terms(so.majorana_operator()) != {}:
        s.violate('majorana_operator() is not the zero operator', {'call': 'majorana_operator'}, None)
    # total number operator
    for parity in (-1, 1):
        for nm in (0, 1, 4):
            c = {'call': 'number_operator', 'n_modes': nm, 'parity': parity}
            s.case(c)
            try:
                N = so.number_operator(nm, None, 0.5, parity)
            except Exception as e:  # noqa: BLE001
                s.violate('number_operator raised', c, repr(e))
                continue
            if exact_terms(N) != {((m, 1), (m, 0)): (HALF, Fraction(0)) for m in range(nm)} or \
                    type(N) is not (of.FermionOperator if parity == -1 else of.BosonOperator):
                s.violate('number_operator(n_modes) is not the sum of the mode number operators', c, {'operator': str(N)})
    try:
        so.number_operator(2, 0, 1.0, 0)
        s.violate('number_operator accepts parity 0', {'call': 'number_operator'}, None)
    except ValueError:
        pass
    # lattice helpers
    for (x, y) in [(1, 1), (1, 4), (2, 2), (2, 3), (3, 2), (3, 3), (4, 5)]:
        for periodic in (True, False):
            for n_dofs, spinless in ((1, False), (2, True), (3, False)):
                lat = HubbardSquareLattice(x, y, n_dofs=n_dofs, spinless=spinless, periodic=periodic)
                c = {'x': x, 'y': y, 'periodic': periodic, 'n_dofs': n_dofs, 'spinless': spinless}
                s.case(c)
                try:
                    bad = []
                    for i in range(lat.n_sites):
                        if lat.to_site_index(lat.from_site_index(i)) != i or tuple(lat.from_site_index(i)) != (i % x, i // x):
                            bad.append(('site index', i))
                    seen = set()
                    for i in range(lat.n_sites):
                        for d in range(n_dofs):
                            for sp in lat.spin_indices:
                                o = lat.to_spin_orbital_index(i, d, sp)
                                if tuple(lat.from_spin_orbital_index(o)) != (i, d, sp) or not 0 <= o < lat.n_spin_orbitals:
                                    bad.append(('spin orbital index', (i, d, sp)))
                                seen.add(o)
                    if len(seen) != lat.n_spin_orbitals:
                        bad.append(('spin orbital indices are not a bijection', len(seen)))
                    for o in (True, False):
                        if lat.n_horizontal_neighbor_pairs(o) != len(list(lat.horizontal_neighbors_iter(o))) or \
                                lat.n_vertical_neighbor_pairs(o) != len(list(lat.vertical_neighbors_iter(o))) or \
                                lat.n_neighbor_pairs(o) != len(list(lat.neighbors_iter(o))):
                            bad.append(('n_*_neighbor_pairs', o))
                    if list(lat.dof_pairs_iter(False)) != [(a, b) for a in range(n_dofs) for b in range(a, n_dofs)] or \
                            list(lat.dof_pairs_iter(True)) != [(a, b) for a in range(n_dofs) for b in range(a + 1, n_dofs)]:
                        bad.append(('dof_pairs_iter', None))
                    for i in range(lat.n_sites):
                        for j in range(lat.n_sites):
                            (xi, yi), (xj, yj) = (i % x, i // x), (j % x, j // x)
                            dx, dy = abs(xi - xj), abs(yi - yj)
                            if periodic:
                                dx, dy = min(dx, x - dx), min(dy, y - dy)
                            if tuple(lat.delta_mag(i, j, True)) != (dx, dy) or lat.manhattan_distance(i, j, True) != dx + dy:
                                bad.append(('delta_mag / manhattan_distance', (i, j)))
                    if bad:
                        s.violate('HubbardSquareLattice helper disagrees with the lattice geometry', c, {'first': bad[:3]})
                except Exception as e:  # noqa: BLE001
                    s.violate('HubbardSquareLattice helper raised', c, repr(e))
    # documented rejections (ValueError / OrbitalSpecificationError) and thin wrappers
    from openfermion.utils import Grid, SpinPairs
    from openfermion.utils.grid import OrbitalSpecificationError
    from openfermion.hamiltonians import jellium as jm
    lat = HubbardSquareLattice(3, 3)
    lat1 = HubbardSquareLattice(2, 2, n_dofs=2)
    rejections = [
        ('onsite tunneling between the same dof', lambda: of.FermiHubbardModel(lat, tunneling_parameters=[('onsite', (0, 0), 1.0)]), ValueError),
        ('interaction parameter of length 2', lambda: of.FermiHubbardModel(lat, interaction_parameters=[(0, 0)]), ValueError),
        ('interaction parameter of length 5', lambda: of.FermiHubbardModel(lat, interaction_parameters=[(0,) * 5]), ValueError),
        ('onsite same-dof same-spin interaction', lambda: of.FermiHubbardModel(lat, interaction_parameters=[('onsite', (0, 0), 1.0, SpinPairs.SAME)]), ValueError),
        ('unknown edge type', lambda: of.FermiHubbardModel(lat, tunneling_parameters=[('banana', (0, 0), 1.0)]), ValueError),
        ('dof out of range', lambda: of.FermiHubbardModel(lat, potential_parameters=[(1, 1.0)]), ValueError),
        ('dof pair out of range', lambda: of.FermiHubbardModel(lat1, tunneling_parameters=[('neighbor', (0, 2), 1.0)]), ValueError),
        ('site_pairs_iter of an unknown edge type', lambda: list(lat.site_pairs_iter('banana')), ValueError),
        ('spin_pairs_iter of an unknown specification', lambda: list(lat.spin_pairs_iter('banana')), ValueError),
        ('Grid with dimension 0', lambda: Grid(0, 2, 1.0), ValueError),
        ('Grid with a negative length', lambda: Grid(1, -1, 1.0), ValueError),
        ('Grid with an integer scale', lambda: Grid(1, 2, 1), ValueError),
        ('Grid with a negative scale', lambda: Grid(1, 2, -1.0), ValueError),
        ('position_vector outside the grid', lambda: Grid(2, 3, 1.0).position_vector((1, 3)), OrbitalSpecificationError),
        ('momentum_vector outside the grid', lambda: Grid(2, 3, 1.0).momentum_vector((3, 0)), OrbitalSpecificationError),
        ('orbital_id outside the grid', lambda: Grid(2, 3, 1.0).orbital_id((0, 3)), OrbitalSpecificationError),
        ('grid_indices of a qubit outside the register', lambda: Grid(2, 3, 1.0).grid_indices(9, True), OrbitalSpecificationError),
        ('grid_indices of a negative qubit', lambda: Grid(2, 3, 1.0).grid_indices(-1, False), OrbitalSpecificationError),
        ('wigner_seitz_length_scale in dimension 0', lambda: jm.wigner_seitz_length_scale(1.0, 1, 0), ValueError),
        ('hypercube grid with filling > 1', lambda: jm.hypercube_grid_with_given_wigner_seitz_radius_and_filling(1, 2, 1.0, 1.5), ValueError),
        ('hypercube grid without particles', lambda: jm.hypercube_grid_with_given_wigner_seitz_radius_and_filling(1, 2, 1.0, 0.1), ValueError),
    ]
    for label, call, exc in rejections:
        c = {'call': 'documented rejection', 'input': label}
        s.case(c)
        s.count('oracle:rejections')
        try:
            call()
            s.violate('an invalid input is accepted', c, None)
        except exc:
            pass
        except Exception as e:  # noqa: BLE001
            s.violate('an invalid input raises an undocumented exception', c, repr(e))
    for L, scale in (([3], 1.5), ([2, 2], 1.0)):
        g = Grid(len(L), tuple(L), scale)
        for spinless in (True, False):
            c = {'call': 'dual_basis_kinetic / dual_basis_potential', 'length': L, 'spinless': spinless}
            s.case(c)
            try:
                if jm.dual_basis_kinetic(g, spinless) != jm.dual_basis_jellium_model(g, spinless, True, False) or \
                        jm.dual_basis_potential(g, spinless) != jm.dual_basis_jellium_model(g, spinless, False, True) or \
                        exact_terms(jm.dual_basis_kinetic(g, spinless) + jm.dual_basis_potential(g, spinless)) != \
                        exact_terms(jm.dual_basis_jellium_model(g, spinless)):
                    s.violate('dual_basis_kinetic + dual_basis_potential is not dual_basis_jellium_model', c, None)
            except Exception as e:  # noqa: BLE001
                s.violate('dual_basis_kinetic / dual_basis_potential raised', c, repr(e))
    orc.flush()
    return s


# ---------------------------------------------------------------- stream 8: state / aliasing and argument types

def stream_state_types(ctx):
    """families (S) and (T) of the hardening checklist for the functions the other streams drive"""
    import copy
    import importlib
    import numpy
    of = ctx.of
    from openfermion.utils import Grid, HubbardSquareLattice
    from openfermion.hamiltonians import jellium as jm, RichardsonGaudin
    from openfermion.hamiltonians import special_operators as so
    from openfermion.transforms.repconversions import fourier_transforms as ftm
    pwh = importlib.import_module('openfermion.hamiltonians.plane_wave_hamiltonian')
    s = Stream('state-and-types', '(S) every generator / helper is called twice around an in-place modification of what the first call '
               'returned, arguments are snapshotted before / after, results must not alias arguments or earlier results; (T) lattice '
               'dimensions, flags, grid lengths, coordinates, geometries and couplings as numpy integer / float / bool types and as tuples '
               'vs lists (types the tree under test rejects are probed once and excluded): the result must equal the plain call')
    rng = rng_for(ctx.seed, 'c13-state')

    def same_op(a, b):
        return exact_terms(a) == exact_terms(b)

    def twice(label, c, f, mutate, equal):
        """f() twice around mutate(first); equal(first snapshot, second)"""
        s.case(dict(c, call=label))
        s.count('oracle:(S) ' + label.split('(')[0])
        try:
            r1 = f()
            snap = copy.deepcopy(r1)
            mutate(r1)
            r2 = f()
            if not equal(snap, r2):
                s.violate(label + ' returns a different result after its first result was modified in place', c, None)
            if r1 is r2 and not isinstance(r1, (int, float, bool, str, tuple, type(None))):
                s.violate(label + ' returns the same object twice', c, None)
        except Exception as e:  # noqa: BLE001
            s.violate(label + ' raised', c, repr(e))

    def mut_op(o):
        o *= 2.0
        o.terms[()] = 5.0

    def mut_arr(a):
        a *= 0
        a += 17

    # ---- lattice dimension / flag types (T)
    dim_types = {}
    for name, ty in (('int64', numpy.int64), ('int32', numpy.int32), ('uint8', numpy.uint8), ('bool-flag', None)):
        try:
            if ty is not None:
                of.fermi_hubbard(ty(2), ty(2), 1.0, 1.0)
                of.bose_hubbard(ty(2), ty(2), 1.0, 1.0)
                of.mean_field_dwave(ty(2), ty(2), 1.0, 1.0)
                list(HubbardSquareLattice(ty(2), ty(2)).site_pairs_iter('neighbor'))
            dim_types[name] = ty
        except Exception:  # noqa: BLE001
            pass
    for name in dim_types:
        s.count('accepted dimension type:' + name)
    for (x, y) in [(1, 3), (2, 2), (2, 3), (3, 2), (3, 3), (4, 2)]:
        for p in (True, False):
            c = {'x': x, 'y': y, 'periodic': p}
            ref = [of.fermi_hubbard(x, y, 1.0, 0.5, 0.25, 0.125, p), of.fermi_hubbard(x, y, 1.0, 0.5, 0.25, 0.0, p, True),
                   of.bose_hubbard(x, y, 1.0, 0.5, 0.25, 0.125, p), of.mean_field_dwave(x, y, 1.0, 0.5, 0.25, p)]
            lat = HubbardSquareLattice(x, y, periodic=p)
            ref_pairs = {(e, o): sorted(lat.site_pairs_iter(e, o)) for e in EDGE_NAMES for o in (True, False)}
            for name, ty in dim_types.items():
                cc = dict(c, type=name)
                s.case(cc)
                s.count('oracle:(T) dimension types')
                try:
                    if ty is None:
                        xx, yy, pp, sl = x, y, (1 if p else 0), 1      # truthy ints instead of bools
                    else:
                        xx, yy, pp, sl = ty(x), ty(y), numpy.bool_(p), numpy.bool_(True)
                    got = [of.fermi_hubbard(xx, yy, 1.0, 0.5, 0.25, 0.125, pp), of.fermi_hubbard(xx, yy, 1.0, 0.5, 0.25, 0.0, pp, sl),
                           of.bose_hubbard(xx, yy, 1.0, 0.5, 0.25, 0.125, pp), of.mean_field_dwave(xx, yy, 1.0, 0.5, 0.25, pp)]
                    if any(not same_op(a, b) for a, b in zip(got, ref)):
                        s.violate('a Hubbard generator depends on the numeric type of the lattice dimensions / flags', cc, None)
                    lat2 = HubbardSquareLattice(xx, yy, periodic=pp)
                    for (e, o), want in ref_pairs.items():
                        if sorted((int(a), int(b)) for a, b in lat2.site_pairs_iter(e, o)) != want:
                            s.violate('site_pairs_iter depends on the numeric type of the lattice dimensions / flags', dict(cc, edge=e), None)
                            break
                except Exception as e:  # noqa: BLE001
                    s.violate('a generator accepted this type on a 2 x 2 lattice but raised here', cc, repr(e))
    # ---- (T) integer-typed couplings: every generator with Python ints (odd values: halves must not be truncated), bools and
    # numpy integers / float32 / Fraction where the tree accepts them, compared with the float form
    from fractions import Fraction as Fr
    import numpy as np_
    pools = {'int': lambda v: int(v), 'int64': lambda v: np_.int64(v), 'int32': lambda v: np_.int32(v),
             'float32': lambda v: np_.float32(v), 'Fraction': lambda v: Fr(v), 'float64': lambda v: np_.float64(v)}
    vals = [(1, 3, -1, 2), (-1, 1, 3, -3), (3, -5, 2, 1), (2, 7, -3, 5)]
    gens = {
        'fermi_hubbard': lambda t, u, mu, h, p: of.fermi_hubbard(2, 2, t, u, mu, h, p),
        'fermi_hubbard(particle_hole_symmetry)': lambda t, u, mu, h, p: of.fermi_hubbard(2, 2, t, u, mu, h, p, False, True),
        'fermi_hubbard(spinless, particle_hole_symmetry)': lambda t, u, mu, h, p: of.fermi_hubbard(3, 2, t, u, mu, h, p, True, True),
        'bose_hubbard': lambda t, u, mu, h, p: of.bose_hubbard(2, 3, t, u, mu, h, p),
        'mean_field_dwave': lambda t, u, mu, h, p: of.mean_field_dwave(2, 2, t, u, mu, p),
        'FermiHubbardModel': lambda t, u, mu, h, p: of.FermiHubbardModel(
            HubbardSquareLattice(2, 2, n_dofs=2, periodic=p), tunneling_parameters=[('neighbor', (0, 1), t), ('onsite', (0, 1), u)],
            interaction_parameters=[('onsite', (0, 0), u), ('neighbor', (0, 1), t)], potential_parameters=[(1, mu)],
            magnetic_field=h, particle_hole_symmetry=True).hamiltonian(),
    }
    for gname, gen in gens.items():
        for tname, conv in pools.items():
            try:
                gen(conv(1), conv(1), conv(1), conv(1), True)
            except Exception:  # noqa: BLE001
                s.count('coupling type rejected by the tree:%s:%s' % (gname.split('(')[0], tname))
                continue
            for (t, u, mu, h) in vals:
                for p in (True, False):
                    c = {'generator': gname, 'coupling_type': tname, 't': t, 'u': u, 'mu': mu, 'h': h, 'periodic': p}
                    s.case(c)
                    s.count('oracle:(T) integer couplings')
                    try:
                        ref = gen(float(t), float(u), float(mu), float(h), p)
                        got = gen(conv(t), conv(u), conv(mu), conv(h), p)
                        if exact_terms(got) != exact_terms(ref):
                            a_, b_ = exact_terms(got), exact_terms(ref)
                            keys = sorted(set(a_) | set(b_), key=str)
                            s.violate('a generator gives a different Hamiltonian for integer-typed couplings than for the same values as floats', c,
                                      {'first_differences(term, typed, float)': [(k, a_.get(k), b_.get(k)) for k in keys if a_.get(k) != b_.get(k)][:3]})
                    except Exception as e:  # noqa: BLE001
                        s.violate('a generator accepted this coupling type for the value 1 but raised here', c, repr(e))
    # ---- Grid helpers (S), containers (T)
    for L, scale in (([3], 1.5), ([2, 3], 2.0), ([3, 2], [[1.0, 0.4], [0.2, 1.5]])):
        dim = len(L)
        arr = None if isinstance(scale, float) else numpy.array(scale, dtype=float)
        g = Grid(dim, tuple(L), scale if arr is None else arr)
        c = {'length': L, 'scale': scale}
        before = None if arr is None else arr.copy()
        idx = tuple(l - 1 for l in L)
        twice('Grid.position_vector', c, lambda: g.position_vector(idx), mut_arr, numpy.array_equal)
        twice('Grid.momentum_vector', c, lambda: g.momentum_vector(idx), mut_arr, numpy.array_equal)
        twice('Grid.grid_indices', c, lambda: g.grid_indices(int(numpy.prod(L)) - 1, True), lambda r: r.append(9), lambda a, b: list(a) == list(b))
        twice('Grid.index_to_momentum_ints', c, lambda: g.index_to_momentum_ints(idx), mut_arr, numpy.array_equal)
        twice('Grid.momentum_ints_to_index', c, lambda: g.momentum_ints_to_index([1] * dim), lambda r: r.append(9), lambda a, b: list(a) == list(b))
        s.case(dict(c, call='containers'))
        s.count('oracle:(T) grid containers')
        try:
            g2 = Grid(dim, list(L), scale if arr is None else arr.copy())
            g3 = Grid(dim, tuple(L), numpy.float64(scale)) if arr is None else Grid(dim, tuple(L), numpy.asfortranarray(arr.copy()))
            for gg in (g2, g3):
                for pt in itertools.product(*[range(l) for l in L]):
                    if not (numpy.array_equal(gg.position_vector(list(pt)), g.position_vector(pt))
                            and numpy.array_equal(gg.momentum_vector(list(pt)), g.momentum_vector(pt))
                            and gg.orbital_id(list(pt), 1) == g.orbital_id(pt, 1)
                            and gg.orbital_id(numpy.array(pt).tolist()) == g.orbital_id(pt)):
                        s.violate('Grid helpers depend on tuple vs list / float vs numpy.float64 / memory order of their arguments', dict(c, point=list(pt)), None)
                        break
                if npts_le(L, 6):
                    for spinless in (True, False):
                        if not same_op(jm.jellium_model(gg, spinless, True), jm.jellium_model(g, spinless, True)) or \
                                not same_op(jm.jellium_model(gg, spinless, False), jm.jellium_model(g, spinless, False)):
                            s.violate('jellium_model depends on tuple vs list / float type / memory order of the Grid arguments', c, None)
        except Exception as e:  # noqa: BLE001
            s.violate('Grid with list length / numpy.float64 scale / Fortran-ordered scale raised', c, repr(e))
        if npts_le(L, 6):
            for spinless in (True, False):
                cs = dict(c, spinless=spinless)
                twice('plane_wave_kinetic', cs, lambda: jm.plane_wave_kinetic(g, spinless), mut_op, same_op)
                twice('plane_wave_potential', cs, lambda: jm.plane_wave_potential(g, spinless), mut_op, same_op)
                twice('dual_basis_jellium_model', cs, lambda: jm.dual_basis_jellium_model(g, spinless), mut_op, same_op)
                twice('jellium_model(plane_wave=True)', cs, lambda: jm.jellium_model(g, spinless, True, True), mut_op, same_op)
                twice('jordan_wigner_dual_basis_jellium', cs, lambda: jm.jordan_wigner_dual_basis_jellium(g, spinless), mut_op, same_op)
        if before is not None and not numpy.array_equal(before, arr):
            s.violate('a Grid / jellium function modified the scale array it was given', c, None)
    # ---- spin operators, RichardsonGaudin (S), (T)
    for n in (1, 3):
        for name in ('s_plus_operator', 's_minus_operator', 'sx_operator', 'sy_operator', 'sz_operator', 's_squared_operator'):
            twice(name, {'n_spatial_orbitals': n}, lambda: getattr(so, name)(n), mut_op, same_op)
        twice('number_operator', {'n_modes': n}, lambda: so.number_operator(n), mut_op, same_op)
    for g_ in (0.5, 1, numpy.float64(-0.25), True):
        c = {'g': repr(g_), 'n_qubits': 3}
        try:
            rg = RichardsonGaudin(g_, 3)
        except Exception:  # noqa: BLE001
            continue           # a coupling type the tree rejects is excluded
        ref = RichardsonGaudin(float(g_), 3).qubit_operator
        if not same_op(rg.qubit_operator, ref):
            s.violate('RichardsonGaudin depends on the numeric type of g', c, None)
        twice('RichardsonGaudin.qubit_operator', c, lambda: rg.qubit_operator, mut_op, same_op)
        hc0, hr10 = rg.hc.copy(), rg.hr1.copy()
        _ = rg.qubit_operator, rg.n_body_tensors
        if not (numpy.array_equal(hc0, rg.hc) and numpy.array_equal(hr10, rg.hr1)):
            s.violate('RichardsonGaudin.qubit_operator / n_body_tensors modified hc / hr1', c, None)
    # ---- Fourier transforms and nuclei: arguments untouched, containers (S), (T)
    g = Grid(1, 3, 1.5)
    H = of.FermionOperator('0^ 1', 0.5 + 0.25j) + of.FermionOperator('2^ 0', -1.0) + of.FermionOperator('1^ 1', 2.0)
    Hsnap = copy.deepcopy(H)
    c = {'call': 'fourier_transform'}
    twice('fourier_transform', c, lambda: ftm.fourier_transform(H, g, True), mut_op, same_op)
    twice('inverse_fourier_transform', c, lambda: ftm.inverse_fourier_transform(H, g, True), mut_op, same_op)
    if not same_op(H, Hsnap):
        s.violate('fourier_transform modified its argument', c, None)
    geom_t = [('H', (0.25,)), ('Li', (-0.5,))]
    geom_l = [['H', [0.25]], ['Li', [-0.5]]]
    geom_n = [('H', numpy.array([0.25])), ('Li', numpy.array([-0.5]))]
    snap = copy.deepcopy(geom_l)
    c = {'call': 'plane_wave_hamiltonian', 'geometry': geom_l}
    s.case(c)
    s.count('oracle:(T) geometry containers')
    try:
        for pw in (True, False):
            ref = pwh.plane_wave_hamiltonian(g, geom_t, True, pw)
            for gm in (geom_l, geom_n):
                if not same_op(pwh.plane_wave_hamiltonian(g, gm, True, pw), ref):
                    s.violate('plane_wave_hamiltonian depends on tuple vs list vs ndarray coordinates', dict(c, plane_wave=pw), None)
        if not same_op(pwh.jordan_wigner_dual_basis_hamiltonian(g, geom_l, True), pwh.jordan_wigner_dual_basis_hamiltonian(g, geom_t, True)):
            s.violate('jordan_wigner_dual_basis_hamiltonian depends on tuple vs list coordinates', c, None)
        if geom_l != snap:
            s.violate('plane_wave_hamiltonian modified the geometry it was given', c, None)
        twice('plane_wave_hamiltonian', c, lambda: pwh.plane_wave_hamiltonian(g, geom_t, True, True), mut_op, same_op)
        twice('dual_basis_external_potential', c, lambda: pwh.dual_basis_external_potential(g, geom_t, True), mut_op, same_op)
    except Exception as e:  # noqa: BLE001
        s.violate('plane_wave_hamiltonian raised with list / ndarray coordinates', c, repr(e))
    return s


def npts_le(L, n):
    p = 1
    for l in L:
        p *= l
    return p <= n


# ---------------------------------------------------------------- known findings

def sheared_even_class(c):
    """input class of known finding C13-jellium-sheared-even: non-orthogonal cell, an even number of points along
    one dimension and >= 3 points along another"""
    import numpy
    sc, L = c.get('scale'), c.get('length')
    if not isinstance(sc, list) or not L or len(L) < 2:
        return False
    S = numpy.array(sc, dtype=float)
    G = numpy.linalg.inv(S) @ numpy.linalg.inv(S).T
    nonorth = numpy.max(numpy.abs(G - numpy.diag(numpy.diag(G)))) > 1e-12
    return bool(nonorth) and any(L[i] % 2 == 0 and any(L[j] >= 3 for j in range(len(L)) if j != i) for i in range(len(L)))


def classify(v):
    what = v.get('what', '')
    c = v.get('input') or {}
    if v.get('stream') == 'grid-jellium' and (what.startswith('dual-basis one-body term is not the Fourier transform')
                                              or what.startswith('momentum-space and position-space jellium are not isospectral')):
        if sheared_even_class(c):
            return 'C13-jellium-sheared-even'
    if v.get('stream') == 'grid-jellium' and what.startswith('momentum-space and position-space jellium are not isospectral') \
            and c.get('non_periodic') is True:
        return 'C13-dual-basis-non-periodic'
    return None


def probe_known(ctx, k):
    of = ctx.of
    try:
        if k['id'] == 'C13-dual-basis-non-periodic':
            from openfermion.utils import Grid
            g = Grid(1, 3, 1.5)
            a = of.dual_basis_jellium_model(g, True, False, True, False, False)
            b = of.dual_basis_jellium_model(g, True, False, True, False, True)
            return a == b
        if k['id'] == 'C13-jellium-sheared-even':
            import numpy
            from openfermion.utils import Grid
            g = Grid(2, (3, 2), numpy.array([[1.0, 0.4], [0.2, 1.5]]))
            ea = numpy.linalg.eigvalsh(of.get_sparse_operator(of.jellium_model(g, True, True), 6).toarray())
            eb = numpy.linalg.eigvalsh(of.get_sparse_operator(of.jellium_model(g, True, False), 6).toarray())
            return bool(numpy.max(numpy.abs(ea - eb)) > 1e-6)
    except Exception:  # noqa: BLE001
        return True
    return False


def replay(ctx, payload):
    """re-run the recorded failing input; True = it no longer fails"""
    v = payload.get('violation')
    if not v:
        return None
    stream, case = v.get('stream'), v.get('input') or {}
    E = Edges(ctx)
    ctx.seed, ctx.tier = payload.get('seed', ctx.seed), payload.get('tier', ctx.tier)
    if stream == 'bonds':
        s = stream_bonds(ctx, E, only=(case['x'], case['y'], case['periodic']))
        return not s.violations
    if stream == 'hubbard-generators':
        return not stream_hubbard(ctx, E, only=case).violations
    if stream == 'fermi-hubbard-model':
        case = dict(case)
        if 'tunneling' in case:
            case['tunneling'] = [[e, a, aa, complex(*t) if isinstance(t, list) else t] for e, a, aa, t in case['tunneling']]
        return not stream_fhm(ctx, E, only=case).violations
    # deterministic streams: run them again (with and without escalated budgets) and look for the same input
    runner = {'spin-operators': stream_spin, 'grid-jellium': stream_grid, 'richardson-gaudin': stream_rg, 'fourier-planewave': stream_planewave, 'helpers': stream_helpers, 'state-and-types': stream_state_types}.get(stream)
    if runner is None:
        return None
    found_input = False
    for drift in (False, True):
        ctx.drift = drift
        s = runner(ctx)
        for w in s.violations:
            if show(w['input']) == show(case) and w['what'] == v['what']:
                return False
        found_input = found_input or any(show(x) == show(json_norm(case)) for x in s.samples) or True
    return True


def json_norm(x):
    import json
    return json.loads(json.dumps(x, default=str))


def run(ctx):
    E = Edges(ctx)
    return [stream_bonds(ctx, E), stream_hubbard(ctx, E), stream_fhm(ctx, E), stream_spin(ctx), stream_rg(ctx), stream_grid(ctx), stream_planewave(ctx), stream_helpers(ctx), stream_state_types(ctx)]
