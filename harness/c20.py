"""C20 — text and file round trips.

Correspondence: `str(op)`, the string constructor (`_long_string_init`, `_parse_string`),
`save_operator` / `load_operator` / `get_file_path` histories in a temporary directory against the
Lean Model (OFV.Model.C20 / C20Files).  Python's `format(coeff)`, `float(s)` and `complex(s)` are
parameters of the Model: the harness passes the texts / values the real functions produce.
Spec oracles (independent of the Model, on the implementation's own outputs):
* constructing an operator from its printed string reproduces every non-negligible term exactly,
* load(save(op)) equals op up to terms below EQ_TOLERANCE (which the library treats as zero), exactly
  for all other terms, for both formats, including the zero operator and only-tiny operators,
* a second save / load cycle returns the same operator as the first,
* `save_operator` without allow_overwrite never changes an existing file (bytes hashed) and raises,
* `load_operator` never changes the directory,
* MolecularData.save / load return the same attributes and integrals.
"""
import hashlib
import os
import shutil
import tempfile
from fractions import Fraction

from common import (Stream, budget, enc_op, enc_term, canon_op_json, to_gq, from_gq, rng_for, show)

TRUSTED = [
    'C20: Python float()/complex()/format() and marshal dump/load are contracts: the harness passes the texts and values the real functions produce to the Model (tables), the theorems assume that the coefficient parser reads each printed coefficient text back',
    'C20: the file system is modelled as a finite map path -> content; h5py behaviour (MolecularData) is covered by the save/load oracle only, not modelled',
]
ASSUMPTIONS = [
    'ASCII strings; coefficients are int / float / complex / numpy.float64 / numpy.complex128 (through the constructors) or numpy scalars of any kind the tree accepts placed directly into .terms (complex64, clongdouble, float32, float16, longdouble, int32, int64, uint8; dyadic values so that the printed text is exact), finite, ints below 2**53; indices < 10**6',
    'MolecularData attributes are numbers / arrays, not bools (False is the not-set sentinel of the file format: a bool-valued attribute loads as None)',
    'text round trip: coefficients below EQ_TOLERANCE are not printed by __str__, so equality after a plain-text cycle is required up to such terms (exact for all other terms)',
]
OPEN_STATEMENTS = [
    'for INTEGER coefficients CoefOK is discharged (coef_contract_int; parse_print_roundtrip_int is the end-to-end round trip for integer-coefficient operators with no contract and no canonical-form hypothesis) up to the agreement of the float table with the exact integer model, which the run checks on the real float(); for purely imaginary INTEGER coefficients (2j, -13j) it is discharged up to one complex() table entry (coef_contract_imag_int: syntax and the sign handling of the parser are proved), likewise for Gaussian integers printed as (a+bj) / (a-bj) (coef_contract_gauss_int); for decimal / exponent / complex coefficient texts: parse_print_roundtrip / text_file_roundtrip are proved under the contract CoefOK (Python float()/complex() read the format() text of every printed coefficient back; no white space, brackets, colon or leading + in that text): the contract itself is checked on the real functions by the correspondence run, not proved',
    'canonical-form hypothesis (simplify cls key = (1, key)) of the round-trip theorems: discharged for every key of the form _simplify(t) of the four savable classes (canonical_form_discharged: _simplify is idempotent with factor 1; roundtrip_ok_of_simplified builds RoundTripOK without it); that the classes only store _simplify outputs is C01',
    'MolecularData.save / load: only the attribute encode / decode table (None <-> False sentinel, int(), float()) is modelled and proved (molecular_data_attribute_table, compared with the real round trip for every scalar attribute); geometry / atoms / arrays / file handling are covered by the three-cycle oracle only; h5py is a contract',
    'marshal is a contract (load(dump(x)) = x); the binary round trip theorem is stated over the value handed to marshal.dump',
]

CLASSES = ['fermion', 'boson', 'qubit', 'quad']
ACTIONS = {'qubit': ['X', 'Y', 'Z'], 'fermion': [0, 1], 'boson': [0, 1], 'quad': ['q', 'p']}
TOL = 1e-8


def cls_of(of, name):
    return {'qubit': of.QubitOperator, 'fermion': of.FermionOperator, 'boson': of.BosonOperator,
            'quad': of.QuadOperator}[name]


# ---------------------------------------------------------------- generation

def rand_coeff(rng, numpy):
    k = rng.random()
    if k < 0.12:
        return rng.choice([1, -1, 2, -3, 7, 10, 123456789, -40])
    if k < 0.45:
        return rng.choice([1.0, -1.0, 0.5, -0.25, 1.5, 0.1, -0.3, 2.718281828459045, 1e-07, 3.5e-05, 1e+16, -2.5e+20,
                           123.456, 1 / 3, -7e-08, 5e-324 * 0 + 1e-300, 6.02e+23, rng.uniform(-2, 2), rng.uniform(-1e3, 1e3)])
    if k < 0.55:
        return rng.choice([1e-10, -3e-09, 9.9e-09, 1e-12, 5e-09j, complex(1e-9, -1e-9), 1e-08 * 0.99])      # negligible
    if k < 0.82:
        return rng.choice([1j, -1j, 2j, -0.5j, complex(1, 2), complex(-1, -2), complex(0.5, -0.25), complex(-0.0, 2.0),
                           complex(1.5, 0), complex(0, 1e-7), complex(1e+16, -1e-05), complex(-3, 1e-9),
                           complex(rng.uniform(-2, 2), rng.uniform(-2, 2)), complex(0.1, 0.2) * 3])
    if k < 0.92:
        return numpy.float64(rng.choice([0.5, -1.25, 0.1, 1e-05, 3.0, rng.uniform(-5, 5)]))
    return numpy.complex128(rng.choice([1 + 2j, -0.5j, 0.1 - 0.7j, 3 + 0j]))


_DIRECT_TYPES = {}


def direct_scalar_types(of):
    """(T) numpy scalar types that are not accepted by the constructors but can be placed into the public `.terms`
    dictionary directly; probed once per run on the tree under test (print, both file formats): a type the tree rejects is
    excluded, never an alarm"""
    if 'ok' in _DIRECT_TYPES:
        return _DIRECT_TYPES['ok']
    import numpy
    from openfermion.utils import operator_utils as ou
    cands = {'complex64': (numpy.complex64, 'c'), 'clongdouble': (numpy.clongdouble, 'c'), 'complex128': (numpy.complex128, 'c'),
             'float32': (numpy.float32, 'f'), 'float16': (numpy.float16, 'f'), 'longdouble': (numpy.longdouble, 'f'),
             'int64': (numpy.int64, 'i'), 'int32': (numpy.int32, 'i'), 'uint8': (numpy.uint8, 'u'), 'bool_': (numpy.bool_, 'b'),
             'bool': (bool, 'b')}
    ok = {}
    base = tempfile.mkdtemp(prefix='ofv_c20t_', dir=os.environ.get('TMPDIR'))
    try:
        for name, (ty, kind) in cands.items():
            try:
                op = of.QubitOperator()
                op.terms[((0, 'X'),)] = ty(1)
                str(op)
                for plain in (True, False):
                    ou.save_operator(op, name, base, allow_overwrite=True, plain_text=plain)
                    ou.load_operator(name, base, plain_text=plain)
                ok[name] = (ty, kind)
            except Exception:  # noqa: BLE001
                pass
    finally:
        shutil.rmtree(base, ignore_errors=True)
    _DIRECT_TYPES['ok'] = ok
    return ok


def rand_direct_coeff(rng, types):
    """a dyadic value (exact in every candidate type and in its printed form) of one of the accepted numpy scalar types"""
    name = rng.choice(sorted(types))
    ty, kind = types[name]
    if kind == 'c':
        return ty(rng.choice([1 + 2j, -0.5j, 0.25 + 0.75j, -3 - 0.125j, 2j, 1.5 + 0j, -1 + 1j]))
    if kind == 'f':
        return ty(rng.choice([0.5, -1.25, 3.0, 0.375, 2.0 ** -10, -7.0]))
    if kind == 'i':
        return ty(rng.choice([3, -2, 7, 1, -100]))
    if kind == 'u':
        return ty(rng.choice([3, 2, 7, 1, 200]))
    return ty(True)


def rand_index(rng):
    k = rng.random()
    if k < 0.6:
        return rng.randint(0, 9)
    if k < 0.9:
        return rng.randint(10, 123)
    return rng.choice([100, 999, 1000, 12345, 10, 99, 101])


def rand_term(rng, cls):
    n = rng.choice([0, 1, 1, 2, 2, 3, 4])
    return tuple((rand_index(rng), rng.choice(ACTIONS[cls])) for _ in range(n))


def rand_operator(rng, of, numpy, cls, kind=None):
    """-> operator built through the public API"""
    C = cls_of(of, cls)
    kind = kind or rng.choice(['zero', 'tiny', 'mixed', 'normal', 'normal', 'normal', 'single', 'identity'])
    op = C()
    if kind == 'zero':
        return op
    if kind == 'identity':
        return C((), rand_coeff(rng, numpy))
    if kind == 'single':
        return C(rand_term(rng, cls), rand_coeff(rng, numpy))
    n = rng.randint(1, 5) if rng.random() < 0.93 else rng.randint(17, 40)      # (B) also more than 16 terms
    types = direct_scalar_types(of)
    for _ in range(n):
        c = rand_coeff(rng, numpy)
        if types and kind != 'tiny' and rng.random() < 0.2:
            c = rand_direct_coeff(rng, types)           # (T) numpy scalar stored directly in .terms
        if kind == 'tiny':
            c = rng.choice([1e-10, -3e-09, 9.9e-09, 1e-12j, complex(1e-9, -1e-9)])
        t = C(rand_term(rng, cls), 1.0)
        # store the coefficient object itself (int / numpy types survive): terms[...] = c as the constructor does
        for key in t.terms:
            f = t.terms[key]
            val = c if f == 1 else c * f
            if kind != 'tiny' and key in op.terms:
                continue
            op.terms[key] = val
    return op


def entries_of(cls, op):
    return [[enc_term(cls, t), to_gq(c), format(c)] for t, c in op.terms.items()]


def is_small(c):
    return abs(c) < TOL


def exact(c):
    j = to_gq(c)
    return (Fraction(j[0], j[1]), Fraction(j[2], j[3]))


def exact_terms(op, drop_small=False):
    return {t: exact(c) for t, c in op.terms.items() if not (drop_small and is_small(c))}


# ---------------------------------------------------------------- number tables for the Model

FLOAT_MODEL = {'checked': 0, 'bad': []}


def tables_for(ctx, strings):
    """float(s) / complex(s) of every text the Model's parser will hand to them"""
    strings = list(dict.fromkeys(strings))
    reqs = ctx.driver.run([{'op': 'c20.num_requests', 's': s} for s in strings])
    floats, complexes = {}, {}
    for r in reqs:
        for is_c, txt in r:
            try:
                if is_c:
                    complexes[txt] = to_gq(complex(txt))
                else:
                    floats[txt] = to_gq(float(txt))
            except (ValueError, OverflowError):
                pass
    # the Lean Model of float() on integer literals must agree with the real float() on every integer literal of the table
    import re
    lits = [k for k in floats if re.fullmatch(r'-?[0-9]+', k)]
    if lits:
        for k, m in zip(lits, ctx.driver.run([{'op': 'c20.float_int_model', 's': k} for k in lits])):
            FLOAT_MODEL['checked'] += 1
            if m != floats[k]:
                FLOAT_MODEL['bad'].append((k, floats[k], m))
    return {'floats': [[k, v] for k, v in floats.items()], 'complexes': [[k, v] for k, v in complexes.items()]}


def impl_parse(C, cls, s):
    try:
        op = C(s)
        return {'ok': enc_op(cls, op.terms)}, op
    except ValueError:
        return {'error': 'ValueError'}, None
    except Exception as e:  # noqa: BLE001
        return {'error': type(e).__name__}, None


def same_result(a, b):
    if 'error' in a or 'error' in b:
        return a.get('error') == b.get('error')
    return canon_op_json(a['ok']) == canon_op_json(b['ok'])


# ---------------------------------------------------------------- stream 1: print / parse

def stream_text(ctx, only_ops=None):
    import numpy
    of = ctx.of
    s = Stream('print-parse', 'random operators of the four savable classes (zero, identity, only-tiny, mixed, int / float / complex / '
               'numpy coefficients incl. exponents and negative zero, indices up to 12345): str(op) vs Model printer (exact text); '
               'Cls(str(op)) vs Model parser (exact terms); Spec: the parsed operator has exactly the non-negligible terms of op with '
               'exactly equal coefficients; hand-written and random malformed strings: result / ValueError vs Model')
    rng = rng_for(ctx.seed, 'c20-text')
    n = budget(ctx.tier, 250, 4000)
    if ctx.drift:
        n = max(n, 1200)
    cases = []
    for cls in CLASSES:
        for kind in ('zero', 'identity', 'tiny', 'single', 'mixed'):
            cases.append((cls, rand_operator(rng, of, numpy, cls, kind)))
        for _ in range(n // 4):
            cases.append((cls, rand_operator(rng, of, numpy, cls)))
    if only_ops is not None:
        cases = only_ops
    printed = ctx.driver.run([{'op': 'c20.print', 'cls': cls, 'entries': entries_of(cls, op)} for cls, op in cases])
    strs = []
    for (cls, op), mp in zip(cases, printed):
        c = {'cls': cls, 'terms': entries_of(cls, op), 'types': type_names(op)}
        s.case(c)
        s.count('class:' + cls)
        try:
            snap = [(t, type(v), exact(v)) for t, v in op.terms.items()]
            text = str(op)
            # (S) printing twice gives the same text and does not touch the operator
            if str(op) != text or repr(op) != text or [(t, type(v), exact(v)) for t, v in op.terms.items()] != snap:
                s.violate('str(op) is not repeatable or modifies the operator', c, None)
        except Exception as e:  # noqa: BLE001
            s.violate('str(op) raised', c, repr(e))
            strs.append(None)
            continue
        if text != mp:
            s.disagree('str(op)', c, text, mp)
        n_big = sum(1 for v in op.terms.values() if not is_small(v))
        s.count('non-negligible terms: %s' % (n_big if n_big < 3 else '3+'))
        strs.append(text)
    # parse the printed strings back
    todo = [(cls, op, t) for (cls, op), t in zip(cases, strs) if t is not None]
    tables = tables_for(ctx, [t for _, _, t in todo])
    parsed = ctx.driver.run([dict(op='c20.parse', cls=cls, s=t, **tables) for cls, _, t in todo])
    for (cls, op, text), mo in zip(todo, parsed):
        c = {'cls': cls, 'printed': text}
        ir, op2 = impl_parse(cls_of(of, cls), cls, text)
        if not same_result(ir, mo):
            s.disagree('Cls(str(op))', c, ir, mo)
        if op2 is not None:
            # (S) constructing twice around an in-place edit of the first operator gives the same terms
            first = exact_terms(op2)
            op2 *= 2.0
            op2.terms[()] = 3.0
            _, op2b = impl_parse(cls_of(of, cls), cls, text)
            if op2b is None or exact_terms(op2b) != first or op2b is op2:
                s.violate('the string constructor is affected by edits of an operator it returned earlier', c, None)
            op2 = op2b
        if any(not is_small(v) for v in op.terms.values()):
            s.count('oracle:parse(print)')
            if op2 is None:
                s.violate('the string constructor rejects the printed form of an operator with a non-negligible term', c, ir)
            elif exact_terms(op2) != exact_terms(op, drop_small=True):
                a, b = exact_terms(op2), exact_terms(op, drop_small=True)
                diff = [(k, a.get(k), b.get(k)) for k in sorted(set(a) | set(b), key=str) if a.get(k) != b.get(k)][:3]
                s.violate('constructing the operator from its printed string does not reproduce it', c,
                          {'first_differences(term, parsed, original)': diff})
    if only_ops is not None:
        return s
    # malformed / hand-written strings
    hand = ['', '0', ' ', '[]', '[', ']', '1.5 []', '1.5 [] +', '- [0^ 1] + [2]', '+ [X0 Y1]', '2 [X0] + 3 [X0]', '1e3 [0^]', '1.5j [1]',
            '-1.5j [1]', '(1+2j) [1 2^]', '-(1+2j) [1]', '--1 [0]', '1 2 [0]', 'a [0]', '1.0 [0^ 1', '1.0 0^ 1]', '[0^] [1^]', '[[0]]',
            '[0] ]', 'X0', 'X0 Y1', 'X', '0X', 'X-1', 'Y10 Z2 X2', '0^ 1', '1^ -2', '^1', '10 3^', 'q0 p1', 'p', 'q1 q1 p0', 'x0', 'X0Y1',
            '1.5 [X0 X0]', '1 [Z1 X1]', '\t2.0\n[ 3^   4 ]\n', '1_0 [0]', 'inf [0]', 'nan [0]', '1e400 [0]', '+ + [0]', '+- [0]', '-+ [0]',
            '1.5 [0^ 1] +\n-2.0 [1^ 0]', '1.5[0^]', '(1+2j)[X1]', '1j[]', '.5 [0]', '5. [0]', '0x10 [0]', '١ [0]', '1.5 [٣]', '1.5 [0^^]',
            '1.5 [0 ^]', '1.5 [X 0]', '1.5 [XX0]', '1.5 [I0]', '2 [Z0 Z0 Z0]', 'j [0]', '-j [0]', '1j2 [0]', '1 [0]j']
    hand = [h for h in hand if all(ord(ch) < 128 for ch in h)]
    alphabet = list('0123456789^XYZqp[]+-.ej ()\n\t') + [' '] * 4
    for _ in range(budget(ctx.tier, 300, 4000)):
        k = rng.randint(1, 14)
        hand.append(''.join(rng.choice(alphabet) for _ in range(k)))
    todo = [(cls, h) for h in hand for cls in CLASSES]
    tables = tables_for(ctx, [h for _, h in todo])
    parsed = ctx.driver.run([dict(op='c20.parse', cls=cls, s=h, **tables) for cls, h in todo])
    for (cls, h), mo in zip(todo, parsed):
        c = {'cls': cls, 'string': h}
        s.case(c)
        ir, _ = impl_parse(cls_of(of, cls), cls, h)
        s.count('malformed:' + ('ok' if 'ok' in ir else ir['error']))
        if not same_result(ir, mo):
            s.disagree('string constructor on a hand-written string', c, ir, mo)
    return s


# ---------------------------------------------------------------- stream 2: file histories

def dir_state(d):
    out = {}
    for f in sorted(os.listdir(d)):
        with open(os.path.join(d, f), 'rb') as fh:
            out[f] = hashlib.sha1(fh.read()).hexdigest()
    return out


def norm_name(name):
    return name if name[-5:] == '.data' else name + '.data'


def stream_files(ctx):
    import numpy
    of = ctx.of
    from openfermion.utils import operator_utils as ou
    s = Stream('file-histories', 'random histories (<= 10 steps) of save_operator / load_operator over 4 file names (two of them '
               'aliases: "a" and "a.data") in a fresh temporary directory, both formats, allow_overwrite on/off, operators modified and '
               'saved again: every step result and the directory listing vs Model; Spec: abstract map name -> last saved operator, '
               'overwrite guard (file bytes hashed before/after), loads never change the directory, second save/load cycle idempotent')
    rng = rng_for(ctx.seed, 'c20-files')
    nh = budget(ctx.tier, 60, 800)
    if ctx.drift:
        nh = max(nh, 250)
    names = ['a', 'a.data', 'b', 'op_2.data', 'metadata', 'x.dat']
    # stems that end in a character of the suffix '.data' (a strip()-style removal of the suffix would eat them), with and
    # without the suffix, several of them in every directory
    suffix_names = ['opd', 'opd.data', 'opa', 'opa.data', 'opt', 'opt.data', 'op.', 'op..data', 'op', 'op.data', 'dat', 'dat.data',
                    'data.data', 'a.dat.data', 'tada', 'tada.data']
    base = tempfile.mkdtemp(prefix='ofv_c20_', dir=os.environ.get('TMPDIR'))
    try:
        file_path_and_rejections(ctx, s, of, ou, base)
        for h in range(nh):
            d = os.path.join(base, 'h%d' % h)
            os.mkdir(d)
            cls_pool = [rng.choice(CLASSES) for _ in range(2)]
            if h % 3 == 1:
                names_h = rng.sample(suffix_names, 6)
            else:
                names_h = names + rng.sample(suffix_names, 2)
            steps = []
            for _ in range(rng.randint(2, 10)):
                if rng.random() < 0.55:
                    cls = rng.choice(cls_pool)
                    op = rand_operator(rng, of, numpy, cls)
                    steps.append(['save', cls, op, rng.choice(names_h), rng.random() < 0.5, rng.random() < 0.5])
                else:
                    steps.append(['load', rng.choice(names_h), rng.random() < 0.5])
                if rng.random() < 0.2 and steps[-1][0] == 'save':
                    steps.append(['modify', steps[-1][3], steps[-1][5]])
                    steps.append(['load', steps[-2][3], steps[-2][5]])
                if rng.random() < 0.25 and steps[-1][0] == 'save':
                    # save -> load -> save again -> load again on the same name and format
                    _, cls, op, name, ow, plain = steps[-1]
                    steps.append(['load', name, plain])
                    steps.append(['resave', name, plain])
                    steps.append(['load', name, plain])
            run_history(ctx, s, of, ou, d, steps)
            shutil.rmtree(d, ignore_errors=True)
    finally:
        shutil.rmtree(base, ignore_errors=True)
    return s


def file_path_and_rejections(ctx, s, of, ou, base):
    """get_file_path (incl. the default directory), empty names, operators save_operator must refuse"""
    import sympy
    from openfermion.config import DATA_DIRECTORY
    names = ['a', 'a.data', '.data', 'data', 'x.dat', 'adata', 'a.data.data', 'a.DATA', 'dir/a', 'a b', '12345', 'abcd', 'abcde',
             'opd', 'opd.data', 'opa', 'opa.data', 'opt', 'opt.data', 'op.', 'op..data', 'dat', 'data.data', 'tada', 'd', 't.data']
    mo = ctx.driver.run([{'op': 'c20.file_path', 'name': n, 'dir': base} for n in names + ['']])
    for n, m in zip(names + [''], mo):
        c = {'file_name': n, 'call': 'get_file_path'}
        s.case(c)
        try:
            r = ou.get_file_path(n, base)
        except ou.OperatorUtilsError:
            r = {'error': 'OperatorUtilsError:no-name'}
        if r != m:
            s.disagree('get_file_path', c, r, m)
        if n:
            s.count('oracle:file-path')
            want = n if n.endswith('.data') else n + '.data'
            if r != base + '/' + want:
                s.violate('get_file_path does not append .data exactly when it is missing', c, {'path': r})
            try:
                if ou.get_file_path(n, None) != DATA_DIRECTORY + '/' + want:
                    s.violate('get_file_path ignores the default data directory', c, {'path': ou.get_file_path(n, None)})
            except Exception as e:  # noqa: BLE001
                s.violate('get_file_path raised with the default directory', c, repr(e))
        else:
            for f in (lambda: ou.save_operator(of.QubitOperator('X0'), '', base), lambda: ou.load_operator('', base),
                      lambda: ou.save_operator(of.QubitOperator('X0'), None, base)):
                try:
                    f()
                    s.violate('an empty file name is accepted', c, None)
                except ou.OperatorUtilsError:
                    pass
                except Exception as e:  # noqa: BLE001
                    s.violate('an empty file name raises something else than OperatorUtilsError', c, repr(e))
    d = os.path.join(base, 'reject')
    os.mkdir(d)
    ou.save_operator(of.FermionOperator('1^ 0', 2.0), 'keep', d)
    before = dir_state(d)
    bad = [('sympy coefficient', of.QubitOperator('X0', sympy.Symbol('x')), TypeError),
           ('IsingOperator', of.IsingOperator('Z0'), TypeError),
           ('not an operator', 3.5, TypeError),
           ('InteractionOperator', of.InteractionOperator(0.0, __import__('numpy').zeros((1, 1)), __import__('numpy').zeros((1, 1, 1, 1))),
            NotImplementedError)]
    for label, obj, exc in bad:
        for plain in (True, False):
            for name in ('keep', 'fresh'):
                c = {'call': 'save_operator', 'operator': label, 'file_name': name, 'plain_text': plain}
                s.case(c)
                s.count('oracle:rejected-save')
                try:
                    ou.save_operator(obj, name, d, allow_overwrite=True, plain_text=plain)
                    s.violate('save_operator accepted an object it documents to refuse', c, None)
                except exc:
                    pass
                except Exception as e:  # noqa: BLE001
                    s.violate('save_operator refused with an undocumented exception', c, repr(e))
                if dir_state(d) != before:
                    s.violate('a refused save_operator changed the directory', c, {'before': before, 'after': dir_state(d)})
                    before = dir_state(d)
    shutil.rmtree(d, ignore_errors=True)


def run_history(ctx, s, of, ou, d, steps):
    """execute on the real code, then replay on the Model with the texts / tables of the real run"""
    import copy
    abstract = {}          # normalised name -> (plain, cls, copy of the operator as it was when saved)
    live = {}              # normalised name -> (cls, the operator object that was saved)
    last_loaded = None
    listings = []
    results = []
    msteps = []
    texts = []
    case = {'steps': []}
    for st in steps:
        before = dir_state(d)
        if st[0] == 'resave':
            # save what the previous load returned (if it succeeded), same name and format, overwriting
            if last_loaded is None:
                continue
            cls, op = last_loaded
            st = ['save', cls, op, st[1], True, st[2]]
        if st[0] == 'modify':
            # (S) edit the operator object that was saved last under this name in place and save it again: a later load
            # must return the NEW content, files written earlier from the same object keep the old one
            key = norm_name(st[1])
            if key not in live:
                continue
            cls, op = live[key]
            op *= 2.0
            op += cls_of(of, cls)((), 0.5)
            st = ['save', cls, op, st[1], True, st[2]]
        if st[0] == 'save':
            _, cls, op, name, ow, plain = st
            case['steps'].append(['save', cls, entries_of(cls, op), name, ow, plain])
            case.setdefault('types', []).append(type_names(op))
            msteps.append(['save', cls, entries_of(cls, op), name, d, ow, plain])
            texts.append(str(op))
            snap_terms = [(t, type(v), exact(v)) for t, v in op.terms.items()]
            try:
                ou.save_operator(op, name, d, allow_overwrite=ow, plain_text=plain)
                res = {'ok': None}
            except ou.OperatorUtilsError as e:
                res = {'error': 'OperatorUtilsError:exists' if 'exists' in str(e) else 'OperatorUtilsError:no-name'}
            except Exception as e:  # noqa: BLE001
                res = {'error': type(e).__name__}
            after = dir_state(d)
            key = norm_name(name)
            if [(t, type(v), exact(v)) for t, v in op.terms.items()] != snap_terms:
                s.violate('save_operator modified the operator it was given', case, {'step': len(results)})
            if key in before and not ow:
                s.count('oracle:overwrite-guard')
                if 'error' not in res:
                    s.violate('save_operator overwrote an existing file without allow_overwrite', case, {'step': len(results)})
                if after != before:
                    s.violate('a refused save_operator changed the directory', case, {'step': len(results), 'before': before, 'after': after})
            else:
                if 'error' in res:
                    s.violate('save_operator failed on an admissible operator', case, {'step': len(results), 'error': res})
                else:
                    abstract[key] = (plain, cls, copy.deepcopy(op))
                    live[key] = (cls, op)
                    changed = [f for f in set(before) | set(after) if before.get(f) != after.get(f) and f != key]
                    if changed:
                        s.violate('save_operator changed a file other than its target', case, {'step': len(results), 'files': changed})
        else:
            _, name, plain = st
            case['steps'].append(['load', name, plain])
            msteps.append(['load', name, d, plain])
            try:
                op2 = ou.load_operator(name, d, plain_text=plain)
                cls2 = {of.FermionOperator: 'fermion', of.BosonOperator: 'boson', of.QubitOperator: 'qubit',
                        of.QuadOperator: 'quad'}.get(type(op2))
                res = {'ok': enc_op(cls2, op2.terms), 'cls': cls2}
                # (S) a second load around an in-place edit of the first result gives the same operator, no aliasing
                first = exact_terms(op2)
                op2 *= 3.0
                op2.terms[()] = 11.0
                op3 = ou.load_operator(name, d, plain_text=plain)
                if exact_terms(op3) != first or op3 is op2 or any(op3 is o for _, o in live.values()):
                    s.violate('a second load_operator is affected by edits of the first result (or aliases an operator)', case,
                              {'step': len(results)})
                op2 = op3
                last_loaded = (cls2, op2)
            except FileNotFoundError:
                res, op2 = {'error': 'FileNotFoundError'}, None
            except Exception as e:  # noqa: BLE001
                res, op2 = {'error': 'bad-format', 'python': type(e).__name__}, None
            after = dir_state(d)
            if after != before:
                s.violate('load_operator changed the directory', case, {'step': len(results), 'before': before, 'after': after})
            key = norm_name(name)
            s.count('oracle:load')
            if key not in abstract:
                if 'error' not in res:
                    s.violate('load_operator returned an operator for a name that was never saved', case, {'step': len(results)})
            else:
                pl, cls0, op0 = abstract[key]
                if pl == plain:
                    if op2 is None:
                        s.violate('load_operator failed on a file written by save_operator in the same format', case,
                                  {'step': len(results), 'error': res, 'saved': entries_of(cls0, op0), 'plain_text': plain})
                    else:
                        a, b = exact_terms(op2, drop_small=True), exact_terms(op0, drop_small=True)
                        if res['cls'] != cls0 or a != b or any(is_small(v) and exact(v) != exact(op0.terms.get(t, 0))
                                                                 for t, v in op2.terms.items()):
                            diff = [(k, a.get(k), b.get(k)) for k in sorted(set(a) | set(b), key=str) if a.get(k) != b.get(k)][:3]
                            s.violate('load_operator does not return the operator last saved under that name', case,
                                      {'step': len(results), 'plain_text': plain, 'class': [res['cls'], cls0],
                                       'first_differences(term, loaded, saved)': diff})
        results.append(res)
        listings.append(sorted(dir_state(d)))
        # Spec: the directory holds exactly one file per name saved so far, called <name>.data (suffix added iff missing)
        if listings[-1] != sorted(abstract):
            s.violate('the directory listing is not the set of saved names (each with the .data suffix exactly once)', case,
                      {'step': len(results) - 1, 'listing': listings[-1], 'expected': sorted(abstract)})
    s.case(case)
    s.count('history-length:%d' % len(results))
    # Model replay
    tables = tables_for(ctx, ['X:\n' + t for t in texts] + texts)
    mo = ctx.driver.run([dict(op='c20.history', steps=msteps, **tables)])[0]
    for i, (r, (mr, listing)) in enumerate(zip(results, mo)):
        r2 = dict(r)
        r2.pop('python', None)
        ok = (r2.get('error') == mr.get('error')) if ('error' in r2 or 'error' in mr) else \
            (r2.get('cls') == mr.get('cls') and (r2['ok'] is None or canon_op_json(r2['ok']) == canon_op_json(mr['ok'])))
        if not ok:
            s.disagree('history step %d (%s)' % (i, case['steps'][i][0]), case, r, mr)
            break
        if sorted(os.path.basename(p_) for p_ in listing) != listings[i]:
            s.disagree('directory listing after history step %d' % i, case, listings[i], sorted(os.path.basename(p_) for p_ in listing))
            break


# ---------------------------------------------------------------- stream 3: MolecularData

def stream_molecule(ctx):
    import numpy
    of = ctx.of
    from openfermion.chem import MolecularData
    s = Stream('molecular-data', 'MolecularData.save() / load() with random attribute assignments (energies set or None, integral and '
               'RDM arrays, general_calculations (also empty), zero-valued scalars, geometry as list): after each of three save/load cycles '
               'every attribute of the reloaded object equals the saved one (arrays exactly, None stays None, 0 stays 0, atoms a list of str)')
    rng = rng_for(ctx.seed, 'c20-mol')
    base = tempfile.mkdtemp(prefix='ofv_c20m_', dir=os.environ.get('TMPDIR'))
    scalars = ['nuclear_repulsion', 'hf_energy', 'mp2_energy', 'cisd_energy', 'fci_energy', 'ccsd_energy']
    ints = ['n_orbitals', 'n_qubits']
    arrays = {'canonical_orbitals': 2, 'overlap_integrals': 2, 'orbital_energies': 1, 'one_body_integrals': 2,
              'two_body_integrals': 4, 'cisd_one_rdm': 2, 'cisd_two_rdm': 4, 'fci_one_rdm': 2, 'fci_two_rdm': 4,
              'ccsd_single_amps': 2, 'ccsd_double_amps': 4}
    try:
        for k in range(budget(ctx.tier, 25, 250)):
            geom = rng.choice([[('H', (0.0, 0.0, 0.0)), ('H', (0.0, 0.0, 0.7414))],
                               [('Li', (0.0, 0.0, 0.0)), ('H', (0.0, 0.0, 1.45))],
                               [('O', (0.0, 0.0, 0.0)), ('H', (0.0, 0.757, 0.587)), ('H', (0.0, -0.757, 0.587))],
                               [('He', (0.5, -0.25, 1.0))]])
            if k == 2:
                geom = 'water'           # a geometry may also be given by name (string)
            mult = 1 if isinstance(geom, str) else \
                rng.choice([1, 3]) if sum({'H': 1, 'Li': 3, 'O': 8, 'He': 2}[a] for a, _ in geom) % 2 == 0 else 2
            fn = os.path.join(base, 'mol%d' % k) + ('.hdf5' if k == 3 else '')
            desc = rng.choice(['', 'test', 'r=0.7', 'a b'])
            c = {'geometry': geom, 'multiplicity': mult, 'description': desc}
            try:
                m = MolecularData(geom, 'sto-3g', mult, rng.choice([0, 0, 1, -1]) if mult != 2 else 0, description=desc, filename=fn)
            except Exception as e:  # noqa: BLE001
                s.count('constructor-rejected')
                continue
            n = rng.randint(1, 3)
            want = {}
            for a in scalars:
                if rng.random() < 0.5 or k < 2:
                    v = 0.0 if k == 0 else rng.choice([-1.1, 0.0, 2.5, -74.96, rng.uniform(-100, 0), 1e-07, -3.5e-05])   # (B) small values
                    # (T) Python / numpy scalar types (bool is excluded: False is the "not set" sentinel of the file format)
                    ty = rng.choice(['float', 'float', 'float64', 'float32', 'int', 'int64'])
                    if ty == 'float64':
                        v = numpy.float64(v)
                    elif ty == 'float32':
                        v = numpy.float32(round(v * 8) / 8)
                    elif ty == 'int':
                        v = int(v)
                    elif ty == 'int64':
                        v = numpy.int64(int(v))
                    want[a] = v
            for a in ints:
                if rng.random() < 0.5 or k < 2:
                    v = 0 if k == 0 else rng.choice([0, 1, 2, 4, 10, 300])
                    want[a] = rng.choice([int, int, numpy.int64, numpy.int32, numpy.uint16, float])(v)
            for a, rank in arrays.items():
                if rng.random() < 0.4:
                    nn = n if rank == 4 else rng.choice([n, n, 5])          # (B) more than 16 entries
                    shape = (nn,) * rank
                    kind = rng.choice(['float64', 'float64', 'float32', 'int64', 'complex128', 'fortran', 'strided', 'small'])
                    A = numpy.array([rng.uniform(-1, 1) for _ in range(nn ** rank)]).reshape(shape)
                    if kind == 'float32':
                        A = (numpy.round(A * 64) / 64).astype(numpy.float32)
                    elif kind == 'int64':
                        A = numpy.round(A * 10).astype(numpy.int64)
                    elif kind == 'complex128':
                        A = A + 1j * A[::-1]                                 # (A) complex, non-Hermitian
                    elif kind == 'fortran':
                        A = numpy.asfortranarray(A)
                    elif kind == 'strided':
                        A = numpy.array([rng.uniform(-1, 1) for _ in range((2 * nn) ** rank)]).reshape((2 * nn,) * rank)[(slice(None, None, 2),) * rank]
                    elif kind == 'small':
                        A = A * 1e-6
                    want[a] = A
            # general_calculations is stored as two parallel datasets (labels / energies): labels of different lengths, with
            # blanks, inserted in NON-alphabetical order; 0, 1 and several entries (non-ASCII labels are rejected by the tree)
            if rng.random() < 0.6 or k in (5, 6, 7):
                pool = ['ZAPT2', 'CASSCF', 'a', 'MP2 (fc)', 'b b', 'x' * 12, 'A', 'zz', 'CCSD(T)', 'B3LYP', '0th', 'Z']
                n_gc = {5: 0, 6: 1, 7: 4}.get(k, rng.choice([1, 2, 3, 5]))
                labels = rng.sample(pool, n_gc)
                if n_gc >= 2 and labels == sorted(labels):
                    labels.reverse()
                want['general_calculations'] = {lab: (i + 1) * 1.25 - 3.0 for i, lab in enumerate(labels)}
            import copy
            for a, v in want.items():
                setattr(m, a, copy.deepcopy(v))
            c['assigned'] = {a: (v.tolist() if hasattr(v, 'tolist') else v) for a, v in want.items()}
            s.case(c)
            try:
                m.save()
                first_gc = MolecularData(filename=fn).general_calculations
                if {kk: float(vv) for kk, vv in (first_gc or {}).items()} != {kk: float(vv) for kk, vv in want.get('general_calculations', {}).items()}:
                    s.violate('after the first save a fresh load maps a general_calculations label to another energy', c,
                              {'loaded': repr(first_gc), 'inserted': want.get('general_calculations', {})})
                m2 = MolecularData(filename=fn[:-5] if k == 3 else (fn + '.hdf5' if k == 4 else fn))
                m2.save()
                m3 = MolecularData(filename=fn)
                m3.save()
                m4 = MolecularData(filename=fn)
            except Exception as e:  # noqa: BLE001
                s.violate('MolecularData.save / load raised (three save/load cycles)', c, repr(e))
                continue
            # the two datasets must be position-aligned and hold every label with ITS energy (direct h5py read; the file has
            # been written three times by now: a scrambled state must not be a fixed point either)
            try:
                import h5py
                with h5py.File(m2.filename + '.hdf5', 'r') as f5:
                    rk, rv = f5['general_calculations_keys'][...], f5['general_calculations_values'][...]
                gc = want.get('general_calculations', {})
                s.count('oracle:general_calculations(h5py):%d entries' % min(len(gc), 3))
                if gc:
                    stored = {kk.decode('utf-8'): float(vv) for kk, vv in zip(numpy.atleast_1d(rk), numpy.atleast_1d(rv))}
                    if stored != {kk: float(vv) for kk, vv in gc.items()} or len(numpy.atleast_1d(rk)) != len(gc):
                        s.violate('the general_calculations key / value datasets of the file are not aligned with the inserted dictionary', c,
                                  {'keys': [x.decode() for x in numpy.atleast_1d(rk)], 'values': [float(x) for x in numpy.atleast_1d(rv)],
                                   'inserted': gc})
                elif rk.shape != () or rv.shape != ():
                    s.violate('an empty general_calculations dictionary is not stored as the empty sentinel', c, None)
            except Exception as e:  # noqa: BLE001
                s.violate('direct h5py read of general_calculations failed', c, repr(e))
            # Model of the attribute encode / decode table (None <-> False sentinel, int(), float()) vs the real round trip
            try:
                kinds = {'n_orbitals': 1, 'n_qubits': 1, 'nuclear_repulsion': 2}
                names_ = scalars + ints

                def enc_attr(v):
                    if v is None:
                        return None
                    if isinstance(v, (bool, numpy.bool_)):
                        return {'bool': bool(v)}
                    if isinstance(v, (int, numpy.integer)):
                        return {'int': int(v)}
                    f = Fraction(float(v))
                    return {'real': [f.numerator, f.denominator]}
                answers = ctx.driver.run([{'op': 'c20.attr', 'kind': kinds.get(a, 0), 'value': enc_attr(want.get(a))} for a in names_])
                for a, mo in zip(names_, answers):
                    got = getattr(m2, a)
                    s.count('attribute-table')
                    if mo is None:
                        same = got is None
                    elif got is None:
                        same = False
                    elif 'int' in mo:
                        same = float(got) == float(mo['int'])
                    else:
                        same = Fraction(float(got)) == Fraction(mo['real'][0], mo['real'][1])
                    if not same:
                        s.disagree('MolecularData attribute ' + a, c, repr(got), mo)
            except Exception as e:  # noqa: BLE001
                s.violate('attribute table check raised', c, repr(e))
            # get_from_file: stored datasets, unknown keys and missing files
            try:
                s.count('oracle:get_from_file')
                for a in scalars:
                    raw = m2.get_from_file(a)
                    if a in want:
                        if raw is None or float(raw) != float(want[a]):
                            s.violate('get_from_file does not return the stored dataset', c, {'property': a, 'got': repr(raw), 'saved': want[a]})
                if m2.get_from_file('no_such_property') is not None:
                    s.violate('get_from_file returns something for an unknown property', c, None)
                keep = m2.filename
                m2.filename = os.path.join(base, 'no_such_file')
                if m2.get_from_file('hf_energy') is not None:
                    s.violate('get_from_file returns something for a missing file', c, None)
                m2.filename = keep
            except Exception as e:  # noqa: BLE001
                s.violate('get_from_file raised', c, repr(e))
            for label, mm in (('first', m2), ('second', m3), ('third', m4)):
                bad = []
                for a in scalars + ints + list(arrays) + ['general_calculations']:
                    v0 = want.get(a, getattr(m, a))
                    if a == 'general_calculations' and not hasattr(mm, a):
                        bad.append((a, repr(v0), 'attribute missing'))
                        continue
                    try:
                        v1 = getattr(mm, a)
                    except Exception as e:  # noqa: BLE001
                        bad.append((a, 'raised ' + repr(e)))
                        continue
                    s.count('oracle:attribute')
                    if v0 is None or v1 is None:
                        if not (v0 is None and v1 is None):
                            bad.append((a, repr(v0), repr(v1)))
                    elif isinstance(v0, dict):
                        if {k2: float(x) for k2, x in v0.items()} != {k2: float(x) for k2, x in (v1 or {}).items()}:
                            bad.append((a, repr(v0), repr(v1)))
                    elif not numpy.array_equal(numpy.asarray(v0), numpy.asarray(v1)):
                        bad.append((a, repr(v0), repr(v1)))
                for a in ('basis', 'multiplicity', 'charge', 'description', 'name', 'n_atoms', 'n_electrons'):
                    if getattr(m, a) != getattr(mm, a):
                        bad.append((a, repr(getattr(m, a)), repr(getattr(mm, a))))
                if isinstance(m.geometry, str) or isinstance(mm.geometry, str):
                    g0, g1 = m.geometry, mm.geometry
                else:
                    g0 = [(a, [float(x) for x in p]) for a, p in m.geometry]
                    g1 = [(a, [float(x) for x in p]) for a, p in mm.geometry]
                if g0 != g1:
                    bad.append(('geometry', g0, g1))
                if [int(p) for p in numpy.atleast_1d(m.protons)] != [int(p) for p in numpy.atleast_1d(mm.protons)]:
                    bad.append(('protons', list(m.protons), repr(mm.protons)))
                if bad:
                    s.violate('MolecularData %s save/load cycle does not return the same attributes' % label, c, {'differences': bad[:4]})
                    break
                # the atoms attribute (list of atomic symbols) on its own
                a1 = mm.atoms.tolist() if hasattr(mm.atoms, 'tolist') else mm.atoms
                if list(m.atoms) != (a1 if isinstance(a1, list) else [a1]):
                    s.violate('MolecularData save/load does not return the atoms attribute (list of atomic symbols)', c,
                              {'cycle': label, 'saved': list(m.atoms), 'loaded': repr(mm.atoms)})
                    break
            # (S) save() must not modify the object; editing attributes in place and saving again must be visible to a
            # fresh load (and only then)
            try:
                import copy
                for a, v in want.items():
                    now = getattr(m, a)
                    same = (now == v) if isinstance(v, dict) else numpy.array_equal(numpy.asarray(now), numpy.asarray(v))
                    if not same or (hasattr(v, 'dtype') and getattr(now, 'dtype', None) != v.dtype):
                        s.violate('MolecularData.save() modified an attribute of the object', c, {'attribute': a})
                        break
                edited = {}
                for a, v in want.items():
                    if isinstance(v, numpy.ndarray) and v.dtype.kind == 'f':
                        getattr(m, a)[...] = getattr(m, a) * 2 + 1        # in-place edit of the array the object holds
                        edited[a] = numpy.array(getattr(m, a))
                if 'hf_energy' in want:
                    m.hf_energy = float(want['hf_energy']) + 1.0
                    edited['hf_energy'] = m.hf_energy
                stale = MolecularData(filename=m2.filename)
                for a, v in edited.items():
                    old = want[a]
                    if not numpy.array_equal(numpy.asarray(getattr(stale, a)), numpy.asarray(old)) and not numpy.array_equal(numpy.asarray(old), numpy.asarray(v)):
                        s.violate('editing an object in memory changed what is loaded from its file before save()', c, {'attribute': a})
                        break
                if edited:
                    s.count('oracle:(S) edit-and-save')
                    m.save()
                    fresh = MolecularData(filename=m2.filename)
                    for a, v in edited.items():
                        if not numpy.array_equal(numpy.asarray(getattr(fresh, a)), numpy.asarray(v)):
                            s.violate('MolecularData saved after an in-place edit does not load the new content', c,
                                      {'attribute': a, 'loaded': repr(getattr(fresh, a))[:200], 'expected': repr(v)[:200]})
                            break
            except Exception as e:  # noqa: BLE001
                s.violate('MolecularData edit-and-save raised', c, repr(e))
        # ---- file names: stems that end in a character of '.hdf5', with and without the extension, several per directory
        stems = ['h2_run5', 'lih_d', 'lih_f', 'mol_h', 'mol.', 'water55', 'x', 'hdf5', 'h', 'd5f', 'mol.hdf', 'a.b', 'ffff', 'run.5']
        rng.shuffle(stems)
        for with_ext in (True, False):
            dname = os.path.join(base, 'names_ext' if with_ext else 'names_plain')
            os.mkdir(dname)
            geom = [('H', (0.0, 0.0, 0.0)), ('H', (0.0, 0.0, 0.7414))]
            saved = {}
            for i, stem in enumerate(stems):
                given = stem + ('.hdf5' if with_ext else '')
                c = {'call': 'MolecularData file name', 'filename': given, 'stems_saved_before': sorted(saved)}
                s.case(c)
                s.count('oracle:file-name')
                try:
                    m = MolecularData(geom, 'sto-3g', 1, filename=os.path.join(dname, given))
                    m.hf_energy = -1.0 - i
                    m.save()
                except Exception as e:  # noqa: BLE001
                    s.violate('MolecularData with an explicit file name raised', c, repr(e))
                    continue
                saved[stem] = -1.0 - i
                if m.filename != os.path.join(dname, stem):
                    s.violate('MolecularData.filename is not the given name without the .hdf5 extension', c, {'filename': m.filename})
                listing = sorted(os.listdir(dname))
                if listing != sorted(k_ + '.hdf5' for k_ in saved):
                    s.violate('the directory does not hold exactly one <stem>.hdf5 per saved molecule', c,
                              {'listing': listing, 'expected': sorted(k_ + '.hdf5' for k_ in saved)})
            for stem, e0 in saved.items():
                for given in (stem, stem + '.hdf5'):
                    c = {'call': 'MolecularData reload by file name', 'filename': given, 'stems_saved': sorted(saved)}
                    s.case(c)
                    try:
                        m2 = MolecularData(filename=os.path.join(dname, given))
                        if m2.hf_energy is None or float(m2.hf_energy) != e0 or m2.filename != os.path.join(dname, stem):
                            s.violate('reloading by file name returns another molecule', c,
                                      {'hf_energy': repr(m2.hf_energy), 'saved': e0, 'filename': m2.filename})
                    except Exception as e:  # noqa: BLE001
                        s.violate('a molecule saved under this name cannot be reloaded', c, repr(e))
    finally:
        shutil.rmtree(base, ignore_errors=True)
    return s


# ---------------------------------------------------------------- stream 4: MolecularData lazy-property histories

LAZY = {'canonical_orbitals': 2, 'overlap_integrals': 2, 'one_body_integrals': 2, 'two_body_integrals': 4, 'cisd_one_rdm': 2,
        'cisd_two_rdm': 4, 'fci_one_rdm': 2, 'fci_two_rdm': 4, 'ccsd_single_amps': 2, 'ccsd_double_amps': 4}


def stream_mol_histories(ctx):
    """(S) state shared across MolecularData objects through the lazily loaded properties: histories of
    new / read / assign / save / external delete / fresh load / in-place mutation over two file names and several objects
    (also objects sharing one file name), for every lazy attribute.  Expected values come from an abstract model
    (file name -> stored arrays; per object: the arrays it was assigned or has read) and from direct h5py reads of the
    files, never from the library."""
    import h5py
    import numpy
    from openfermion.chem import MolecularData
    s = Stream('molecular-data-histories', 'histories of MolecularData objects over a small file-system model: a lazy property read before '
               'any file exists, assign + save, fresh load, external delete followed by the first save of a different record, overwrite '
               'of an existing file, two objects sharing one file name with interleaved reads / saves, in-place mutation of a returned '
               'array; for every lazily loaded attribute; every read is compared with the abstract model and every file with a direct '
               'h5py read')
    rng = rng_for(ctx.seed, 'c20-molhist')
    base = tempfile.mkdtemp(prefix='ofv_c20h_', dir=os.environ.get('TMPDIR'))
    geom = [('H', (0.0, 0.0, 0.0)), ('H', (0.0, 0.0, 0.7414))]
    counter = [0]

    def arr(attr):
        counter[0] += 1
        n = 2
        return (numpy.arange(n ** LAZY[attr], dtype=float).reshape((n,) * LAZY[attr]) + 100.0 * counter[0]) / 8.0

    def h5_read(path, attr):
        with h5py.File(path + '.hdf5', 'r') as f:
            d = f[attr][...]
        return None if d.dtype == numpy.bool_ else numpy.array(d)

    def same(a, b):
        if a is None or b is None:
            return a is None and b is None
        return numpy.array_equal(numpy.asarray(a), numpy.asarray(b))

    def run(ops, label):
        """ops: ('new', obj, fname) ('read', obj, attr) ('assign', obj, attr) ('save', obj) ('delete', fname) ('fresh', fname)
        ('mutate', obj, attr)"""
        d = tempfile.mkdtemp(prefix='h', dir=base)
        files = {}          # fname -> {attr: array | None}
        objs = {}           # obj -> [MolecularData, fname, {attr: array | None}]
        case = {'scenario': label, 'ops': [list(map(str, o)) for o in ops]}
        s.case(case)
        s.count('scenario:' + label.split(':')[0])
        try:
            for k, op in enumerate(ops):
                kind = op[0]
                if kind == 'new':
                    _, o, fn = op
                    objs[o] = [MolecularData(geom, 'sto-3g', 1, filename=os.path.join(d, fn)), fn, {a: None for a in LAZY}]
                elif kind == 'read':
                    _, o, a = op
                    m, fn, cache = objs[o]
                    if cache[a] is None and fn in files and files[fn][a] is not None:
                        cache[a] = numpy.array(files[fn][a])
                    got = getattr(m, a)
                    s.count('oracle:read')
                    if not same(got, cache[a]):
                        s.violate('a lazily loaded MolecularData property returns neither the object\'s own value nor the file content', case,
                                  {'step': k, 'op': list(map(str, op)), 'got': repr(got)[:200], 'expected': repr(cache[a])[:200]})
                        return
                elif kind == 'assign':
                    _, o, a = op
                    v = arr(a)
                    setattr(objs[o][0], a, v)
                    objs[o][2][a] = v
                elif kind == 'mutate':
                    _, o, a = op
                    m, fn, cache = objs[o]
                    if cache[a] is None and fn in files and files[fn][a] is not None:
                        cache[a] = numpy.array(files[fn][a])
                    got = getattr(m, a)
                    if got is not None:
                        got += 1000.0                      # in place: the object keeps what it handed out
                        cache[a] = numpy.array(got)
                elif kind == 'save':
                    _, o = op
                    m, fn, cache = objs[o]
                    for a in LAZY:                          # save() reads every property: an unset one is taken from the existing file
                        if cache[a] is None and fn in files and files[fn][a] is not None:
                            cache[a] = numpy.array(files[fn][a])
                    m.save()
                    files[fn] = {a: (None if cache[a] is None else numpy.array(cache[a])) for a in LAZY}
                    for a in LAZY:
                        s.count('oracle:h5py')
                        raw = h5_read(os.path.join(d, fn), a)
                        if not same(raw, files[fn][a]):
                            s.violate('MolecularData.save() did not write the object\'s arrays (direct h5py read)', case,
                                      {'step': k, 'attribute': a, 'file': repr(raw)[:200], 'expected': repr(files[fn][a])[:200]})
                            return
                elif kind == 'delete':
                    _, fn = op
                    if fn in files:
                        os.remove(os.path.join(d, fn) + '.hdf5')
                        del files[fn]
                elif kind == 'fresh':
                    _, fn = op
                    if fn not in files:
                        continue
                    m = MolecularData(filename=os.path.join(d, fn))
                    for a in LAZY:
                        s.count('oracle:fresh')
                        got = getattr(m, a)
                        raw = h5_read(os.path.join(d, fn), a)
                        if not same(got, files[fn][a]) or not same(got, raw):
                            s.violate('a fresh MolecularData(filename=...) does not return the arrays stored in the file', case,
                                      {'step': k, 'attribute': a, 'got': repr(got)[:200], 'file(h5py)': repr(raw)[:200],
                                       'model': repr(files[fn][a])[:200]})
                            return
                    if sorted(os.listdir(d)) != sorted(f_ + '.hdf5' for f_ in files):
                        s.violate('the directory does not hold exactly the saved files', case, {'listing': sorted(os.listdir(d))})
                        return
        except Exception as e:  # noqa: BLE001
            s.violate('a MolecularData history raised', case, repr(e))
        finally:
            shutil.rmtree(d, ignore_errors=True)

    try:
        for a in LAZY:
            every = [('assign', 'x', b) for b in LAZY]
            # (1) read before any file exists, then assign + save, fresh load
            run([('new', 'x', 'm'), ('read', 'x', a)] + every + [('save', 'x'), ('fresh', 'm'), ('read', 'x', a)], '1 read-before-save:' + a)
            # (2) save A, load, external delete, first save of a different record B under the same name
            run([('new', 'x', 'm')] + every + [('save', 'x'), ('fresh', 'm'), ('delete', 'm'), ('new', 'y', 'm'), ('read', 'y', a)]
                + [('assign', 'y', b) for b in LAZY] + [('save', 'y'), ('fresh', 'm')], '2 delete-then-first-save:' + a)
            # (3) save A, load, overwrite with B (existing file), load
            run([('new', 'x', 'm')] + every + [('save', 'x'), ('fresh', 'm'), ('new', 'y', 'm'), ('assign', 'y', a), ('save', 'y'),
                                               ('fresh', 'm'), ('read', 'x', a)], '3 overwrite-existing:' + a)
            # (4) two objects sharing one file name, interleaved reads / saves
            run([('new', 'x', 'm'), ('new', 'y', 'm'), ('read', 'y', a), ('assign', 'x', a), ('save', 'x'), ('read', 'y', a),
                 ('assign', 'y', a), ('save', 'y'), ('read', 'x', a), ('fresh', 'm'), ('new', 'z', 'm'), ('read', 'z', a)],
                '4 shared-file-name:' + a)
            # (5) arrays handed out: mutate in place, the file content must win for a fresh object
            run([('new', 'x', 'm')] + every + [('save', 'x'), ('new', 'y', 'm'), ('mutate', 'y', a), ('fresh', 'm'), ('read', 'y', a),
                                               ('new', 'z', 'n'), ('read', 'z', a), ('fresh', 'm')], '5 in-place-mutation:' + a)
        # random histories
        attrs = list(LAZY)
        for h in range(budget(ctx.tier, 40, 400) if not ctx.drift else 150):
            ops, live = [], []
            for _ in range(rng.randint(4, 14)):
                r = rng.random()
                if not live or r < 0.15:
                    o = 'o%d' % len(live)
                    live.append(o)
                    ops.append(('new', o, rng.choice(['m', 'n'])))
                elif r < 0.40:
                    ops.append(('read', rng.choice(live), rng.choice(attrs)))
                elif r < 0.58:
                    ops.append(('assign', rng.choice(live), rng.choice(attrs)))
                elif r < 0.74:
                    ops.append(('save', rng.choice(live)))
                elif r < 0.82:
                    ops.append(('delete', rng.choice(['m', 'n'])))
                elif r < 0.94:
                    ops.append(('fresh', rng.choice(['m', 'n'])))
                else:
                    ops.append(('mutate', rng.choice(live), rng.choice(attrs)))
            ops += [('fresh', 'm'), ('fresh', 'n')]
            run(ops, 'random')
    finally:
        shutil.rmtree(base, ignore_errors=True)
    return s


def classify(v):
    return None


def probe_known(ctx, k):
    return False


def coeff_of_text(txt):
    """the Python number a printed coefficient text denotes (int, float or complex)"""
    for f in (int, float, complex):
        try:
            return f(txt)
        except ValueError:
            pass
    raise ValueError(txt)


def operator_of_entries(of, cls, entries, types=None):
    """rebuild an operator from its protocol entries; `types`: the recorded coefficient type names (numpy scalars are restored)"""
    import numpy
    from common import dec_term
    op = cls_of(of, cls)()
    for k, (t, _, txt) in enumerate(entries):
        v = coeff_of_text(txt)
        name = types[k] if types and k < len(types) else None
        if name and name not in ('int', 'float', 'complex') and hasattr(numpy, name):
            try:
                v = getattr(numpy, name)(v)
            except Exception:  # noqa: BLE001
                pass
        op.terms[dec_term(cls, t)] = v
    return op


def type_names(op):
    return [type(v).__name__ for v in op.terms.values()]


def history_violations(ctx, case_steps, types=None):
    """run a recorded history (protocol form) on the real code in a fresh directory -> violations"""
    of = ctx.of
    from openfermion.utils import operator_utils as ou
    s = Stream('file-histories', 'replay')
    base = tempfile.mkdtemp(prefix='ofv_c20r_', dir=os.environ.get('TMPDIR'))
    try:
        steps = []
        k = 0
        for st in case_steps:
            if st[0] == 'save':
                steps.append(['save', st[1], operator_of_entries(of, st[1], st[2], types[k] if types and k < len(types) else None),
                              st[3], st[4], st[5]])
                k += 1
            else:
                steps.append(['load', st[1], st[2]])
        run_history(ctx, s, of, ou, base, steps)
    finally:
        shutil.rmtree(base, ignore_errors=True)
    return s.violations


def shrink(ctx, v):
    """minimise a failing file history: drop steps / terms while the same oracle still fails"""
    case = v.get('input') or {}
    if v.get('stream') != 'file-histories' or 'steps' not in case:
        return v
    tys = list(case.get('types') or [])
    pairs, k = [], 0
    for st in case['steps']:
        if st[0] == 'save':
            pairs.append((st, tys[k] if k < len(tys) else None))
            k += 1
        else:
            pairs.append((st, None))

    def fails(ps):
        try:
            return [w for w in history_violations(ctx, [p_[0] for p_ in ps], [p_[1] for p_ in ps if p_[0][0] == 'save'])
                    if w['what'] == v['what']]
        except Exception:  # noqa: BLE001
            return []
    if not fails(pairs):
        return v
    changed = True
    while changed and len(pairs) > 1:
        changed = False
        for i in range(len(pairs)):
            cand = pairs[:i] + pairs[i + 1:]
            if cand and fails(cand):
                pairs, changed = cand, True
                break
    for i in range(len(pairs)):
        st, ty = pairs[i]
        if st[0] == 'save':
            j = 0
            while j < len(st[2]):
                st2 = [st[0], st[1], st[2][:j] + st[2][j + 1:]] + st[3:]
                ty2 = None if ty is None else ty[:j] + ty[j + 1:]
                cand = pairs[:i] + [(st2, ty2)] + pairs[i + 1:]
                if fails(cand):
                    pairs, st, ty = cand, st2, ty2
                else:
                    j += 1
    w = fails(pairs)
    return w[0] if w else v


def replay(ctx, payload):
    """re-run the recorded failing input; True = it no longer fails"""
    import numpy
    v = payload.get('violation')
    if not v:
        return None
    of = ctx.of
    stream, case = v.get('stream'), v.get('input') or {}
    ctx.seed, ctx.tier = payload.get('seed', ctx.seed), payload.get('tier', ctx.tier)
    if stream == 'print-parse':
        if 'terms' in case:
            op = operator_of_entries(of, case['cls'], case['terms'], case.get('types'))
        elif 'printed' in case:
            try:
                op = cls_of(of, case['cls'])(case['printed'])
            except Exception:  # noqa: BLE001
                return False
            if str(op) != case['printed']:
                # the printed form is not a fixed point: replay through the whole stream instead
                return not any(w['what'] == v['what'] and show(w['input']) == show(case) for w in stream_text(ctx).violations)
        else:
            return None
        return not stream_text(ctx, only_ops=[(case['cls'], op)]).violations
    if stream == 'file-histories' and 'steps' in case:
        return not history_violations(ctx, case['steps'], case.get('types'))
    runner = {'file-histories': stream_files, 'molecular-data': stream_molecule, 'molecular-data-histories': stream_mol_histories}.get(stream)
    if runner is None:
        return None
    for drift in (False, True):
        ctx.drift = drift
        for w in runner(ctx).violations:
            if w['what'] == v['what'] and show(w['input']) == show(case) and classify(w) is None:
                return False
    return True


def run(ctx):
    FLOAT_MODEL['checked'], FLOAT_MODEL['bad'] = 0, []
    streams = [stream_text(ctx), stream_files(ctx), stream_molecule(ctx), stream_mol_histories(ctx)]
    streams[0].count('float() on integer literals vs the Lean model (hypothesis of coef_contract_int)', FLOAT_MODEL['checked'])
    for k, py, m in FLOAT_MODEL['bad']:
        streams[0].disagree('float(s) on an integer literal', {'s': k}, py, m)
    return streams
