"""C03 — normal ordering yields the unique canonical form of the same operator.

Streams: (1) every short term and random long terms of FermionOperator / BosonOperator /
QuadOperator (hbar in {1, 2, 1/2, 8}) through the REAL `normal_ordered`, compared exactly with
the Lean Model (OFV.Model.C03) and checked against the Spec: the result denotes the same linear
map (`spec.eq`: Fock masks for fermions, polynomial representation for bosons / quadratures),
every result term is in normal order (OFV.Spec.C03, all pairs), normal ordering is idempotent;
(2) canonicity: pairs of spellings of one operator (rewritten with the defining relations by the
harness) have identical normal forms, pairs of different operators do not; (3) InteractionOperator
branch: Model tie, support on p>q, r>s, same denoted FermionOperator (built from the tensors by
the harness); (4) chemist_ordered and reorder: Model tie + same operator / relabelled operator (constant and zero
operators included; num_modes observed through the calls of the order function); (5) the public
term functions and normal_ordered called repeatedly around in-place modifications of earlier
results: fresh, unaliased, correct objects.
All coefficients are dyadic (hbar too), so the implementation's float arithmetic is exact and
dictionaries are compared exactly."""
import itertools
from fractions import Fraction

import numpy

from common import (Stream, budget, enc_op, enc_term, canon_op_json, to_gq, dyadic, rng_for, show)

ACTIONS = {'fermion': [1, 0], 'boson': [1, 0], 'quad': ['q', 'p']}
HBARS = [1.0, 2.0, 0.5, 8.0]

TRUSTED = [
    'C03: the zipper formulation of the two index loops of normal_ordered_*_term (OFV/Model/C03.lean header) is tied to the code by the exact correspondence run',
]
ASSUMPTIONS = [
    'numeric dyadic coefficients and dyadic hbar (1, 2, 1/2, 8): every intermediate value is exact in double arithmetic; runs whose values leave 40 bits are discarded and counted',
    'coefficient types: those the class constructors accept on the tree under test (a pure constructor probe: Python int / bool / float / complex, numpy.float64 / complex128 on HEAD; numpy float32 / complex64 / int64 coefficients are rejected by the constructors and excluded); tensor dtypes int32 .. complex128 and Fortran order are all exercised',
    'sums deleted by `+=` (|c| < EQ_TOLERANCE) are exact zeros on the generated inputs (exact regime); the soundness theorems are stated for the Model run with tolerance 0 (no deletion)',
    'boson / quadrature "same operator" is decided in the polynomial (Bargmann / Schroedinger) representation on all monomials of degree <= max term length per mode',
]
OPEN_STATEMENTS = [
    'canonicity is proved for all three algebras (canonicity_fermion / canonicity_boson / canonicity_quad, hbar != 0) for the Model with tolerance 0 and action codes 0 / 1; exponent vectors / basis states range over all canonical ones, not only those the driver enumerates',
    'tolerance: soundness / canonicity are proved for the Model with tolerance 0 and, on lattice inputs, for the executed function with the real EQ_TOLERANCE (normal_ordered_sound_melF_tol, normal_ordered_sound_boson_spec_tol, quad_sound_hbar_spec_tol(_fractional), canonicity_fermion_tol, canonicity_boson_tol, canonicity_quad_tol(_fractional); the executed function maps the lattice to itself and is idempotent there: normal_ordered_lattice_closed, normal_ordered_idempotent_tol / _boson_tol / _quad_tol; at tolerance 0 for all inputs: normal_ordered_idempotent / _boson / _quad); the transfer is (1/D)Z[i], tol*D <= 1 (normal_ordered_exact_regime: fermions, bosons, quadratures with Gaussian-integer hbar; normal_ordered_exact_regime_quad_fractional: hbar = (p+qi)/E such as 1/2, for terms of length <= K and tol*D*E^K <= 1); the lattice hypothesis is the decidable test latB which the driver evaluates on every generated operator and the harness counts (normal_ordered_exact_regime_of_latB); inputs off the lattice are outside the theorems',
    'InteractionOperator branch: generators, closed form and soundness of the two-body tensor are proved; that constant and one-body tensor are copied and the argument is not modified is checked by the correspondence run; reorder: proved for Fermion / Boson / QuadOperator (relabelling of the generators) and for QubitOperator (Spec.melQ of the relabelled strings)',
    'termination fuel: noTerm uses fuel len(term)+1; that this fuel never runs out is a consequence of the soundness theorem for tolerance 0 (an exhausted fuel would return the empty dictionary) and is otherwise covered by the correspondence run',
]


def cls_of(of, name):
    return {'fermion': of.FermionOperator, 'boson': of.BosonOperator, 'quad': of.QuadOperator,
            'qubit': of.QubitOperator}[name]


def kind_json(cls, hbar):
    return ['quad', to_gq(hbar)] if cls == 'quad' else cls


def alg_json(cls, hbar):
    return ['quad', to_gq(hbar)] if cls == 'quad' else cls


def nonzero(jop):
    return [e for e in jop if e[1][0] != 0 or e[1][2] != 0]


def canon_nz(jop):
    return canon_op_json(nonzero(jop))


def big(jop):
    for _, c in jop:
        if max(abs(c[0]).bit_length(), c[1].bit_length(), abs(c[2]).bit_length(), c[3].bit_length()) > 40:
            return True
    return False


def all_terms(cls, n_modes, max_len):
    factors = [(i, a) for i in range(n_modes) for a in ACTIONS[cls]]
    out = []
    for k in range(max_len + 1):
        out += list(itertools.product(factors, repeat=k))
    return out


def rand_term(rng, cls, max_len, n_modes):
    n = rng.randint(0, max_len)
    return tuple((rng.randrange(n_modes), rng.choice(ACTIONS[cls])) for _ in range(n))


def normal_call(of, cls, op, hbar):
    return of.normal_ordered(op, hbar) if cls == 'quad' else of.normal_ordered(op)


def mk_op(C, items):
    """sum of single terms through the constructor (Boson / Quad constructors sort by index)"""
    op = C()
    for t, c in items:
        op += C(t, c)
    return op


def raw_json(cls, items):
    """the operator as the list of its spelled terms (unsimplified): its Spec denotation"""
    return [[enc_term(cls, t), to_gq(c)] for t, c in items]


# ---------------------------------------------------------------- stream 1: terms and operators

def check_ops(ctx, s, cls, cases):
    """cases: list of (items, hbar).  Tie + oracle."""
    of = ctx.of
    C = cls_of(of, cls)
    rows = []
    for items, hbar in cases:
        case = {'cls': cls, 'terms': raw_json(cls, items), 'hbar': hbar}
        try:
            op = mk_op(C, items)
            stored = enc_op(cls, op.terms)
            res = normal_call(of, cls, op, hbar)
            jres = enc_op(cls, res.terms)
            res2 = enc_op(cls, normal_call(of, cls, res, hbar).terms)
        except Exception as e:  # noqa
            s.violate('normal_ordered raised %s' % type(e).__name__, case, {'error': repr(e)})
            continue
        rows.append((case, stored, jres, res2, hbar))
    reqs = []
    for case, stored, jres, res2, hbar in rows:
        n = 1 + max([i for t, _ in case['terms'] for i, _ in t] + [0])
        d = max([len(t) for t, _ in case['terms']] + [0])
        reqs.append({'op': 'c03.normal_ordered', 'kind': kind_json(cls, hbar), 'a': stored})
        reqs.append({'op': 'spec.eq', 'alg': alg_json(cls, hbar), 'n': n, 'd': d,
                     'lhs': ['leaf', case['terms']], 'rhs': ['leaf', jres]})
        reqs.append({'op': 'c03.spec_normal', 'alg': cls, 'a': jres})
    ans = ctx.driver.run(reqs)
    for i, (case, stored, jres, res2, hbar) in enumerate(rows):
        model, eq, normal = ans[3 * i]['r'], ans[3 * i + 1], ans[3 * i + 2]
        if big(model) or big(jres):
            s.discards += 1
            continue
        s.count('lattice-hypothesis(normal_ordered_exact_regime_of_latB):%s' % ans[3 * i]['lattice'])
        if canon_nz(model) != canon_nz(ans[3 * i]['r0']):
            # a non-zero sum below EQ_TOLERANCE was deleted: outside the exact regime of the theorems
            s.count('outside-exact-regime')
            s.discards += 1
            continue
        s.case(case)
        s.count('%s:len=%d:terms_out=%d' % (cls, max([len(t) for t, _ in case['terms']] + [0]), min(len(jres), 9)))
        if cls == 'quad':
            s.count('hbar=%s' % hbar)
        if canon_op_json(model) != canon_op_json(jres):
            s.disagree('normal_ordered', case, jres, model)
        if not eq['eq']:
            s.violate('normal_ordered(op) does not denote the same operator', case,
                      {'result': jres, 'witness_state': eq['state'], 'input_image': eq['lhs'], 'result_image': eq['rhs']})
        if not normal:
            s.violate('a term of normal_ordered(op) is not in normal order', case, {'result': jres})
        if canon_op_json(res2) != canon_op_json(jres):
            s.violate('normal_ordered is not idempotent', case, {'once': jres, 'twice': res2})


def stream_terms(ctx):
    s = Stream('terms', 'exhaustive: every fermion term of length <= 4 on 3 modes, every boson / quadrature term of length '
               '<= 4 on 2 modes (thorough: length <= 5 on 3 modes for fermions, <= 5 on 2 modes for bosons / quadratures); random: terms of '
               'length <= 8 over <= 5 modes with repeated modes and sums of 1-4 terms, dyadic coefficients, hbar in '
               '{1, 2, 1/2, 8}; distinct = distinct inputs')
    thorough = ctx.tier == 'thorough' or ctx.drift
    for cls in ('fermion', 'boson', 'quad'):
        rng = rng_for(ctx.seed, 'c03-terms-' + cls)
        if cls == 'fermion':
            terms = all_terms(cls, 3, 5 if thorough else 4)
        else:
            terms = all_terms(cls, 2, 5 if thorough else 4)
        cases = []
        for t in terms:
            hb = rng.choice(HBARS) if cls == 'quad' else 1.0
            cases.append(([(t, 1.0)], hb))
        n = budget(ctx.tier, 150, 3000)
        if ctx.drift:
            n = max(n, 800)
        for _ in range(n):
            hb = rng.choice(HBARS) if cls == 'quad' else 1.0
            r = rng.random()
            if r < 0.5:
                # one long term, few modes (many contractions)
                nm = rng.choice([1, 2, 3]) if cls != 'fermion' else rng.choice([2, 3, 4, 5])
                ln = rng.randint(4, 8 if cls == 'fermion' else 6)
                t = tuple((rng.randrange(nm), rng.choice(ACTIONS[cls])) for _ in range(ln))
                if cls == 'fermion' and rng.random() < 0.7:
                    # no repeated factor: the term does not vanish and needs many contractions
                    allf = [(i, a) for i in range(nm) for a in (0, 1)]
                    t = tuple(rng.sample(allf, min(ln, len(allf))))
                cases.append(([(t, dyadic(rng, max_num=4, max_pow=2))], hb))
            else:
                nm = rng.choice([2, 3]) if cls != 'fermion' else rng.choice([3, 4, 5])
                items = [(rand_term(rng, cls, 5 if cls == 'fermion' else 4, nm), dyadic(rng, max_num=4, max_pow=2))
                         for _k in range(rng.choice([1, 2, 3, 4]))]
                cases.append((items, hb))
        check_ops(ctx, s, cls, cases)
    s.exhaustive = False
    return s


# ---------------------------------------------------------------- stream 2: canonicity

def respell(rng, cls, items, hbar):
    """rewrite one adjacent pair of one term with the defining relation of the algebra:
    x y = sigma y x + delta  (harness-side, independent of the library)"""
    items = list(items)
    cand = [k for k, (t, _) in enumerate(items) if len(t) >= 2]
    if not cand:
        return items
    k = rng.choice(cand)
    t, c = items[k]
    j = rng.randrange(len(t) - 1)
    x, y = t[j], t[j + 1]
    pre, post = t[:j], t[j + 2:]
    delta = 0
    if cls == 'fermion':
        sigma = -1
        if x[0] == y[0] and x[1] != y[1]:
            delta = 1
    elif cls == 'boson':
        sigma = 1
        if x[0] == y[0] and x[1] != y[1]:
            delta = 1 if x[1] == 0 else -1          # b b^ = b^ b + 1 ; b^ b = b b^ - 1
    else:
        sigma = 1
        if x[0] == y[0] and x[1] != y[1]:
            delta = 1j * hbar if x[1] == 'q' else -1j * hbar   # q p = p q + i hbar
    new = items[:k] + items[k + 1:]
    new.append((pre + (y, x) + post, sigma * c))
    if delta != 0:
        new.append((pre + post, delta * c))
    return new


def stream_canonicity(ctx):
    of = ctx.of
    s = Stream('canonicity', 'pairs (A, B): B = A respelled 1-4 times with the defining relations (same operator) or with one '
               'coefficient changed / one term added (different operator); checks spec.eq(A, B) <=> normal_ordered(A) and '
               'normal_ordered(B) have identical non-zero coefficients; <= 3 modes, terms of length <= 5')
    n = budget(ctx.tier, 120, 2500)
    if ctx.drift:
        n = max(n, 600)
    for cls in ('fermion', 'boson', 'quad'):
        rng = rng_for(ctx.seed, 'c03-canon-' + cls)
        C = cls_of(of, cls)
        rows = []
        for _ in range(n):
            hb = rng.choice(HBARS) if cls == 'quad' else 1.0
            nm = rng.choice([2, 3]) if cls == 'fermion' else rng.choice([1, 2])
            items = [(rand_term(rng, cls, 4, nm), dyadic(rng, max_num=4, max_pow=1)) for _k in range(rng.choice([1, 2, 3]))]
            other = list(items)
            for _k in range(rng.choice([1, 2, 3, 4])):
                other = respell(rng, cls, other, hb)
            same = True
            if rng.random() < 0.35:
                same = None  # decided by the Spec
                if rng.random() < 0.5 and other:
                    k = rng.randrange(len(other))
                    other[k] = (other[k][0], other[k][1] + rng.choice([1, -0.5, 1j]))
                else:
                    other.append((rand_term(rng, cls, 3, nm), rng.choice([1.0, -2.0, 0.5j])))
            case = {'cls': cls, 'A': raw_json(cls, items), 'B': raw_json(cls, other), 'hbar': hb}
            try:
                na = enc_op(cls, normal_call(of, cls, mk_op(C, items), hb).terms)
                nb = enc_op(cls, normal_call(of, cls, mk_op(C, other), hb).terms)
            except Exception as e:  # noqa
                s.violate('normal_ordered raised %s' % type(e).__name__, case, {'error': repr(e)})
                continue
            if big(na) or big(nb):
                s.discards += 1
                continue
            rows.append((case, na, nb, same, hb))
        reqs = []
        for case, na, nb, same, hb in rows:
            ts = [t for t, _ in case['A']] + [t for t, _ in case['B']]
            nmodes = 1 + max([i for t in ts for i, _ in t] + [0])
            d = max([len(t) for t in ts] + [0])
            reqs.append({'op': 'spec.eq', 'alg': alg_json(cls, hb), 'n': nmodes, 'd': d,
                         'lhs': ['leaf', case['A']], 'rhs': ['leaf', case['B']]})
        for (case, na, nb, same, hb), a in zip(rows, ctx.driver.run(reqs)):
            s.case(case)
            equal_forms = canon_nz(na) == canon_nz(nb)
            s.count('%s:same_operator=%s:equal_normal_forms=%s' % (cls, a['eq'], equal_forms))
            if same is True and not a['eq']:
                # the harness rewriting itself would be wrong: infrastructure, not the library
                s.disagree('harness respelling changed the operator (Spec)', case, None, a)
                continue
            if a['eq'] != equal_forms:
                s.violate('canonicity: same operator <=> equal normal forms fails', case,
                          {'same_operator_in_spec': a['eq'], 'normal_form_A': na, 'normal_form_B': nb})
    return s


# ---------------------------------------------------------------- stream 3: InteractionOperator

def fermion_items_of_tensors(n, const, one, two):
    """the FermionOperator an InteractionOperator denotes (docstring formula)"""
    items = []
    if const != 0:
        items.append(((), const))
    for p in range(n):
        for q in range(n):
            if one[p, q] != 0:
                items.append((((p, 1), (q, 0)), complex(one[p, q])))
    for p, q, r, s_ in itertools.product(range(n), repeat=4):
        if two[p, q, r, s_] != 0:
            items.append((((p, 1), (q, 1), (r, 0), (s_, 0)), complex(two[p, q, r, s_])))
    return items


def stream_interaction(ctx):
    of = ctx.of
    s = Stream('interaction-operator', 'InteractionOperators on 1-4 modes with dyadic (complex) tensors of varying sparsity: '
               'normal_ordered compared with the Model (antisymmetrised scatter), support p>q and r>s, constant / one-body '
               'unchanged, input left unmodified, same denoted fermion operator (spec.eq on all 2^n Fock states)')
    rng = rng_for(ctx.seed, 'c03-io')
    n_cases = budget(ctx.tier, 60, 1200)
    if ctx.drift:
        n_cases = max(n_cases, 300)
    rows = []
    for _ in range(n_cases):
        n = rng.choice([1, 2, 2, 3, 3, 4])
        cplx = rng.random() < 0.4
        dens = rng.choice([0.15, 0.5, 1.0])

        def val():
            if rng.random() > dens:
                return 0.0
            return dyadic(rng, max_num=4, max_pow=2, complex_p=0.5 if cplx else 0.0)
        dt = complex if cplx else float
        one = numpy.array([val() for _ in range(n * n)], dtype=dt).reshape((n, n))
        two = numpy.array([val() for _ in range(n ** 4)], dtype=dt).reshape((n,) * 4)
        const = dyadic(rng, max_num=4, max_pow=1, complex_p=0.0)
        case = {'n': n, 'constant': to_gq(const), 'one_body': [to_gq(x) for x in one.reshape(-1)],
                'two_body': [to_gq(x) for x in two.reshape(-1)]}
        try:
            io = of.InteractionOperator(const, one.copy(), two.copy())
            res = of.normal_ordered(io)
            ok_type = isinstance(res, of.InteractionOperator)
            unchanged = numpy.array_equal(io.two_body_tensor, two) and numpy.array_equal(io.one_body_tensor, one)
            rt, r1, rc = res.two_body_tensor, res.one_body_tensor, res.constant
        except Exception as e:  # noqa
            s.violate('normal_ordered(InteractionOperator) raised %s' % type(e).__name__, case, {'error': repr(e)})
            continue
        rows.append((case, n, const, one, two, rc, r1, rt, ok_type, unchanged))
    reqs = []
    for case, n, const, one, two, rc, r1, rt, ok_type, unchanged in rows:
        reqs.append({'op': 'c03.interaction', 'n': n, 'two_body': case['two_body']})
        a = raw_json('fermion', fermion_items_of_tensors(n, const, one, two))
        b = raw_json('fermion', fermion_items_of_tensors(n, rc, r1, rt))
        reqs.append({'op': 'spec.eq', 'alg': 'fermion', 'n': n, 'lhs': ['leaf', a], 'rhs': ['leaf', b]})
    ans = ctx.driver.run(reqs)
    for i, (case, n, const, one, two, rc, r1, rt, ok_type, unchanged) in enumerate(rows):
        s.case(case)
        s.count('n=%d' % n)
        model, eq = ans[2 * i], ans[2 * i + 1]
        got = [to_gq(x) for x in rt.reshape(-1)]
        if [tuple(x) for x in model] != [tuple(x) for x in got]:
            s.disagree('normal_ordered(InteractionOperator).two_body_tensor', case, got, model)
        if not ok_type:
            s.violate('normal_ordered(InteractionOperator) is not an InteractionOperator', case, {})
        if not unchanged:
            s.violate('normal_ordered(InteractionOperator) modified its argument', case, {})
        if complex(rc) != complex(const) or not numpy.array_equal(r1, one):
            s.violate('normal_ordered(InteractionOperator) changed the constant / one-body part', case, {})
        bad = [(p, q, r, t) for p, q, r, t in itertools.product(range(n), repeat=4)
               if rt[p, q, r, t] != 0 and not (p > q and r > t)]
        if bad:
            s.violate('normal ordered two-body tensor not supported on p>q, r>s', case, {'entries': bad[:5]})
        if not eq['eq']:
            s.violate('normal_ordered(InteractionOperator) does not denote the same operator', case,
                      {'witness_state': eq['state'], 'result_two_body': got})
    return s


# ---------------------------------------------------------------- stream 4: chemist_ordered, reorder

def stream_chemist_reorder(ctx):
    of = ctx.of
    F = of.FermionOperator
    s = Stream('chemist-reorder', 'chemist_ordered on random two-body number conserving FermionOperators (<= 4 modes; also '
               'operators that must be rejected with TypeError): Model tie, same operator (spec.eq), every two-body term of the '
               'shape a^ a a^ a; reorder with up_then_down / reversal / random permutations (also reverse=True) on fermion, boson, '
               'qubit operators: Model tie and spec.eq against the harness-side relabelling')
    rng = rng_for(ctx.seed, 'c03-chem')
    n_cases = budget(ctx.tier, 150, 3000)
    if ctx.drift:
        n_cases = max(n_cases, 600)
    rows = []
    for _ in range(n_cases):
        nm = rng.choice([2, 3, 4])
        items = []
        for _k in range(rng.choice([1, 2, 3, 4])):
            ln = rng.choice([0, 2, 2, 4, 4, 4])
            if rng.random() < 0.08:
                ln = rng.choice([1, 3, 6])
            half = ln // 2
            acts = [1] * half + [0] * (ln - half)
            if rng.random() < 0.5:
                rng.shuffle(acts)
            if rng.random() < 0.06 and ln:
                acts[0] = 1 - acts[0]
            t = tuple((rng.randrange(nm), a) for a in acts)
            items.append((t, dyadic(rng, max_num=4, max_pow=2)))
        case = {'terms': raw_json('fermion', items)}
        op = mk_op(F, items)
        stored = enc_op('fermion', op.terms)
        try:
            res = of.chemist_ordered(op)
            out = {'r': enc_op('fermion', res.terms)}
        except TypeError:
            out = {'error': 'TypeError'}
        except Exception as e:  # noqa
            s.violate('chemist_ordered raised %s' % type(e).__name__, case, {'error': repr(e)})
            continue
        rows.append((case, stored, out, nm))
    reqs = []
    for case, stored, out, nm in rows:
        reqs.append({'op': 'c03.chemist', 'a': stored})
        reqs.append({'op': 'spec.eq', 'alg': 'fermion', 'n': nm, 'lhs': ['leaf', case['terms']],
                     'rhs': ['leaf', out.get('r', case['terms'])]})
    ans = ctx.driver.run(reqs)
    for i, (case, stored, out, nm) in enumerate(rows):
        s.case(case)
        model, eq = ans[2 * i], ans[2 * i + 1]
        s.count('chemist:' + ('error' if 'error' in out else 'ok'))
        if ('error' in out) != ('error' in model) or ('r' in out and canon_op_json(out['r']) != canon_op_json(model['r'])):
            s.disagree('chemist_ordered', case, out, model)
        if 'r' in out:
            if not eq['eq']:
                s.violate('chemist_ordered(op) does not denote the same operator', case,
                          {'result': out['r'], 'witness_state': eq['state']})
            for t, c in nonzero(out['r']):
                acts = [a for _, a in t]
                if acts not in ([], [1, 0], [1, 0, 1, 0]):
                    s.violate('chemist_ordered term not of the shape a^ a a^ a', case, {'term': t})
    # reorder
    rows = []
    for _ in range(n_cases):
        cls = rng.choice(['fermion', 'fermion', 'boson', 'qubit'])
        C = cls_of(of, cls)
        nm = rng.choice([2, 3]) if cls == 'boson' else rng.choice([2, 3, 4, 5])
        acts = ['X', 'Y', 'Z'] if cls == 'qubit' else [1, 0]
        items = []
        for _k in range(rng.choice([1, 2, 3])):
            ln = rng.randint(0, 4)
            if cls == 'qubit':
                idx = sorted(rng.sample(range(nm), min(ln, nm)))
                t = tuple((i, rng.choice(acts)) for i in idx)
            else:
                t = tuple((rng.randrange(nm), rng.choice(acts)) for _x in range(ln))
            items.append((t, dyadic(rng, max_num=4, max_pow=2)))
        items[0] = (items[0][0] + ((nm - 1, acts[0]),) if not any(f[0] == nm - 1 for f in items[0][0]) else items[0][0],
                    items[0][1])
        op = mk_op(C, items)
        if rng.random() < 0.06:
            # a constant or the zero operator: no mode index at all
            op = C((), dyadic(rng, max_num=4, max_pow=1)) if rng.random() < 0.7 else C()
        which = rng.choice(['up_then_down', 'reversal', 'perm'])
        num_modes = nm if rng.random() < 0.5 else None
        if which == 'perm':
            num_modes = nm          # a permutation of range(nm) is only a mode map for exactly nm modes
        rev = rng.random() < 0.3
        if which == 'up_then_down':
            fn = of.up_then_down
        elif which == 'reversal':
            def fn(i, n):
                return n - 1 - i
        else:
            perm = list(range(nm))
            rng.shuffle(perm)

            def fn(i, n, perm=perm):
                return perm[i]
        no_index = all(len(t) == 0 for t in op.terms)
        case = {'cls': cls, 'terms': enc_op(cls, op.terms), 'order_function': which, 'num_modes': num_modes,
                'reverse': rev, 'no_mode_index': no_index}
        before = enc_op(cls, op.terms)
        calls = []

        def fn_rec(i, n, fn=fn, calls=calls):
            calls.append((i, n))
            return fn(i, n)
        try:
            res = of.reorder(op, fn_rec, num_modes=num_modes, reverse=rev)
        except Exception as e:  # noqa
            s.violate('reorder raised %s' % type(e).__name__, case, {'error': repr(e)})
            continue
        if enc_op(cls, op.terms) != before or res is op:
            s.violate('reorder modified or returned its argument', case, {})
        # num_modes as documented: one more than the largest mode index (0 if there is none)
        n_eff = (max([f[0] for t in op.terms for f in t], default=-1) + 1) if num_modes is None else num_modes
        # the order function is called exactly once per mode index, with the documented num_modes
        if sorted(calls) != [(i, n_eff) for i in range(n_eff)]:
            s.violate('reorder called order_function with other (mode_idx, num_modes) than range(num_modes) x {num_modes}',
                      case, {'calls': calls[:8], 'num_modes_expected': n_eff})
        if no_index and canon_op_json(enc_op(cls, res.terms)) != canon_op_json(before):
            s.violate('reorder changed an operator without any mode index', case, {'result': enc_op(cls, res.terms)})
        mp = {i: fn(i, n_eff) for i in range(n_eff)}
        if rev:
            mp = {v: k for k, v in mp.items()}
        mlist = [mp[i] for i in range(n_eff)]
        # the relabelled operator, term by term, unsimplified (Spec side)
        relabelled = [[[[mlist[i], a] for i, a in t], c] for t, c in case['terms']]
        rows.append((case, cls, mlist, relabelled, enc_op(cls, res.terms), n_eff))
    reqs = []
    for case, cls, mlist, relabelled, out, n_eff in rows:
        reqs.append({'op': 'c03.reorder', 'cls': cls, 'map': mlist, 'a': case['terms']})
        reqs.append({'op': 'spec.eq', 'alg': cls, 'n': n_eff, 'd': 4, 'lhs': ['leaf', relabelled], 'rhs': ['leaf', out]})
    ans = ctx.driver.run(reqs)
    for i, (case, cls, mlist, relabelled, out, n_eff) in enumerate(rows):
        s.case(case)
        s.count('reorder:%s:%s%s' % (cls, case['order_function'], ':no-mode-index' if case['no_mode_index'] else ''))
        model, eq = ans[2 * i]['r'], ans[2 * i + 1]
        if canon_op_json(model) != canon_op_json(out):
            s.disagree('reorder', case, out, model)
        if case['num_modes'] is None and ans[2 * i]['num_modes'] != n_eff:
            s.disagree('reorder: default num_modes', case, n_eff, ans[2 * i]['num_modes'])
        if not eq['eq']:
            s.violate('reorder(op) is not the relabelled operator', case, {'result': out, 'witness_state': eq['state']})
    return s


# ---------------------------------------------------------------- stream 5: fresh results, no aliasing

def stream_fresh_results(ctx):
    """normal_ordered_ladder_term / normal_ordered_quad_term / normal_ordered called again after the
    first result was modified in place: every call must return a new, correct object."""
    of = ctx.of
    tr = of.transforms.opconversions.term_reordering
    s = Stream('fresh-results', 'normal_ordered_ladder_term / normal_ordered_quad_term (public term functions) and '
               'normal_ordered called twice on the same argument around an in-place modification (+=, *=, -=) of the '
               'first result, and on related terms whose contractions recurse into earlier terms: the later result must '
               'be a new object (no aliasing with any earlier result or the argument), equal to the first one, to the '
               'Model and denote c * term (spec.eq); the argument is not modified')
    n = budget(ctx.tier, 80, 1500)
    if ctx.drift:
        n = max(n, 400)
    rows = []
    for cls in ('fermion', 'boson', 'quad'):
        rng = rng_for(ctx.seed, 'c03-fresh-' + cls)
        C = cls_of(of, cls)
        earlier = []        # results of earlier calls (kept alive): none may be returned again
        for _ in range(n):
            hb = rng.choice(HBARS) if cls == 'quad' else 1.0
            nm = rng.choice([1, 2]) if cls != 'fermion' else rng.choice([2, 3])
            ln = rng.randint(2, 6)
            t = tuple((rng.randrange(nm), rng.choice(ACTIONS[cls])) for _x in range(ln))
            c = dyadic(rng, max_num=4, max_pow=2)

            def call(term, coeff):
                if cls == 'quad':
                    return tr.normal_ordered_quad_term(term, coeff, hb)
                return tr.normal_ordered_ladder_term(term, coeff, -1 if cls == 'fermion' else 1)
            case = {'cls': cls, 'term': enc_term(cls, t), 'c': to_gq(c), 'hbar': hb}
            try:
                r1 = call(t, c)
                snap = enc_op(cls, r1.terms)
                # in-place modifications of the first result
                r1 += C(rand_term(rng, cls, 2, nm), 1.0)
                r1 *= rng.choice([2.0, -1.0, 0.5])
                if rng.random() < 0.5:
                    r1 -= C((), 3.0)
                # a longer term whose contractions recurse into `t`'s sub-terms
                x = (rng.randrange(nm), ACTIONS[cls][1])
                y = (x[0], ACTIONS[cls][0])
                r_mid = call((x, y) + t, c)
                r2 = call(t, c)
                op = C()
                op.terms = {t: c} if cls == 'fermion' else dict(C(t, c).terms)
                before = enc_op(cls, op.terms)
                n1 = normal_call(of, cls, op, hb)
                snap_n = enc_op(cls, n1.terms)
                n1 *= 3.0
                n1 += C(rand_term(rng, cls, 1, nm), 1.0)
                n2 = normal_call(of, cls, op, hb)
            except Exception as e:  # noqa
                s.violate('term function raised %s' % type(e).__name__, case, {'error': repr(e)})
                continue
            s.case(case)
            s.count(cls)
            objs = [r1, r_mid, r2, n1, n2]
            if len({id(o) for o in objs}) != len(objs) or any(o is e for o in objs for e in earlier) \
                    or any(o is op for o in objs):
                s.violate('a call returned an object that aliases an earlier result or its argument', case, {})
            earlier = (earlier + [r2, r_mid])[-40:]
            if enc_op(cls, op.terms) != before:
                s.violate('normal_ordered modified its argument', case, {})
            if canon_op_json(enc_op(cls, r2.terms)) != canon_op_json(snap):
                s.violate('second call of the term function differs from the first (first result was modified in place)',
                          case, {'first': snap, 'second': enc_op(cls, r2.terms)})
            if canon_op_json(enc_op(cls, n2.terms)) != canon_op_json(snap_n):
                s.violate('second call of normal_ordered differs from the first (first result was modified in place)',
                          case, {'first': snap_n, 'second': enc_op(cls, n2.terms)})
            rows.append((case, cls, t, c, hb, enc_op(cls, r2.terms), (x, y) + t, enc_op(cls, r_mid.terms)))
    reqs = []
    for case, cls, t, c, hb, j2, tm, jm in rows:
        for term, jr in ((t, j2), (tm, jm)):
            reqs.append({'op': 'c03.no_term', 'kind': kind_json(cls, hb), 'term': enc_term(cls, term), 'c': to_gq(c)})
            nmod = 1 + max([i for i, _ in term] + [0])
            reqs.append({'op': 'spec.eq', 'alg': alg_json(cls, hb), 'n': nmod, 'd': len(term),
                         'lhs': ['leaf', [[enc_term(cls, term), to_gq(c)]]], 'rhs': ['leaf', jr]})
    ans = ctx.driver.run(reqs)
    for i, (case, cls, t, c, hb, j2, tm, jm) in enumerate(rows):
        for k, (what, jr) in enumerate((('repeated call', j2), ('longer term', jm))):
            model, eq = ans[4 * i + 2 * k], ans[4 * i + 2 * k + 1]
            if big(model) or big(jr):
                s.discards += 1
                continue
            if canon_nz(model) != canon_nz(jr):
                s.disagree('term function (%s)' % what, case, jr, model)
            if not eq['eq']:
                s.violate('term function result (%s) does not denote c * term' % what, case,
                          {'result': jr, 'witness_state': eq['state']})
    return s


# ---------------------------------------------------------------- stream 6: hardening (types, bands, state)

BAND = [2.0 ** -k for k in (14, 15, 17, 20, 22, 23)]      # 6e-5 .. 1.2e-7, dyadic: exact in double arithmetic


def coeff_types(of):
    """coefficient types the class constructors accept on this tree (a pure constructor probe,
    independent of the functions under test); a rejected type is excluded, never an alarm"""
    out = []
    for name, ty in (('int', int), ('bool', bool), ('float', float), ('complex', complex),
                     ('float64', numpy.float64), ('complex128', numpy.complex128), ('float32', numpy.float32),
                     ('complex64', numpy.complex64), ('int64', numpy.int64)):
        try:
            of.FermionOperator((), ty(1))
            out.append((name, ty))
        except Exception:  # noqa
            pass
    return out


def cast_coeff(ty, x):
    """the dyadic value x as an instance of ty (integers / booleans only for integral x)"""
    if ty in (int, numpy.int64):
        return ty(int(x)) if float(x).is_integer() and x != 0 else ty(1)
    if ty is bool:
        return True
    if ty in (complex, numpy.complex128, numpy.complex64):
        return ty(complex(x, x / 2))
    return ty(x)


def stream_hardening(ctx):
    of = ctx.of
    tr = of.transforms.opconversions.term_reordering
    s = Stream('hardening', 'normal_ordered with every coefficient type the constructors accept (Python int / bool / float / complex, '
               'numpy scalars) placed into .terms, coefficients of magnitude 2^-14 .. 2^-23 next to O(1) ones on terms that '
               'normal-order onto the same term, hbar as int / numpy scalar, term functions on lists and tuples, mode indices >= 257; '
               'InteractionOperators with int32 / int64 / float32 / float64 / complex64 / complex128 tensors, Fortran order, complex '
               'constants, up to 5 modes; chemist_ordered / normal_ordered(InteractionOperator) called twice around in-place '
               'modification of the first result; arguments (incl. arrays) unmodified, results share no memory with arguments; all '
               'comparisons exact (rational), float_comparisons = 0')
    rng = rng_for(ctx.seed, 'c03-hard')
    types = coeff_types(of)
    s.count('coefficient types accepted: ' + ','.join(nm for nm, _ in types))
    n = budget(ctx.tier, 120, 2000)
    if ctx.drift:
        n = max(n, 500)
    # ---- (T)(B) coefficient types and bands
    rows = []
    for cls in ('fermion', 'boson', 'quad'):
        C = cls_of(of, cls)
        for _ in range(n):
            hb = rng.choice([1.0, 2, 0.5, numpy.float32(2), numpy.float64(0.5), 8]) if cls == 'quad' else 1.0
            big_idx = cls == 'fermion' and rng.random() < 0.15
            nm = rng.choice([2, 3]) if cls == 'fermion' else rng.choice([1, 2])
            base = rng.choice([0, 0, 0, 255, 298]) if big_idx else 0
            ln = rng.randint(2, 5)
            t = tuple((base + rng.randrange(nm), rng.choice(ACTIONS[cls])) for _x in range(ln))
            # a second spelling of a term that normal-orders onto (part of) the same terms: swap an adjacent pair
            j = rng.randrange(ln - 1)
            t2 = t[:j] + (t[j + 1], t[j]) + t[j + 2:]
            tname, ty = rng.choice(types)
            c1 = cast_coeff(ty, rng.choice([1.0, -1.0, 2.0, 0.5, 3.0, -1.5]))
            c2 = rng.choice(BAND) * rng.choice([1, -1, 3])
            if rng.random() < 0.3:
                c2 = complex(0.0, c2)                      # purely imaginary
            terms = {}
            raw = []
            for term, c in ((t, c1), (t2, c2), (t[:-1], rng.choice(BAND))):
                key = term if cls == 'fermion' else tuple(sorted(term, key=lambda f: f[0]))
                if key in terms:
                    continue
                terms[key] = c
                raw.append((key, c))
            op = C()
            op.terms = dict(terms)
            case = {'cls': cls, 'terms': raw_json(cls, raw), 'hbar': float(hb), 'hbar_type': type(hb).__name__,
                    'coefficient_type': tname}
            before = [(k, type(v).__name__, to_gq(v)) for k, v in op.terms.items()]
            try:
                res = normal_call(of, cls, op, hb)
                jres = enc_op(cls, res.terms)
                after = [(k, type(v).__name__, to_gq(v)) for k, v in op.terms.items()]
                # term functions on a list and on a tuple
                fn = (lambda term: tr.normal_ordered_quad_term(term, c1, hb)) if cls == 'quad' else \
                     (lambda term: tr.normal_ordered_ladder_term(term, c1, -1 if cls == 'fermion' else 1))
                jl, jt = enc_op(cls, fn(list(t)).terms), enc_op(cls, fn(tuple(t)).terms)
            except Exception as e:  # noqa
                s.violate('normal_ordered raised %s' % type(e).__name__, case, {'error': repr(e)})
                continue
            if before != after or res is op:
                s.violate('normal_ordered modified or returned its argument', case, {})
            if canon_op_json(jl) != canon_op_json(jt):
                s.violate('term function differs between list and tuple input', case, {'list': jl, 'tuple': jt})
            rows.append((case, cls, enc_op(cls, op.terms), jres, hb, big_idx, t, c1, jt))
    reqs = []
    for case, cls, stored, jres, hb, big_idx, t, c1, jt in rows:
        reqs.append({'op': 'c03.normal_ordered', 'kind': kind_json(cls, hb), 'a': stored})
        reqs.append({'op': 'c03.no_term', 'kind': kind_json(cls, hb), 'term': enc_term(cls, t), 'c': to_gq(c1)})
        reqs.append({'op': 'c03.spec_normal', 'alg': cls, 'a': jres})
        if big_idx:
            reqs.append({'op': 'ping'})
        else:
            nmod = 1 + max([i for tt, _ in case['terms'] for i, _ in tt] + [0])
            d = max([len(tt) for tt, _ in case['terms']] + [0])
            reqs.append({'op': 'spec.eq', 'alg': alg_json(cls, hb), 'n': nmod, 'd': d,
                         'lhs': ['leaf', case['terms']], 'rhs': ['leaf', jres]})
    ans = ctx.driver.run(reqs)
    for i, (case, cls, stored, jres, hb, big_idx, t, c1, jt) in enumerate(rows):
        m, mt, normal, eq = ans[4 * i], ans[4 * i + 1], ans[4 * i + 2], ans[4 * i + 3]
        if big(m['r']) or big(jres):
            s.discards += 1
            continue
        if canon_nz(m['r']) != canon_nz(m['r0']):
            s.count('outside-exact-regime')
            s.discards += 1
            continue
        s.case(case)
        s.count('%s:%s:hbar=%s%s' % (cls, case['coefficient_type'], case['hbar_type'], ':index>=257' if big_idx else ''))
        if canon_op_json(m['r']) != canon_op_json(jres):
            s.disagree('normal_ordered (types / bands)', case, jres, m['r'])
        if canon_nz(mt) != canon_nz(jt):
            s.disagree('term function (types)', case, jt, mt)
        if not normal:
            s.violate('a term of normal_ordered(op) is not in normal order', case, {'result': jres})
        if not big_idx and not eq['eq']:
            s.violate('normal_ordered(op) does not denote the same operator', case,
                      {'result': jres, 'witness_state': eq['state']})
    # ---- InteractionOperator: dtypes, order, constants, state
    dts = [numpy.int32, numpy.int64, numpy.float32, numpy.float64, numpy.complex64, numpy.complex128]
    rows = []
    for _ in range(budget(ctx.tier, 140, 1200)):
        nq = rng.choice([1, 2, 3, 3, 4, 5])
        dt = rng.choice(dts)
        # the one-body tensor may have ANOTHER dtype than the two-body tensor (int hopping matrix with
        # float64 / complex128 interaction, float32 with float64, complex64 with complex128, ...)
        dt1 = rng.choice(dts) if rng.random() < 0.6 else dt

        def val(d):
            if rng.random() < 0.5:
                return 0
            if d in (numpy.int32, numpy.int64):
                return rng.choice([1, -1, 2, 3, -4])
            v = rng.choice([1.0, -0.5, 2.0, 1.5, 2.5, -0.25, 2.0 ** -15, -2.0 ** -20])
            if d in (numpy.complex64, numpy.complex128) and rng.random() < 0.6:
                v = complex(0.0, v) if rng.random() < 0.4 else complex(v, rng.choice([1.0, -0.5]))
            return v
        if rng.random() < 0.15 and dt1 in (numpy.int32, numpy.int64):
            one = numpy.eye(nq, dtype=dt1)
        else:
            one = numpy.array([val(dt1) for _x in range(nq * nq)], dtype=dt1).reshape((nq, nq))
        two = numpy.array([val(dt) for _x in range(nq ** 4)], dtype=dt).reshape((nq,) * 4)
        if rng.random() < 0.4:
            one, two = numpy.asfortranarray(one), numpy.asfortranarray(two)
        const = rng.choice([1, 0.5, 2 - 1j, numpy.complex64(1 + 2j), numpy.float32(0.5), 1j, numpy.int64(3), True])
        case = {'n': nq, 'dtype': dt.__name__, 'dtype_one_body': dt1.__name__,
                'fortran': bool(two.flags['F_CONTIGUOUS'] and nq > 1),
                'constant': to_gq(const), 'constant_type': type(const).__name__,
                'one_body': [to_gq(x) for x in one.reshape(-1)], 'two_body': [to_gq(x) for x in two.reshape(-1)]}
        one0, two0 = one.copy(), two.copy()
        try:
            io = of.InteractionOperator(const, one, two)
            r1 = of.normal_ordered(io)
            snap = ([to_gq(x) for x in r1.two_body_tensor.reshape(-1)], [to_gq(x) for x in r1.one_body_tensor.reshape(-1)],
                    to_gq(r1.constant))
            shares = any(numpy.shares_memory(x, y) for x in (r1.one_body_tensor, r1.two_body_tensor) for y in (one, two))
            # in-place modification of the first result, then a second call
            r1.two_body_tensor[(0,) * 4] += 1
            r1.one_body_tensor[0, 0] += 1
            r1.constant = r1.constant + 5
            r2 = of.normal_ordered(io)
            snap2 = ([to_gq(x) for x in r2.two_body_tensor.reshape(-1)], [to_gq(x) for x in r2.one_body_tensor.reshape(-1)],
                     to_gq(r2.constant))
        except Exception as e:  # noqa
            s.violate('normal_ordered(InteractionOperator) raised %s' % type(e).__name__, case, {'error': repr(e)})
            continue
        if not (numpy.array_equal(one, one0) and numpy.array_equal(two, two0)
                and numpy.array_equal(io.one_body_tensor, one0) and numpy.array_equal(io.two_body_tensor, two0)):
            s.violate('normal_ordered(InteractionOperator) modified its argument', case, {})
        if shares or r2 is r1 or r1 is io:
            s.violate('normal_ordered(InteractionOperator) result shares memory with its argument / an earlier result', case, {})
        if snap2 != snap:
            s.violate('second normal_ordered(InteractionOperator) differs from the first (first result was modified in place)', case, {})
        if snap[1] != case['one_body'] or snap[2] != case['constant']:
            s.violate('normal_ordered(InteractionOperator) changed the constant / one-body part', case,
                      {'one_body': snap[1], 'constant': snap[2]})
        if r2.one_body_tensor.dtype != one0.dtype or r2.two_body_tensor.dtype != two0.dtype:
            s.violate('normal_ordered(InteractionOperator) changed a tensor dtype', case,
                      {'one_body': str(r2.one_body_tensor.dtype), 'two_body': str(r2.two_body_tensor.dtype)})
        rows.append((case, nq, const, one0, two0, r2))
    reqs = []
    for case, nq, const, one0, two0, r2 in rows:
        reqs.append({'op': 'c03.interaction', 'n': nq, 'two_body': case['two_body']})
        if nq <= 4:
            a = raw_json('fermion', fermion_items_of_tensors(nq, complex(const), one0, two0))
            b = raw_json('fermion', fermion_items_of_tensors(nq, complex(r2.constant), r2.one_body_tensor, r2.two_body_tensor))
            reqs.append({'op': 'spec.eq', 'alg': 'fermion', 'n': nq, 'lhs': ['leaf', a], 'rhs': ['leaf', b]})
        else:
            reqs.append({'op': 'ping'})
    ans = ctx.driver.run(reqs)
    for i, (case, nq, const, one0, two0, r2) in enumerate(rows):
        s.case(case)
        s.count('interaction:one=%s:two=%s' % (case['dtype_one_body'], case['dtype']))
        got = [to_gq(x) for x in r2.two_body_tensor.reshape(-1)]
        if [tuple(x) for x in ans[2 * i]] != [tuple(x) for x in got]:
            s.disagree('normal_ordered(InteractionOperator).two_body_tensor (dtype %s)' % case['dtype'], case, got, ans[2 * i])
        if nq <= 4 and not ans[2 * i + 1]['eq']:
            s.violate('normal_ordered(InteractionOperator) does not denote the same operator', case,
                      {'witness_state': ans[2 * i + 1]['state']})
    # ---- chemist_ordered twice around an in-place modification; coefficient types
    F = of.FermionOperator
    rows = []
    for _ in range(budget(ctx.tier, 60, 800)):
        nmod = rng.choice([2, 3, 4])
        items = {}
        for _k in range(rng.choice([1, 2, 3])):
            ln = rng.choice([2, 4, 4])
            acts = [1] * (ln // 2) + [0] * (ln // 2)
            rng.shuffle(acts)
            t = tuple((rng.randrange(nmod), a) for a in acts)
            tname, ty = rng.choice(types)
            items[t] = cast_coeff(ty, rng.choice([1.0, 2.0, -0.5, 3.0])) if rng.random() < 0.7 else rng.choice(BAND)
        op = F()
        op.terms = dict(items)
        case = {'terms': raw_json('fermion', list(items.items()))}
        before = [(k, type(v).__name__, to_gq(v)) for k, v in op.terms.items()]
        try:
            r1 = of.chemist_ordered(op)
            snap = enc_op('fermion', r1.terms)
            r1 *= 2.0
            r1 += F('7^ 7')
            r2 = of.chemist_ordered(op)
        except Exception as e:  # noqa
            s.violate('chemist_ordered raised %s' % type(e).__name__, case, {'error': repr(e)})
            continue
        if [(k, type(v).__name__, to_gq(v)) for k, v in op.terms.items()] != before or r1 is op or r2 is r1 or r2 is op:
            s.violate('chemist_ordered modified / aliased its argument or an earlier result', case, {})
        if canon_op_json(enc_op('fermion', r2.terms)) != canon_op_json(snap):
            s.violate('second chemist_ordered differs from the first (first result was modified in place)', case,
                      {'first': snap, 'second': enc_op('fermion', r2.terms)})
        rows.append((case, enc_op('fermion', op.terms), enc_op('fermion', r2.terms), nmod))
    reqs = []
    for case, stored, out, nmod in rows:
        reqs.append({'op': 'c03.chemist', 'a': stored})
        reqs.append({'op': 'spec.eq', 'alg': 'fermion', 'n': nmod, 'lhs': ['leaf', case['terms']], 'rhs': ['leaf', out]})
    ans = ctx.driver.run(reqs)
    for i, (case, stored, out, nmod) in enumerate(rows):
        s.case(case)
        s.count('chemist:twice')
        if 'r' not in ans[2 * i] or canon_nz(ans[2 * i]['r']) != canon_nz(out):
            s.disagree('chemist_ordered (types / bands)', case, out, ans[2 * i])
        if not ans[2 * i + 1]['eq']:
            s.violate('chemist_ordered(op) does not denote the same operator', case, {'result': out})
    # ---- reorder with mode indices >= 257 (tie only: 2^300 basis states cannot be enumerated)
    rows = []
    for _ in range(budget(ctx.tier, 20, 200)):
        cls = rng.choice(['fermion', 'boson'])
        C = cls_of(of, cls)
        top = rng.choice([257, 258, 300])
        items = [(tuple((rng.choice([0, 1, 255, 256, top]), rng.choice([1, 0])) for _x in range(rng.randint(1, 3))),
                  rng.choice([1.0, -2.0, 0.5])) for _k in range(2)]
        items.append((((top, 1),), 1.0))
        op = mk_op(C, items)
        which = rng.choice(['up_then_down', 'reversal'])
        fn = of.up_then_down if which == 'up_then_down' else (lambda i, nn: nn - 1 - i)
        case = {'cls': cls, 'terms': enc_op(cls, op.terms), 'order_function': which}
        try:
            res = of.reorder(op, fn)
        except Exception as e:  # noqa
            s.violate('reorder raised %s' % type(e).__name__, case, {'error': repr(e)})
            continue
        n_eff = max([f[0] for tt in op.terms for f in tt], default=-1) + 1
        rows.append((case, cls, [fn(i, n_eff) for i in range(n_eff)], enc_op(cls, res.terms), n_eff))
    ans = ctx.driver.run([{'op': 'c03.reorder', 'cls': cls, 'map': ml, 'a': case['terms']} for case, cls, ml, _, _ in rows])
    for (case, cls, ml, out, n_eff), a in zip(rows, ans):
        s.case(case)
        s.count('reorder:index>=257')
        if canon_op_json(a['r']) != canon_op_json(out) or a['num_modes'] != n_eff:
            s.disagree('reorder (large indices)', case, out, a)
    return s


def run(ctx):
    return [stream_terms(ctx), stream_canonicity(ctx), stream_interaction(ctx), stream_chemist_reorder(ctx),
            stream_fresh_results(ctx), stream_hardening(ctx)]
