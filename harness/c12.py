"""C12 — quadratic Hamiltonians and Gaussian states.

Streams
  majorana   : QuadraticHamiltonian.majorana_form on exact dyadic (M, Delta, mu, const): exact comparison
               with the Lean Model + Spec oracle (shared `spec.eq`, fermion algebra): the returned (A, c)
               satisfy  H = (i/2) sum_jk A_jk f_j f_k + c  as operators, A real antisymmetric.
  energies   : diagonalizing_bogoliubov_transform / ground_energy / energies returned by
               jw_get_gaussian_state against the Model fed with the SAME orbital energies (1e-9) + oracles:
               subset sums of the returned energies (Lean Spec) == dense spectrum of an independently
               built Hamiltonian matrix (numpy, 1e-9); [H, b+_j] = eps_j b+_j; canonical constraints on W;
               ground_energy == lowest eigenvalue.
  states     : jw_get_gaussian_state (default and explicit occupations) and jw_slater_determinant:
               normalised, H psi = E psi with the returned E, ground state by default; Slater determinant
               == b+_1 .. b+_eta |vac> up to a phase.
  canonical  : antisymmetric_canonical_form: the Model's permutation passes applied to the same Schur form
               (exact) + oracle A = R^T C R, R orthogonal, C = [[0, D], [-D, 0]], D >= 0 ascending.
"""
import itertools
from fractions import Fraction as F

import os
for _v in ('OMP_NUM_THREADS', 'OPENBLAS_NUM_THREADS', 'MKL_NUM_THREADS'):
    os.environ.setdefault(_v, '2')   # small matrices only: BLAS threading is pure overhead here
import numpy as np  # noqa: E402

from common import Stream, budget, rng_for, to_gq, from_gq, dyadic, show
import c11  # noqa: E402  (reconstruction oracle of fermionic_gaussian_decomposition, used to delimit known finding F12)

TOL = 1e-9

TRUSTED = [
    'C12: numpy.linalg.eigh / scipy.linalg.schur are parameters of the Model (their outputs are passed to it); contracts: '
    'eigh(M) = (w, V), M V = V diag(w), V unitary; schur(A, real) = (T, Z), A = Z T Z^T, Z orthogonal, T quasi upper triangular',
    'C12: numpy dense linear algebra of the oracles (eigvalsh, kron, matrix products) at 1e-9',
]
ASSUMPTIONS = [
    'weak-pairing (Delta = 2^-7, 2^-10) and band-hopping (2^-10 .. 2^-17) Hamiltonians: tolerance 1e-6 instead of 1e-9 (largest residual observed on the pinned tree: 1.2e-7) (second-order '
    'amplitudes fall below EQ_TOLERANCE = 1e-8 and are pruned by the library); weaker pairing (2^-14 .. 2^-20) puts Bogoliubov '
    'amplitudes within two decades of EQ_TOLERANCE where the unmodified code returns O(1)-wrong states even for the default '
    'occupation (M = [[1,0,1],[0,-2,0],[1,0,-1]], Delta_01 = 2^-14: residual 1.41, still present after repair 7be94873): there the '
    'annihilation block of W is numerically singular and fermionic_gaussian_decomposition fails its reconstruction, i.e. the class '
    'of known finding F11 / F12 - not generated',
    'single-precision inputs (float32 / complex64) of the types stream: tolerance 1e-4 (LAPACK runs in single precision)',
    'history stream: subtraction with a pairing term only in the subtrahend is avoided (PolynomialTensor.__sub__ with a key only in '
    'the subtrahend is the known finding of C08, not the subject of C12)',
    'orbital energies / Schur forms enter the Model as the exact rational values of the floats the implementation computed',
    'dtypes stream: the accepted array dtypes are hard-coded from a probe of the pinned tree (float16 and object arrays are rejected by '
    'numpy.linalg.eigh, a bool hermitian_part with mu = 0 and pairing is rejected by numpy in majorana_form); int8 / uint8 matrices '
    'with entries beyond half the range of the type, mu = 0 and pairing are the known finding F12-majorana-integer-overflow; '
    'matrices with such large entries (up to 255) are compared at 1e-6 (absolute errors scale with the norm) and combined with '
    'pairing only for mu = 0 (with mu != 0 they are weak-pairing Hamiltonians: residual 2.5e-4 observed on the pinned tree)',
]
OPEN_STATEMENTS = [
    'subset_sum_spectrum: proved half — in every representation of the CAR with a vacuum, b+_S|vac> is an eigenvector of '
    'sum eps_j b+_j b_j + c with eigenvalue c + sum_{j in S} eps_j (fock_state_energy), and ground energy = minimum over all '
    'subset sums for any order; the canonical constraints on W imply the CAR of the new operators (constraints_imply_car) and '
    'conversely the CAR force the first block identity (car_implies_constraint).  Not formalised: (a) H equals '
    'sum eps_j b+_j b_j + c for the returned (eps, W, c) (oracle: [H, b+_j] = eps_j b+_j, dense spectrum); (b) completeness '
    '(the 2^n Fock states b+_S|vac> are linearly independent and span the space) - not reached.  The converse for both block identities is proved (car_implies_constraint, car_implies_second_constraint).',
    'spin sectors / chemical potential at the level of the energy lists: PROVED for all lists (sector_spectrum_is_sum_set, '
    'sector_ground_energy_additive, sector_default_occupation_splits, chemical_potential_shifts_levels); that the sector energies the '
    'code returns are the eigenvalues of the block of M - mu is the eigh contract (oracle: sectors stream).',
    'majorana_form operator identity: proved at coefficient level (the four ladder-monomial coefficient matrices of '
    '(i/2) sum A f f equal M, Delta/2, -Delta*/2 and the constant shift); the CAR step from coefficients to operators is '
    'checked by spec.eq on every generated input, not proved.',
    'antisymmetric_canonical_form: final shape [[0,D],[-D,0]], D >= 0 ascending for every aligned Schur form: not proved '
    '(oracle only; requested in the proof-growth round, not reached: it needs the explicit permutation composed by pass 2 for '
    'general n).  Proved: all four passes reindex the Schur pair by one permutation (so A = R^T C R is invariant); the '
    'summation step from the entry-level reindexing to the matrix identity O C O^T is argued in the docstring, not formalised.',
    'gaussian state / Slater determinant correctness (state = b+_1..b+_eta|vac> up to phase): oracle only; FALSE on the real '
    'code for explicit occupations of a non-particle-conserving Hamiltonian when the annihilation block of the Bogoliubov '
    'matrix is singular (known finding F12, consequence of C11/F11); the default occupation is affected too when the Gaussian '
    'decomposition of the transformation matrix is itself wrong (M = [[-50,1,2],[1,0,0],[2,0,-50]], Delta_02 = -1.5: residual 0.036).',
]

# ----------------------------------------------------------------------------- independent dense algebra


_LADDER = {}


def ladder(n):
    """independent Jordan-Wigner matrices a_j (mode 0 = most significant qubit)"""
    if n not in _LADDER:
        Zm = np.diag([1.0, -1.0])
        I2 = np.eye(2)
        A = np.array([[0, 1], [0, 0]], dtype=complex)
        ops = []
        for j in range(n):
            m = np.array([[1.0 + 0j]])
            for k in range(n):
                m = np.kron(m, Zm if k < j else A if k == j else I2)
            ops.append(m)
        _LADDER[n] = ops
    return _LADDER[n]


def dense_H(Mc, D, const):
    """sum M_pq a+_p a_q + 1/2 sum (D_pq a+_p a+_q + h.c.) + const  (docstring of QuadraticHamiltonian)"""
    n = Mc.shape[0]
    a = ladder(n)
    H = const * np.eye(2 ** n, dtype=complex)
    for p in range(n):
        for q in range(n):
            if Mc[p, q] != 0:
                H += Mc[p, q] * a[p].conj().T @ a[q]
            if D is not None and D[p, q] != 0:
                H += 0.5 * (D[p, q] * a[p].conj().T @ a[q].conj().T + np.conj(D[p, q]) * a[q] @ a[p])
    return H


def err(x):
    x = np.asarray(x)
    return float(np.abs(x).max()) if x.size else 0.0


# ----------------------------------------------------------------------------- generators


def rand_dyadic_real(rng, big=3):
    return rng.choice([-big, -2, -1, -0.5, -0.25, 0.25, 0.5, 1, 1.5, 2, big])


def gen_ham(rng, n, kind):
    """-> (M, D or None, const, mu) numpy arrays with dyadic entries"""
    M = np.zeros((n, n), dtype=complex)
    D = None
    base = kind.split('+')[0]
    if base == 'diag':
        for i in range(n):
            M[i, i] = rng.choice([-3, -2, -1, -0.5, 0, 0.5, 1, 2, 3])
    elif base == 'degenerate':
        v = rng.choice([-1, 1, 0, 2])
        for i in range(n):
            M[i, i] = v if rng.random() < 0.7 else -v
    elif base == 'spinblock' and n % 2 == 0:
        h = n // 2
        for blk in (0, 1):
            for i in range(h):
                M[blk * h + i, blk * h + i] = rand_dyadic_real(rng)
                for j in range(i + 1, h):
                    if rng.random() < 0.7:
                        v = complex(rand_dyadic_real(rng, 2), rng.choice([0, 0, 0.5, -1]))
                        M[blk * h + i, blk * h + j] = v
                        M[blk * h + j, blk * h + i] = np.conj(v)
    elif base == 'timereversal' and n % 2 == 0:
        # (A) complex up block A, down block conj(A) = A^T (time-reversal partners, opposite flux per spin)
        h = n // 2
        A = np.zeros((h, h), dtype=complex)
        for i in range(h):
            A[i, i] = rand_dyadic_real(rng)
            for j in range(i + 1, h):
                v = complex(rand_dyadic_real(rng, 2), rng.choice([0.5, -1, 0.25, 2]))
                A[i, j] = v
                A[j, i] = np.conj(v)
        M[:h, :h] = A
        M[h:, h:] = np.conj(A)
    elif base in ('band', 'imaghop'):
        # (B) hopping amplitudes 1e-3 .. 1e-5 next to O(1) ones; (A) purely imaginary hopping (zero real part)
        for i in range(n):
            M[i, i] = rand_dyadic_real(rng)
            for j in range(i + 1, n):
                if rng.random() < 0.7:
                    if base == 'band':
                        v = rng.choice(BAND_HOP + [1.0, -0.5]) * rng.choice([1, -1, 1j])
                    else:
                        v = 1j * rand_dyadic_real(rng, 2)
                    M[i, j] = v
                    M[j, i] = np.conj(v)
    else:  # generic hermitian, possibly sparse
        for i in range(n):
            M[i, i] = rand_dyadic_real(rng)
            for j in range(i + 1, n):
                if rng.random() < 0.6:
                    v = complex(rand_dyadic_real(rng, 2), rng.choice([0, 0, 0.5, -1, 0.25]))
                    M[i, j] = v
                    M[j, i] = np.conj(v)
    if '+' in kind and n >= 2:
        pk = kind.split('+')[1]
        D = np.zeros((n, n), dtype=complex)
        if pk == 'bcs':
            for t in range(0, n - 1, 2):
                v = rng.choice([1, 2, 0.5, -1])
                D[t, t + 1] = v
                D[t + 1, t] = -v
        elif pk == 'weak':
            # weak pairing (dyadic, 8e-3 .. 1e-6): the Bogoliubov matrix has a nearly singular annihilation block
            i, j = rng.sample(range(n), 2)
            v = rng.choice(WEAK_DELTA) * rng.choice([1, -1, 1j])
            D[i, j] = v
            D[j, i] = -v
        elif pk == 'far':
            v = rng.choice([1, 2, -0.5, 1j])
            D[0, n - 1] = v
            D[n - 1, 0] = -v
        else:
            for i in range(n):
                for j in range(i + 1, n):
                    if rng.random() < 0.6:
                        v = complex(rand_dyadic_real(rng, 2), rng.choice([0, 0, 0.5, -1]))
                        D[i, j] = v
                        D[j, i] = -v
            if not D.any():
                D[0, 1] = 1
                D[1, 0] = -1
    const = rng.choice([0.0, 0.0, 0.5, -1.25, 2.0])
    mu = rng.choice([0.0, 0.0, 0.0, 0.5, -1.0, 2.5])
    return M, D, const, mu


# weak pairing amplitudes (dyadic).  Smaller ones (2^-17, 2^-20) give Bogoliubov amplitudes within two decades of
# EQ_TOLERANCE = 1e-8, where the thresholds of the library decide differently from exact arithmetic (measured: O(1)
# residuals on the unmodified code) - outside the regime the check can decide.
WEAK_DELTA = [2.0 ** -7, 2.0 ** -10]
BAND_HOP = [2.0 ** -10, 2.0 ** -14, 2.0 ** -17]

HAM_KINDS = ['diag', 'degenerate', 'spinblock', 'generic', 'generic', 'diag+bcs', 'diag+far', 'degenerate+bcs',
             'generic+bcs', 'generic+generic', 'spinblock+generic', 'diag+generic', 'degenerate+far', 'diag+weak', 'generic+weak', 'band', 'imaghop', 'imaghop+bcs', 'timereversal', 'timereversal']


def cjson(M):
    return [[to_gq(x) for x in r] for r in np.asarray(M)]


def rjson(M):
    out = []
    for r in np.asarray(M):
        row = []
        for x in r:
            f = F(float(x))
            row.append([f.numerator, f.denominator])
        out.append(row)
    return out


def rat_float(j):
    return j[0] / j[1]


def case_of(M, D, const, mu, kind):
    return {'kind': kind, 'n': int(M.shape[0]), 'M': [[[x.real, x.imag] for x in r] for r in M],
            'Delta': None if D is None else [[[x.real, x.imag] for x in r] for r in D], 'const': float(const), 'mu': float(mu)}


def ham_from_case(of, c):
    M = np.array([[complex(x[0], x[1]) for x in r] for r in c['M']])
    D = None if c['Delta'] is None else np.array([[complex(x[0], x[1]) for x in r] for r in c['Delta']])
    return M, D, c['const'], c['mu']


# ----------------------------------------------------------------------------- majorana_form


def fermion_leaf(terms):
    """terms: list of (tuple of (index, action), complex) -> protocol leaf"""
    return ['leaf', [[[[i, a] for i, a in t], to_gq(c)] for t, c in terms]]


def ham_expr(Mc, D, const):
    terms = [((), complex(const))]
    n = Mc.shape[0]
    for p in range(n):
        for q in range(n):
            if Mc[p, q] != 0:
                terms.append((((p, 1), (q, 0)), complex(Mc[p, q])))
            if D is not None and D[p, q] != 0:
                terms.append((((p, 1), (q, 1)), 0.5 * complex(D[p, q])))
                terms.append((((q, 0), (p, 0)), 0.5 * complex(np.conj(D[p, q]))))
    return fermion_leaf(terms)


def majorana_expr(A, c, n):
    """c + sum_jk (i/4) A_jk gamma_j gamma_k,  gamma_j = a+_j + a_j,  gamma_{j+n} = i (a+_j - a_j)
    (f_j = gamma_j / sqrt 2)"""
    def gamma(j):
        if j < n:
            return fermion_leaf([(((j, 1),), 1), (((j, 0),), 1)])
        return fermion_leaf([(((j - n, 1),), 1j), (((j - n, 0),), -1j)])
    e = fermion_leaf([((), complex(c))])
    for j in range(2 * n):
        for k in range(2 * n):
            if A[j, k] != 0:
                e = ['add', e, ['smul', to_gq(0.25j * A[j, k]), ['mul', gamma(j), gamma(k)]]]
    return e


def stream_majorana(ctx):
    s = Stream('majorana', 'majorana_form of exact dyadic (M, Delta, const, mu), n <= 4 (oracle n <= 3): Model exact; '
               'Spec: H == (i/2) sum A f f + c in the fermion algebra (spec.eq on all basis states), A real antisymmetric; '
               'distinct = distinct inputs')
    of = ctx.of
    rng = rng_for(ctx.seed, 'c12-majorana')
    N = budget(ctx.tier, 300, 1500)
    if ctx.drift:
        N = max(N, 400)
    cases, reqs, impl = [], [], []
    for t in range(N):
        n = rng.choice([1, 2, 2, 3, 3, 4])
        kind = rng.choice(HAM_KINDS)
        M, D, const, mu = gen_ham(rng, n, kind)
        c = case_of(M, D, const, mu, kind)
        try:
            H = of.ops.QuadraticHamiltonian(M.copy(), None if D is None else D.copy(), const, mu)
            A, cm = H.majorana_form()
        except Exception as e:
            s.case(c)
            s.violate('majorana_form raised %s: %s' % (type(e).__name__, e), c, {})
            continue
        cases.append(c)
        impl.append((np.array(A), cm, M - mu * np.eye(n), D, const))
        Dm = np.zeros((n, n), dtype=complex) if D is None else D
        reqs.append({'op': 'c12.majorana', 'H': cjson(M - mu * np.eye(n)), 'D': cjson(Dm), 'const': to_gq(const)})
    models = ctx.driver.run(reqs)
    oracle = []
    for c, (A, cm, Mc, D, const), mo in zip(cases, impl, models):
        s.case(c)
        s.count('kind:' + c['kind'])
        n = c['n']
        # exact comparison
        Aj = [[F(float(x)) for x in r] for r in A]
        Am = [[F(x[0], x[1]) for x in r] for r in mo['A']]
        cmj = (F(float(np.real(cm))), F(float(np.imag(cm))))
        if Aj != Am or cmj != from_gq(mo['const']):
            s.disagree('majorana matrix / constant', c, {'A': A.tolist(), 'const': complex(cm)}, mo)
        # oracle: real antisymmetric (exact), operator identity
        if np.iscomplexobj(A) and np.abs(A.imag).max() != 0:
            s.violate('majorana matrix is not real', c, {'A': A.tolist()})
        elif not np.array_equal(A, -A.T):
            s.violate('majorana matrix is not antisymmetric', c, {'A': A.tolist()})
        elif n <= 3:
            oracle.append((c, {'op': 'spec.eq', 'alg': 'fermion', 'n': n, 'd': 0, 'lhs': ham_expr(Mc, D, const),
                               'rhs': majorana_expr(np.real(A), cm, n)}, A, cm))
    if oracle:
        ans = ctx.driver.run([r for _, r, _, _ in oracle])
        for (c, _, A, cm), a in zip(oracle, ans):
            s.count('oracle:operator-identity')
            if not a['eq']:
                s.violate('H != (i/2) sum A f f + c (differs on basis state %s)' % a['state'], c,
                          {'A': A.tolist(), 'const': complex(cm), 'lhs': a['lhs'], 'rhs': a['rhs']})
    return s


# ----------------------------------------------------------------------------- energies / transform / states


def bdag(W, n, j):
    """dense b+_j = sum_k W[j,k] a+_k (+ W[j,n+k] a_k)"""
    a = ladder(n)
    B = np.zeros((2 ** n, 2 ** n), dtype=complex)
    for k in range(n):
        if W[j, k] != 0:
            B += W[j, k] * a[k].conj().T
        if W.shape[1] == 2 * n and W[j, n + k] != 0:
            B += W[j, n + k] * a[k]
    return B


def annihilation_block_singular(W, n):
    """is the N x N block of annihilation-operator coefficients of a N x 2N Bogoliubov matrix singular?"""
    if W.shape[1] != 2 * n:
        return False
    sv = np.linalg.svd(W[:, n:], compute_uv=False)
    return bool(sv.min() < 1e-8)


WEAK_STATE_TOL = 1e-6
SINGLE_TOL = 1e-4
LARGE_TOL = 1e-6


def check_ham(ctx, s, c, M, D, const, mu, spec_reqs, model_reqs, n_occ):
    """build the QuadraticHamiltonian of (M, Delta, const, mu) and check it against the independently built dense matrix"""
    n = M.shape[0]
    try:
        H = ctx.of.ops.QuadraticHamiltonian(M.copy(), None if D is None else D.copy(), const, mu)
    except Exception as e:
        s.violate('QuadraticHamiltonian(...) raised %s: %s' % (type(e).__name__, e), c, {})
        return
    check_obj(ctx, s, c, H, M - mu * np.eye(n), D, const, spec_reqs, model_reqs, n_occ)


def check_obj(ctx, s, c, H, Mc, D, const, spec_reqs, model_reqs, n_occ):
    """all oracles for the object `H`, which is claimed to represent  sum Mc a+a + 1/2 sum (Delta a+a+ + h.c.) + const
    (Mc = combined Hermitian part); the dense reference is built from (Mc, Delta, const), never from the object"""
    of = ctx.of
    n = Mc.shape[0]
    # weak pairing: nearly singular annihilation block, truncations below EQ_TOLERANCE are amplified (see c11.WEAK_TOL)
    # weak pairing / band hopping: second-order amplitudes fall below EQ_TOLERANCE = 1e-8 and are pruned by the library,
    # so its results are accurate to ~1e-8 only
    TOL = WEAK_STATE_TOL if ('+weak' in str(c.get('kind', '')) or str(c.get('kind', '')).startswith('band')) else globals()['TOL']
    if c.get('single_precision'):
        TOL = SINGLE_TOL     # float32 / complex64 input: LAPACK works in single precision
    if c.get('large_values'):
        TOL = max(TOL, LARGE_TOL)     # entries up to 255: absolute errors scale with the norm of the matrix
    Hd = dense_H(Mc, D, const)
    w = np.linalg.eigvalsh(Hd)
    try:
        es, W, cst = H.diagonalizing_bogoliubov_transform()
        ge = H.ground_energy()
        conserving = bool(H.conserves_particle_number)
    except Exception as e:
        s.violate('diagonalizing_bogoliubov_transform / ground_energy raised %s: %s' % (type(e).__name__, e), c, {})
        return
    es = np.asarray(es, dtype=float)
    s.count('conserving:%s' % conserving)
    s.count('sorted-energies:%s' % bool(np.all(np.diff(es) >= 0)))
    ret = {'orbital_energies': es.tolist(), 'constant': float(np.real(cst)), 'ground_energy': float(np.real(ge))}
    # ---- oracles on the transform
    s.float_comparisons += 4
    if abs(np.real(ge) - w[0]) > TOL:
        s.violate('ground_energy %.12g is not the lowest eigenvalue %.12g' % (np.real(ge), w[0]), c, ret)
    if W.shape == (n, n):
        if err(W @ W.conj().T - np.eye(n)) > TOL:
            s.violate('transformation matrix is not unitary', c, ret)
    else:
        W1, W2 = W[:, :n], W[:, n:]
        if err(W1 @ W1.conj().T + W2 @ W2.conj().T - np.eye(n)) > TOL or err(W1 @ W2.T + W2 @ W1.T) > TOL:
            s.violate('transformation matrix violates the canonical anticommutation constraints', c, ret)
    for j in range(n):
        B = bdag(W, n, j)
        s.float_comparisons += 1
        if err(Hd @ B - B @ Hd - es[j] * B) > TOL:
            s.violate('[H, b+_%d] != eps_%d b+_%d : the transformation does not diagonalise H' % (j, j, j), c, ret)
            break
    spec_reqs.append((c, {'op': 'c12.spec.spectrum', 'es': [[F(float(e)).numerator, F(float(e)).denominator] for e in es],
                          'const': [F(float(np.real(cst))).numerator, F(float(np.real(cst))).denominator]}, w, ret))
    # ---- states
    occs = [None]
    subsets = [list(o) for k in range(n + 1) for o in itertools.combinations(range(n), k)]
    rng = rng_for(ctx.seed, 'c12-occ-%s' % show(c)[:200])
    if len(subsets) > n_occ:
        subsets = rng.sample(subsets, n_occ)
    occs += subsets
    energies = []
    singular = annihilation_block_singular(W, n)
    decomposition_wrong = None
    if singular and not conserving:
        # does fermionic_gaussian_decomposition of the matrix handed over by the state preparation fail its own (C11)
        # reconstruction oracle?  (known finding F11: singular left block)
        try:
            T = np.empty((n, 2 * n), dtype=complex)
            T[:, :n] = np.conj(W[:, n:])
            T[:, n:] = np.conj(W[:, :n])
            decomposition_wrong = c11.oracle_gauss(of, T)[0] is not None
        except Exception:
            decomposition_wrong = True
    for occ in occs:
        cc = dict(c)
        cc['occupied_orbitals'] = occ
        cc['annihilation_block_singular'] = singular
        cc['gaussian_decomposition_wrong'] = decomposition_wrong
        cc['conserves_particle_number'] = conserving
        try:
            E, psi = of.circuits.jw_get_gaussian_state(H, None if occ is None else list(occ))
            psi = np.asarray(psi).reshape(-1)
        except Exception as e:
            s.violate('jw_get_gaussian_state raised %s: %s' % (type(e).__name__, e), cc, {})
            energies.append(None)
            continue
        energies.append(float(np.real(E)))
        s.count('state:' + ('default' if occ is None else 'explicit'))
        s.float_comparisons += 3
        r = {'energy': float(np.real(E))}
        # the Givens sweeps of the library leave matrix elements below EQ_TOLERANCE = 1e-8 unrotated, so its states are
        # accurate to about EQ_TOLERANCE x ||H|| (not a property of H: a fixed pruning threshold of the implementation)
        STOL = max(TOL, 1e-8 * max(1.0, float(np.max(np.abs(w)))))
        if abs(np.linalg.norm(psi) - 1) > TOL:
            s.violate('gaussian state is not normalised (%.3g)' % np.linalg.norm(psi), cc, r)
        elif np.linalg.norm(Hd @ psi - E * psi) > STOL:
            s.violate('gaussian state is not an eigenstate with the returned energy (residual %.3g)'
                      % np.linalg.norm(Hd @ psi - E * psi), cc, r)
        elif occ is None and abs(np.real(E) - w[0]) > TOL:
            s.violate('default gaussian state is not the ground state (E = %.12g, lowest = %.12g)' % (np.real(E), w[0]), cc, r)
    model_reqs.append((c, {'op': 'c12.energies', 'es': [[F(float(e)).numerator, F(float(e)).denominator] for e in es],
                           'const': [F(float(np.real(cst))).numerator, F(float(np.real(cst))).denominator],
                           'tol': [F(1e-8).numerator, F(1e-8).denominator], 'conserving': conserving,
                           'occs': [o for o in occs[1:]]}, float(np.real(ge)), energies))


def stream_energies(ctx):
    s = Stream('energies+states', 'structured QuadraticHamiltonians (diagonal, degenerate, spin-block-diagonal, time-reversal partner blocks (A, conj A), generic; BCS / '
               'distant-pair / generic pairing; chemical potential, constant), n <= 4 (thorough 5): transform, energies, '
               'ground energy, Gaussian states for the default and explicit occupations; distinct = distinct Hamiltonians')
    rng = rng_for(ctx.seed, 'c12-energies')
    N = budget(ctx.tier, 220, 1200)
    if ctx.drift:
        N = max(N, 250)
    spec_reqs, model_reqs = [], []
    fixed = [
        (np.diag([1.0, -1.0, -2.0, 3.0]).astype(complex), None, 0.0, 0.0, 'fixed:F12-repaired'),
        (np.diag([3.0, -3.0]).astype(complex), np.array([[0, 2], [-2, 0]], dtype=complex), 0.0, 0.0, 'fixed:far-pair'),
        (np.zeros((3, 3), dtype=complex), None, 0.5, 0.0, 'fixed:zero'),
        (np.diag([1.0, 1.0, -1.0, -1.0]).astype(complex), None, 0.0, 0.0, 'fixed:degenerate'),
    ]
    todo = list(fixed)
    for t in range(N):
        n = rng.choice([1, 2, 2, 3, 3, 4, 4] + ([5] if ctx.tier == 'thorough' else []))
        kind = rng.choice(HAM_KINDS)
        if kind == 'timereversal':
            n = rng.choice([4, 4, 6])
        M, D, const, mu = gen_ham(rng, n, kind)
        todo.append((M, D, const, mu, kind))
    for (M, D, const, mu, kind) in todo:
        c = case_of(M, D, const, mu, kind)
        s.case(c)
        s.count('kind:' + kind.split(':')[0])
        s.count('n:%d' % M.shape[0])
        check_ham(ctx, s, c, M, D, const, mu, spec_reqs, model_reqs, budget(ctx.tier, 6, 16))
    # Spec: subset sums == dense spectrum
    ans = ctx.driver.run([r for _, r, _, _ in spec_reqs])
    for (c, _, w, ret), a in zip(spec_reqs, ans):
        s.count('oracle:subset-sum-spectrum')
        sp = np.array([rat_float(x) for x in a['spectrum']])
        s.float_comparisons += len(sp)
        if sp.shape != w.shape or err(sp - w) > (WEAK_STATE_TOL if ('+weak' in str(c.get('kind', '')) or str(c.get('kind', '')).startswith('band')) else TOL):
            s.violate('subset sums of the orbital energies + constant are not the spectrum of H', c,
                      dict(ret, subset_sums=sp.tolist(), spectrum=w.tolist()))
    # Model: ground energy, default occupation energy, explicit energies
    ans = ctx.driver.run([r for _, r, _, _ in model_reqs])
    for (c, rq, ge, energies), a in zip(model_reqs, ans):
        s.float_comparisons += 2 + len(energies)
        if abs(rat_float(a['ground']) - ge) > TOL:
            s.disagree('ground_energy', c, ge, rat_float(a['ground']))
        if energies[0] is not None and abs(rat_float(a['default_energy']) - energies[0]) > TOL:
            s.disagree('energy of the default occupation', c, energies[0], rat_float(a['default_energy']))
        for e_impl, e_mod, occ in zip(energies[1:], a['energies'], rq['occs']):
            if e_impl is not None and abs(e_impl - rat_float(e_mod)) > TOL:
                s.disagree('energy of occupation %s' % occ, c, e_impl, rat_float(e_mod))
    return s


def stream_history(ctx):
    s = Stream('history', 'ONE QuadraticHamiltonian object (conserving and non-conserving) that is diagonalised, then modified '
               '(add_chemical_potential, constant, in-place entry edit, +=, -=, *=) or used in arithmetic (a * H, H + H2, H - H2: '
               'the result replaces it), then diagonalised again, 2-4 times: after every step the transform, ground energy, '
               'subset-sum spectrum and Gaussian states must describe the CURRENT operator (dense matrix rebuilt from the '
               'independently tracked coefficients); distinct = distinct histories')
    of = ctx.of
    QH = of.ops.QuadraticHamiltonian
    rng = rng_for(ctx.seed, 'c12-history')
    N = budget(ctx.tier, 60, 500)
    if ctx.drift:
        N = max(N, 200)
    spec_reqs, model_reqs = [], []
    kinds = [k for k in HAM_KINDS if 'weak' not in k and not k.startswith('band')]
    for t in range(N):
        n = rng.choice([2, 2, 3, 3, 4])
        kind = rng.choice(kinds)
        M, D, const, mu = gen_ham(rng, n, kind)
        hist = [{'op': 'new', 'kind': kind, 'M': [[[x.real, x.imag] for x in r] for r in M],
                 'Delta': None if D is None else [[[x.real, x.imag] for x in r] for r in D], 'const': float(const), 'mu': float(mu)}]
        try:
            H = QH(M.copy(), None if D is None else D.copy(), const, mu)
        except Exception as e:
            s.violate('QuadraticHamiltonian(...) raised %s' % type(e).__name__, {'history': hist}, {})
            continue
        Mc = M - mu * np.eye(n)
        Dc = None if D is None else D.copy()
        cc = const
        steps = rng.randint(2, 4)
        failed = False
        for step in range(steps + 1):
            case = {'kind': 'history', 'n': n, 'history': [dict(h) for h in hist]}
            s.case(case)
            before = len(s.violations)
            check_obj(ctx, s, case, H, Mc.copy(), None if Dc is None else Dc.copy(), cc, spec_reqs, model_reqs, 3)
            if any(classify(v) is None for v in s.violations[before:]) or step == steps:
                break
            # ---- modify the object / replace it by the result of arithmetic
            op = rng.choice(['mu', 'const', 'entry', 'iadd', 'isub', 'imul', 'rmul', 'add', 'sub'])
            s.count('op:' + op)
            try:
                if op == 'mu':
                    x = rng.choice([0.5, -1.0, 2.5, 0.25])
                    H.add_chemical_potential(x)
                    Mc = Mc - x * np.eye(n)
                    hist.append({'op': 'add_chemical_potential', 'value': x})
                elif op == 'const':
                    x = rng.choice([1.5, -0.75, 2.0])
                    H.constant = x
                    cc = x
                    hist.append({'op': 'constant=', 'value': x})
                elif op == 'entry':
                    i, j = rng.sample(range(n), 2)
                    x = rng.choice([0.5, -1.0, 0.25])
                    H.combined_hermitian_part[i, j] += x
                    H.combined_hermitian_part[j, i] += x
                    H.combined_hermitian_part[i, i] -= x
                    Mc = Mc.copy()
                    Mc[i, j] += x
                    Mc[j, i] += x
                    Mc[i, i] -= x
                    hist.append({'op': 'combined_hermitian_part[i,j]+=,[j,i]+=,[i,i]-=', 'i': i, 'j': j, 'value': x})
                elif op in ('iadd', 'isub', 'add', 'sub'):
                    M2, D2, c2, mu2 = gen_ham(rng, n, rng.choice(kinds))
                    if op in ('isub', 'sub') and Dc is None:
                        # PolynomialTensor subtraction with a key only in the subtrahend is the known finding of C08
                        # (the tensor is added): not the subject of this property, so the subtrahend gets no pairing then
                        D2 = None
                    H2 = QH(M2.copy(), None if D2 is None else D2.copy(), c2, mu2)
                    sg = 1.0 if op in ('iadd', 'add') else -1.0
                    if op == 'iadd':
                        H += H2
                    elif op == 'isub':
                        H -= H2
                    elif op == 'add':
                        H = H + H2
                    else:
                        H = H - H2
                    Mc = Mc + sg * (M2 - mu2 * np.eye(n))
                    if D2 is not None:
                        Dc = (np.zeros((n, n), dtype=complex) if Dc is None else Dc) + sg * D2
                    cc = cc + sg * c2
                    hist.append({'op': {'iadd': 'H += H2', 'isub': 'H -= H2', 'add': 'H = H + H2', 'sub': 'H = H - H2'}[op],
                                 'M2': [[[x.real, x.imag] for x in r] for r in M2],
                                 'Delta2': None if D2 is None else [[[x.real, x.imag] for x in r] for r in D2],
                                 'const2': float(c2), 'mu2': float(mu2)})
                else:
                    a = rng.choice([2.0, 0.5, -1.0, -2.0])
                    if op == 'imul':
                        H *= a
                    else:
                        H = a * H
                    Mc = a * Mc
                    Dc = None if Dc is None else a * Dc
                    cc = a * cc
                    hist.append({'op': 'H *= a' if op == 'imul' else 'H = a * H', 'a': a})
            except Exception as e:
                s.violate('%s raised %s: %s' % (op, type(e).__name__, e), {'kind': 'history', 'n': n, 'history': hist}, {})
                break
    ans = ctx.driver.run([r for _, r, _, _ in spec_reqs])
    for (c, _, w, ret), a in zip(spec_reqs, ans):
        s.count('oracle:subset-sum-spectrum')
        sp = np.array([rat_float(x) for x in a['spectrum']])
        s.float_comparisons += len(sp)
        if sp.shape != w.shape or err(sp - w) > TOL:
            s.violate('after the history, subset sums of the orbital energies + constant are not the spectrum of the current H', c,
                      dict(ret, subset_sums=sp.tolist(), spectrum=w.tolist()))
    ans = ctx.driver.run([r for _, r, _, _ in model_reqs])
    for (c, rq, ge, energies), a in zip(model_reqs, ans):
        if abs(rat_float(a['ground']) - ge) > TOL:
            s.disagree('ground_energy', c, ge, rat_float(a['ground']))
    return s


# ----------------------------------------------------------------------------- (T) types / (S) arguments untouched

DTYPES = ['int64', 'int32', 'float32', 'float64', 'complex64', 'complex128', 'fortran', 'noncontiguous']


def typed(A, kind):
    """the same (exactly representable) values as another array type; None if the values do not fit the type"""
    A = np.asarray(A)
    if kind in ('int64', 'int32'):
        if np.abs(A.imag).max() != 0 or np.abs(A.real - np.round(A.real)).max() != 0:
            return None
        return A.real.astype(kind)
    if kind in ('float32', 'float64'):
        if np.abs(A.imag).max() != 0:
            return None
        return A.real.astype(kind)
    if kind in ('complex64', 'complex128'):
        return A.astype(kind)
    if kind == 'fortran':
        return np.asfortranarray(A.astype(complex))
    if kind == 'noncontiguous':
        big = np.zeros((2 * A.shape[0], 2 * A.shape[1]), dtype=complex)
        big[::2, ::2] = A
        return big[::2, ::2]
    raise AssertionError(kind)


def typed_scalar(x, kind):
    return {'pyint': lambda: int(x) if float(x).is_integer() else None, 'pyfloat': lambda: float(x),
            'np.float64': lambda: np.float64(x), 'np.float32': lambda: np.float32(x),
            'np.int64': lambda: np.int64(x) if float(x).is_integer() else None}[kind]()


def stream_types(ctx):
    s = Stream('types', '(T) the same exactly representable Hamiltonians / isometries / antisymmetric matrices passed as int64, '
               'int32, float32, float64, complex64, complex128, Fortran-ordered and non-contiguous arrays, with Python / numpy '
               'scalar constants and chemical potentials (types the implementation rejects on a probe input are excluded for the '
               'run): all oracles against the float64 reference; (S) arguments are not modified, a second call after scribbling '
               'over the first result returns the same values; distinct = distinct (values, types)')
    of = ctx.of
    QH = of.ops.QuadraticHamiltonian
    from openfermion.ops.representations.quadratic_hamiltonian import antisymmetric_canonical_form
    rng = rng_for(ctx.seed, 'c12-types')
    N = budget(ctx.tier, 70, 600)
    if ctx.drift:
        N = max(N, 250)
    # ---- probe: which (array type) does the implementation accept at all?
    accepted = []
    for k in DTYPES:
        try:
            Mp = typed(np.diag([1.0, -2.0]), k)
            Hp = QH(Mp, None, 0.0, 0.5)
            Hp.diagonalizing_bogoliubov_transform()
            accepted.append(k)
        except Exception:
            s.count('type-rejected:' + k)
    spec_reqs, model_reqs = [], []
    for t in range(N):
        n = rng.choice([2, 2, 3, 3, 4])
        integer = rng.random() < 0.6
        # values: integers (so that integer dtypes apply) or dyadics; chemical potential deliberately non-integer
        M = np.zeros((n, n), dtype=complex)
        for i in range(n):
            M[i, i] = rng.choice([-3, -2, -1, 0, 1, 2, 3]) if integer else rng.choice([-1.5, -0.5, 0.25, 1.0, 2.5])
            for j in range(i + 1, n):
                if rng.random() < 0.6:
                    v = rng.choice([-2, -1, 1, 2]) if integer else rng.choice([-0.5, 0.25, 1.0])
                    if not integer and rng.random() < 0.3:
                        v = v * 1j
                    M[i, j] = v
                    M[j, i] = np.conj(v)
        D = None
        if rng.random() < 0.4:
            D = np.zeros((n, n), dtype=complex)
            i, j = rng.sample(range(n), 2)
            v = rng.choice([1, 2, -1]) if integer else rng.choice([0.5, -1.0, 0.5j])
            D[i, j] = v
            D[j, i] = -v
        mu = rng.choice([0.5, 1.5, -0.5, 2.0, 0.0, 0.25])
        const = rng.choice([0.0, 1.0, -2.0, 0.5])
        kM = rng.choice(accepted)
        kD = rng.choice(accepted)
        kmu = rng.choice(['pyfloat', 'np.float64', 'np.float32', 'pyint', 'np.int64'])
        kc = rng.choice(['pyfloat', 'np.float64', 'np.float32', 'pyint', 'np.int64'])
        Mt = typed(M, kM)
        Dt = None if D is None else typed(D, kD)
        mut, ct = typed_scalar(mu, kmu), typed_scalar(const, kc)
        if Mt is None or (D is not None and Dt is None) or mut is None or ct is None:
            s.count('values-do-not-fit-type')
            continue
        c = {'kind': 'types', 'n': n, 'M': [[[x.real, x.imag] for x in r] for r in M], 'M_type': kM,
             'Delta': None if D is None else [[[x.real, x.imag] for x in r] for r in D], 'Delta_type': kD if D is not None else None,
             'const': float(const), 'const_type': kc, 'mu': float(mu), 'mu_type': kmu,
             'single_precision': kM in ('float32', 'complex64') or (D is not None and kD in ('float32', 'complex64'))}
        s.case(c)
        s.count('M:' + kM)
        s.count('mu:' + kmu)
        Mt0, Dt0 = Mt.copy(), None if Dt is None else Dt.copy()
        try:
            H = QH(Mt, Dt, ct, mut)
        except Exception as e:
            s.violate('QuadraticHamiltonian(%s array, mu %s) raised %s: %s' % (kM, kmu, type(e).__name__, e), c, {})
            continue
        before = len(s.violations)
        check_obj(ctx, s, c, H, M - mu * np.eye(n), D, const, spec_reqs, model_reqs, 3)
        # (S) arguments untouched
        if not np.array_equal(Mt, Mt0) or Mt.dtype != Mt0.dtype or (Dt is not None and not np.array_equal(Dt, Dt0)):
            s.violate('the constructor / diagonalisation modified its array arguments', c, {})
        # (S) scribble over the returned arrays, ask again
        if len(s.violations) == before:
            try:
                es1, W1, c1 = H.diagonalizing_bogoliubov_transform()
                ref = (np.array(es1, dtype=float).copy(), np.array(W1).copy(), complex(c1))
                np.asarray(es1)[...] = 7.0
                np.asarray(W1)[...] = 0.0
                es2, W2, c2 = H.diagonalizing_bogoliubov_transform()
                s.float_comparisons += 2
                if err(np.asarray(es2, dtype=float) - ref[0]) > 0 or err(np.asarray(W2) - ref[1]) > 0 or abs(complex(c2) - ref[2]) > 0:
                    s.violate('diagonalizing_bogoliubov_transform returns different values after its first result was '
                              'overwritten in place (result aliases internal state)', c, {})
                A1, k1 = H.majorana_form()
                Aref = np.array(A1).copy()
                np.asarray(A1)[...] = 5.0
                A2, k2 = H.majorana_form()
                if err(np.asarray(A2) - Aref) > 0:
                    s.violate('majorana_form returns different values after its first result was overwritten', c, {})
            except Exception as e:
                s.violate('second call raised %s: %s' % (type(e).__name__, e), c, {})
    ans = ctx.driver.run([r for _, r, _, _ in spec_reqs])
    for (c, _, w, ret), a in zip(spec_reqs, ans):
        s.count('oracle:subset-sum-spectrum')
        sp = np.array([rat_float(x) for x in a['spectrum']])
        s.float_comparisons += len(sp)
        if sp.shape != w.shape or err(sp - w) > (SINGLE_TOL if c.get('single_precision') else TOL):
            s.violate('subset sums of the orbital energies + constant are not the spectrum of H', c,
                      dict(ret, subset_sums=sp.tolist(), spectrum=w.tolist()))
    # ---- typed isometries for jw_slater_determinant and typed antisymmetric matrices
    acc_q, acc_a = [], []
    for k in DTYPES:
        try:
            of.circuits.jw_slater_determinant(typed(np.eye(2)[:1], k))
            acc_q.append(k)
        except Exception:
            s.count('slater-type-rejected:' + k)
        try:
            antisymmetric_canonical_form(typed(np.array([[0.0, 1.0], [-1.0, 0.0]]), k))
            acc_a.append(k)
        except Exception:
            s.count('canonical-type-rejected:' + k)
    for t in range(N // 2):
        n = rng.choice([2, 3, 4])
        m = rng.randint(1, n)
        perm = rng.sample(range(n), n)
        signs = [rng.choice([1, -1]) for _ in range(n)]
        U = np.zeros((n, n))
        for i in range(n):
            U[i, perm[i]] = signs[i]
        Q = U[:m]
        k = rng.choice(acc_q)
        Qt = typed(Q, k)
        if Qt is not None:
            c = {'kind': 'types-slater', 'Q': Q.tolist(), 'type': k}
            s.case(c)
            Q0 = Qt.copy()
            try:
                psi = np.asarray(of.circuits.jw_slater_determinant(Qt)).reshape(-1)
                ref = np.zeros(2 ** n, dtype=complex)
                ref[0] = 1.0
                for j in reversed(range(m)):
                    ref = bdag(Q.astype(complex), n, j) @ ref
                s.float_comparisons += 2
                if abs(np.linalg.norm(psi) - 1) > TOL or abs(abs(np.vdot(ref, psi)) - 1) > TOL:
                    s.violate('jw_slater_determinant(%s array) is not b+_1..b+_eta|vac> up to a phase' % k, c, {})
                if not np.array_equal(Qt, Q0):
                    s.violate('jw_slater_determinant modified its argument', c, {})
            except Exception as e:
                s.violate('jw_slater_determinant(%s array) raised %s: %s' % (k, type(e).__name__, e), c, {})
        # antisymmetric integer matrix
        p = 2 * rng.choice([1, 2, 3])
        A = np.zeros((p, p))
        for i in range(p):
            for j in range(i + 1, p):
                if rng.random() < 0.5:
                    v = rng.choice([-2, -1, 1, 2, 3])
                    A[i, j] = v
                    A[j, i] = -v
        k = rng.choice(acc_a)
        At = typed(A, k)
        if At is not None and not np.iscomplexobj(At):
            c = {'kind': 'types-canonical', 'A': A.tolist(), 'type': k}
            s.case(c)
            A0 = At.copy()
            try:
                C, R = antisymmetric_canonical_form(At)
                nn = p // 2
                Dg = np.diag(C[:nn, nn:])
                shape = np.zeros((p, p))
                shape[range(nn), range(nn, p)] = Dg
                shape[range(nn, p), range(nn)] = -Dg
                s.float_comparisons += 4
                tl = SINGLE_TOL if k == 'float32' else TOL
                if (err(R.T @ C @ R - A) > tl or err(R @ R.T - np.eye(p)) > tl or err(C - shape) > tl or Dg.min() < -tl
                        or np.any(np.diff(Dg) < -tl)):
                    s.violate('antisymmetric_canonical_form(%s array): A != R^T C R or wrong canonical shape' % k, c, {})
                if not np.array_equal(At, A0):
                    s.violate('antisymmetric_canonical_form modified its argument', c, {})
            except Exception as e:
                s.violate('antisymmetric_canonical_form(%s array) raised %s: %s' % (k, type(e).__name__, e), c, {})
    return s


# ----------------------------------------------------------------------------- (T) dtype of the stored matrices

# array dtypes the unmodified implementation accepts for hermitian_part / antisymmetric_part in every combination probed
# (chemical potential zero / non-zero, with / without antisymmetric part, C / Fortran order), hard-coded from a probe of the
# pinned tree; float16 is rejected by numpy.linalg.eigh when mu = 0 and there is no antisymmetric part, object arrays are
# rejected everywhere - both are left out; a bool hermitian_part with mu = 0 and a non-zero antisymmetric part is rejected too
# (majorana_form subtracts the stored boolean matrix: numpy TypeError)
DT_EXACT = ['int64', 'int32', 'int16', 'int8', 'uint8', 'bool', 'float64', 'complex128']
DT_SINGLE = ['float32', 'complex64']
DT_POOL = ['int64', 'int32', 'int8', 'bool', 'float32', 'complex64', 'int16', 'uint8', 'float64', 'complex128']
MU_POOL0 = [(0, 'pyint'), (0.0, 'pyfloat'), (0, 'np.int64'), (0.0, 'np.float64')]
MU_POOL1 = [(0.5, 'pyfloat'), (-1.5, 'pyfloat'), (1, 'pyint'), (2.0, 'np.float64'), (-1, 'np.int64'), (0.25, 'np.float32')]


def dt_entry(rng, dt, diag):
    if dt == 'bool':
        return rng.choice([0, 1, 1])
    if dt == 'uint8':
        return rng.choice([0, 1, 2, 3]) if diag else rng.choice([1, 2, 3])
    if dt.startswith('int'):
        return rng.choice([-3, -2, -1, 0, 1, 2, 3]) if diag else rng.choice([-2, -1, 1, 2, 3])
    if dt.startswith('float') or diag:
        return rng.choice([-1.5, -0.5, 0.25, 1.0, 2.5, -2.0, 3.0]) if diag else rng.choice([-0.5, 0.25, 1.0, -2.0, 1.5])
    return complex(rng.choice([-0.5, 0.25, 1.0, -2.0, 0.0]), rng.choice([-1.0, 0.5, 0.25, 2.0]))


def dt_hermitian(rng, n, dt, structure):
    """a Hermitian matrix whose entries are exactly representable in `dt`; 'spinblock': the two off-diagonal n/2 blocks vanish
    and the up and down blocks differ"""
    for _ in range(50):
        M = np.zeros((n, n), dtype=complex)
        h = n // 2
        for i in range(n):
            M[i, i] = dt_entry(rng, dt, True)
            for j in range(i + 1, n):
                if structure == 'spinblock' and (i < h) != (j < h):
                    continue
                if rng.random() < 0.85:
                    v = dt_entry(rng, dt, False)
                    M[i, j] = v
                    M[j, i] = np.conj(v)
        if structure != 'spinblock' or h < 1 or not np.array_equal(M[:h, :h], M[h:, h:]):
            return M
    return M


def dt_antisymmetric(rng, n, dt, structure):
    D = np.zeros((n, n), dtype=complex)
    if dt in ('bool', 'uint8') or n < 2:
        return D        # the only antisymmetric matrix these types can hold
    for _ in range(rng.choice([1, 1, 2])):
        i, j = rng.sample(range(n), 2)
        v = dt_entry(rng, dt, False)
        D[i, j] = v
        D[j, i] = -v
    return D


def dt_array(A, dt, order):
    """A (complex array with values representable in dt) as an array of dtype dt in the given memory order; None if not exact"""
    A = np.asarray(A)
    src = A if dt.startswith('complex') else A.real
    if not dt.startswith('complex') and np.abs(A.imag).max() != 0:
        return None
    T = np.array(src, dtype=dt, order=order)
    if not np.array_equal(T.astype(complex), A):
        return None
    return T


def circ_equal(a, b, tol):
    """two circuit descriptions (lists of layers of 'pht' / (i, j, theta, phi)) agree"""
    if len(a) != len(b):
        return False
    for la, lb in zip(a, b):
        if len(la) != len(lb):
            return False
        for x, y in zip(la, lb):
            if isinstance(x, str) or isinstance(y, str):
                if x != y:
                    return False
                continue
            if int(x[0]) != int(y[0]) or int(x[1]) != int(y[1]):
                return False
            if abs(float(x[2]) - float(y[2])) > tol or abs(float(x[3]) - float(y[3])) > tol:
                return False
    return True


def run_dtype_case(ctx, s, c, spec_reqs, model_reqs, n_occ):
    """all checks for one Hamiltonian stored with the recorded dtypes (deterministic in the case record)"""
    import warnings
    of = ctx.of
    QH = of.ops.QuadraticHamiltonian
    M, D, const, mu = ham_from_case(of, c)
    n = M.shape[0]
    Mt = dt_array(M, c['M_dtype'], c['order'])
    Dt = None if D is None else dt_array(D, c['Delta_dtype'], c['order'])
    mut = typed_scalar(mu, c['mu_type'])
    Mt0, Dt0 = Mt.copy(), None if Dt is None else Dt.copy()
    real = np.abs(M.imag).max() == 0 and (D is None or np.abs(D.imag).max() == 0)
    ref_dt = float if real else complex
    try:
        H = QH(Mt, Dt, const, mut)
        Href = QH(np.array(M.real if real else M, dtype=ref_dt), None if D is None else np.array(D.real if real else D, dtype=ref_dt),
                  const, float(mu))
    except Exception as e:
        s.violate('QuadraticHamiltonian(%s array) raised %s: %s' % (c['M_dtype'], type(e).__name__, e), c, {})
        return
    Mc = M - mu * np.eye(n)
    check_obj(ctx, s, c, H, Mc, D, const, spec_reqs, model_reqs, n_occ)
    tol = SINGLE_TOL if c.get('single_precision') else (LARGE_TOL if c.get('large_values') else TOL)
    try:
        es, W, cst = H.diagonalizing_bogoliubov_transform()
        er, Wr, cr = Href.diagonalizing_bogoliubov_transform()
        es, er, W, Wr = np.asarray(es, dtype=float), np.asarray(er, dtype=float), np.asarray(W), np.asarray(Wr)
        conserving = W.shape == (n, n)
        s.float_comparisons += 4
        if W.shape != Wr.shape or err(es - er) > tol or abs(complex(cst) - complex(cr)) > tol:
            s.violate('orbital energies / constant / shape of W for the %s matrix differ from the float64 / complex128 result'
                      % c['M_dtype'], c, {'energies': es.tolist(), 'reference': er.tolist()})
            return
        if conserving:
            if err(W @ W.conj().T - np.eye(n)) > tol:
                s.violate('W W^dagger != 1 for the %s matrix' % c['M_dtype'], c, {'W': [[str(x) for x in r] for r in W]})
            if err(W.T @ np.diag(es) @ W.conj() - Mc) > tol:
                s.violate('W^T diag(eps) W^* != M - mu for the %s matrix' % c['M_dtype'], c, {'W': [[str(x) for x in r] for r in W]})
        same = bool(err(W - Wr) <= (tol if c.get('single_precision') else 1e-10))
        s.count('W-equals-reference:%s' % same)
        # deprecated accessor
        with warnings.catch_warnings():
            warnings.simplefilter('ignore')
            oe, oc = H.orbital_energies()
        if err(np.asarray(oe, dtype=float) - es) > 0 or complex(oc) != complex(cst):
            s.violate('orbital_energies() differs from diagonalizing_bogoliubov_transform()', c, {})
        # spin sectors
        if n % 2 == 0:
            h = n // 2
            for sct in (0, 1):
                if conserving:
                    e_s, W_s, c_s = H.diagonalizing_bogoliubov_transform(spin_sector=sct)
                    e_s, W_s = np.asarray(e_s, dtype=float), np.asarray(W_s)
                    blk = Mc[sct * h:(sct + 1) * h, sct * h:(sct + 1) * h]
                    s.float_comparisons += 3
                    s.count('spin-sector')
                    if (W_s.shape != (h, h) or err(W_s @ W_s.conj().T - np.eye(h)) > tol
                            or err(W_s.T @ np.diag(e_s) @ W_s.conj() - blk) > tol or err(e_s - np.linalg.eigvalsh(blk)) > tol
                            or abs(complex(c_s) - const) > tol):
                        s.violate('diagonalizing_bogoliubov_transform(spin_sector=%d) does not diagonalise the spin block of the '
                                  '%s matrix' % (sct, c['M_dtype']), c, {'W': [[str(x) for x in r] for r in W_s]})
                else:
                    try:
                        H.diagonalizing_bogoliubov_transform(spin_sector=sct)
                        s.violate('spin_sector accepted for a non-conserving Hamiltonian (NotImplementedError for complex128 '
                                  'input)', c, {})
                    except NotImplementedError:
                        s.count('spin-sector:not-implemented')
        # circuits: compared with those of the float64 / complex128 object whenever the transforms coincide
        dc, dcr = H.diagonalizing_circuit(), Href.diagonalizing_circuit()
        gc, gcr = of.circuits.gaussian_state_preparation_circuit(H), of.circuits.gaussian_state_preparation_circuit(Href)
        occ = [0] if n < 3 else [0, 2]
        ge_, ger = (of.circuits.gaussian_state_preparation_circuit(H, occ),
                    of.circuits.gaussian_state_preparation_circuit(Href, occ))
        if c.get('single_precision'):
            # angles of rotations that annihilate entries of size ~1e-7 are not determined at single precision
            s.count('circuits-not-compared(single-precision)')
        elif same:
            ctol = 1e-9
            s.count('circuits-compared')
            s.float_comparisons += 3
            if not circ_equal(dc, dcr, ctol):
                s.violate('diagonalizing_circuit of the %s matrix differs from the one of the float64 / complex128 matrix'
                          % c['M_dtype'], c, {'circuit': show(dc)[:400], 'reference': show(dcr)[:400]})
            for (g, gr_), nm in (((gc, gcr), 'default'), ((ge_, ger), 'explicit')):
                if not circ_equal(g[0], gr_[0], ctol) or list(g[1]) != list(gr_[1]):
                    s.violate('gaussian_state_preparation_circuit (%s occupation) of the %s matrix differs from the one of the '
                              'float64 / complex128 matrix' % (nm, c['M_dtype']), c, {})
        else:
            s.count('circuits-not-compared(gauge)')
            if len(dc) != len(dcr):
                s.violate('diagonalizing_circuit of the %s matrix has a different depth' % c['M_dtype'], c, {})
    except Exception as e:
        s.violate('%s matrix: %s: %s' % (c['M_dtype'], type(e).__name__, e), c, {})
    if (not np.array_equal(Mt, Mt0) or Mt.dtype != Mt0.dtype
            or (Dt is not None and (not np.array_equal(Dt, Dt0) or Dt.dtype != Dt0.dtype))):
        s.violate('the constructor / diagonalisation modified its array arguments', c, {})


def stream_dtypes(ctx):
    s = Stream('dtypes', '(T) hermitian_part / antisymmetric_part stored as int64, int32, int16, int8, uint8, bool, float32, '
               'complex64 (and float64, complex128) arrays in C and Fortran order (the types the pinned tree accepts, hard-coded), '
               'chemical potential zero and non-zero of several scalar types, with and without antisymmetric part, even and odd '
               'sizes, spin-block-diagonal (different up / down blocks) and dense: all oracles of the energies stream, W W^dagger = 1, '
               'W^T diag(eps) W^* = M - mu, spin sectors 0 / 1, orbital_energies, and energies / W / circuits against the same matrix '
               'stored as float64 / complex128; distinct = distinct (values, types)')
    rng = rng_for(ctx.seed, 'c12-dtypes')
    N = budget(ctx.tier, 100, 700)
    if ctx.drift:
        N = max(N, 300)
    spec_reqs, model_reqs = [], []
    for t in range(N):
        dt = DT_POOL[t % len(DT_POOL)]
        order = 'CF'[(t // len(DT_POOL)) % 2]
        structure = rng.choice(['spinblock', 'spinblock', 'dense'])
        n = rng.choice([4, 4, 6, 2]) if structure == 'spinblock' else rng.choice([2, 3, 3, 4, 5])
        if n == 6 and ctx.tier != 'thorough' and rng.random() < 0.5:
            n = 4
        M = dt_hermitian(rng, n, dt, structure)
        large = dt in ('int8', 'uint8') and rng.random() < 0.4
        if large:
            # entries beyond half the range of the type: sums of two stored entries do not fit the type any more
            top = int(np.iinfo(dt).max)
            i = rng.randrange(n)
            M[i, i] = rng.randint(top // 2 + 1, top)
            j = rng.randrange(n)
            if j != i and (structure != 'spinblock' or (i < n // 2) == (j < n // 2)) and rng.random() < 0.5:
                M[i, j] = M[j, i] = rng.randint(top // 2 + 1, top) * (1 if dt == 'uint8' else rng.choice([1, -1]))
        D, dD = None, None
        if rng.random() < 0.35:
            dD = rng.choice(DT_POOL)
            D = dt_antisymmetric(rng, n, dD, structure)
        mu, kmu = rng.choice(MU_POOL0) if rng.random() < 0.5 else rng.choice(MU_POOL1)
        if large and D is not None and D.any():
            # entries ~200 with pairing ~1 is the weak-pairing regime (relative amplitudes ~1e-3, see ASSUMPTIONS): generated only
            # with mu = 0, where the stored integer matrix reaches majorana_form (known finding F12-majorana-integer-overflow)
            mu, kmu = rng.choice(MU_POOL0)
        const = rng.choice([0.0, 1.0, -0.5])
        if dt_array(M, dt, order) is None or (D is not None and dt_array(D, dD, order) is None):
            s.count('values-do-not-fit-type')
            continue
        if dt == 'bool' and mu == 0 and D is not None and D.any():
            # rejected by the pinned tree: majorana_form subtracts the stored boolean matrix (numpy TypeError)
            s.count('rejected-by-pinned-tree:bool-matrix-with-pairing')
            continue
        c = case_of(M, D, const, mu, 'dtypes')
        c.update({'structure': structure, 'M_dtype': dt, 'Delta_dtype': dD, 'order': order, 'mu_type': kmu,
                  'single_precision': dt in DT_SINGLE or dD in DT_SINGLE, 'large_values': bool(large)})
        s.case(c)
        s.count('M:' + dt)
        s.count('order:' + order)
        s.count('structure:' + structure)
        s.count('mu:%s' % ('zero' if mu == 0 else 'nonzero'))
        s.count('Delta:%s' % ('none' if D is None else ('zero' if not D.any() else 'nonzero')))
        s.count('n:%s' % ('even' if n % 2 == 0 else 'odd'))
        if large:
            s.count('values:beyond-half-range-of-' + dt)
        run_dtype_case(ctx, s, c, spec_reqs, model_reqs, 2)
    ans = ctx.driver.run([r for _, r, _, _ in spec_reqs])
    for (c, _, w, ret), a in zip(spec_reqs, ans):
        s.count('oracle:subset-sum-spectrum')
        sp = np.array([rat_float(x) for x in a['spectrum']])
        s.float_comparisons += len(sp)
        if sp.shape != w.shape or err(sp - w) > (SINGLE_TOL if c.get('single_precision') else (LARGE_TOL if c.get('large_values') else TOL)):
            s.violate('subset sums of the orbital energies + constant are not the spectrum of H', c,
                      dict(ret, subset_sums=sp.tolist(), spectrum=w.tolist()))
    return s


# ----------------------------------------------------------------------------- (flags) chemical potential x spin sector

SECTOR_MUS = [0.0, 0.5, -1.25]


def simulate_description(of, description, start_orbitals, n):
    """the state a circuit description prepares from the configuration state (the primitives jw_get_gaussian_state uses)"""
    state = of.linalg.jw_configuration_state(list(start_orbitals), n)
    for layer in description:
        for op in layer:
            if isinstance(op, str):
                state = of.linalg.jw_sparse_particle_hole_transformation_last_mode(n).dot(state)
            else:
                i, j, theta, phi = op
                state = of.linalg.jw_sparse_givens_rotation(i, j, theta, phi, n).dot(state)
    return np.asarray(state).reshape(-1)


def rat(x):
    f = F(float(x))
    return [f.numerator, f.denominator]


def run_sector_case(ctx, s, c, spec_reqs, model_reqs):
    """chemical potential (constructor keyword and / or add_chemical_potential) together with spin_sector in (None, 0, 1)"""
    of = ctx.of
    M = np.array([[complex(x[0], x[1]) for x in r] for r in c['M']])
    n = M.shape[0]
    h = n // 2
    const = c['const']
    mu_total = c['mu_ctor'] + sum(c['mu_add'])
    Mc = M - mu_total * np.eye(n)
    Dz = np.zeros((n, n), dtype=complex) if c.get('zero_delta') else None
    try:
        H = of.ops.QuadraticHamiltonian(M.copy(), Dz, const, chemical_potential=c['mu_ctor'])
        for a in c['mu_add']:
            H.add_chemical_potential(a)
    except Exception as e:
        s.violate('QuadraticHamiltonian(..., chemical_potential=) / add_chemical_potential raised %s: %s' % (type(e).__name__, e), c, {})
        return
    s.float_comparisons += 2
    if abs(H.chemical_potential - mu_total) > TOL or err(np.asarray(H.hermitian_part) - M) > TOL \
            or err(np.asarray(H.combined_hermitian_part) - Mc) > TOL:
        s.violate('chemical_potential / hermitian_part / combined_hermitian_part do not describe M and mu', c, {})
    # spin_sector = None: every oracle of the energies stream (transform, subset sums, default and explicit states)
    check_obj(ctx, s, dict(c, spin_sector=None), H, Mc, None, const, spec_reqs, model_reqs, 2)
    try:
        es0, W0, _ = H.diagonalizing_bogoliubov_transform()
        es0, W0 = np.asarray(es0, dtype=float), np.asarray(W0)
        s.float_comparisons += 2
        if W0.shape != (n, n) or err(W0 @ W0.conj().T - np.eye(n)) > TOL or err(W0.T @ np.diag(es0) @ W0.conj() - Mc) > TOL:
            s.violate('W W^dagger != 1 or W^T diag(eps) W^* != M - mu for the full transform', dict(c, spin_sector=None),
                      {'orbital_energies': es0.tolist()})
    except Exception as e:
        s.violate('diagonalizing_bogoliubov_transform raised %s: %s' % (type(e).__name__, e), dict(c, spin_sector=None), {})
    rng = __import__('random').Random(c['scratch'])
    wb = []
    for sct in (0, 1):
        cs = dict(c, spin_sector=sct)
        blk = Mc[sct * h:(sct + 1) * h, sct * h:(sct + 1) * h]
        w = np.linalg.eigvalsh(blk)
        wb.append(w)
        Hs = dense_H(blk, None, const)
        ws = np.linalg.eigvalsh(Hs)
        try:
            e_s, W_s, c_s = H.diagonalizing_bogoliubov_transform(spin_sector=sct)
            e_s, W_s = np.asarray(e_s, dtype=float), np.asarray(W_s)
            ret = {'sector_energies': e_s.tolist(), 'eigenvalues_of_block': w.tolist(), 'constant': float(np.real(c_s))}
            s.float_comparisons += 4
            if e_s.shape != w.shape or err(np.sort(e_s) - w) > TOL:
                s.violate('orbital energies of spin sector %d are not the eigenvalues of the block of M - mu' % sct, cs, ret)
                continue
            if (W_s.shape != (h, h) or err(W_s @ W_s.conj().T - np.eye(h)) > TOL
                    or err(W_s.T @ np.diag(e_s) @ W_s.conj() - blk) > TOL or abs(complex(c_s) - const) > TOL):
                s.violate('diagonalizing_bogoliubov_transform(spin_sector=%d) does not diagonalise the block of M - mu' % sct, cs, ret)
                continue
            # Spec: many-body spectrum of the sector = subset sums of the returned sector energies
            spec_reqs.append((cs, {'op': 'c12.spec.spectrum', 'es': [rat(e) for e in e_s], 'const': rat(np.real(c_s))}, ws, ret))
            # default occupation of the sector: number of filled orbitals, state, energy
            desc, start = of.circuits.gaussian_state_preparation_circuit(H, None, spin_sector=sct)
            start = [int(x) for x in start]
            s.count('sector-default-filling:%d/%d' % (len(start), h))
            if len(start) != int(np.sum(w < 0)):
                s.violate('default occupation of spin sector %d fills %d orbitals, the block of M - mu has %d negative eigenvalues'
                          % (sct, len(start), int(np.sum(w < 0))), cs, ret)
            psi = simulate_description(of, desc, start, h)
            E = float(np.real(np.vdot(psi, Hs @ psi)))
            s.float_comparisons += 3
            STOL = max(TOL, 1e-8 * max(1.0, float(np.max(np.abs(ws)))))     # pruning threshold of the Givens sweeps
            if abs(np.linalg.norm(psi) - 1) > TOL or np.linalg.norm(Hs @ psi - E * psi) > STOL:
                s.violate('default state of spin sector %d is not an eigenstate of the sector Hamiltonian' % sct, cs, ret)
            elif abs(E - ws[0]) > TOL:
                s.violate('default state of spin sector %d is not the ground state of the sector (E = %.12g, lowest = %.12g)'
                          % (sct, E, ws[0]), cs, ret)
            # Model: default energy from the independently computed eigenvalues of the block
            model_reqs.append((cs, {'op': 'c12.energies', 'es': [rat(x) for x in w], 'const': rat(const), 'tol': rat(1e-8),
                                    'conserving': True, 'occs': []}, ws[0], [E]))
            # an explicit occupation of the sector
            occ = sorted(rng.sample(range(h), rng.randint(0, h)))
            desc, start = of.circuits.gaussian_state_preparation_circuit(H, occ, spin_sector=sct)
            psi = simulate_description(of, desc, [int(x) for x in start], h)
            Eo = float(np.sum(e_s[occ]) + const)
            s.float_comparisons += 1
            if np.linalg.norm(Hs @ psi - Eo * psi) > STOL or abs(np.linalg.norm(psi) - 1) > TOL:
                s.violate('state of spin sector %d with occupied orbitals %s is not an eigenstate with energy sum eps + constant'
                          % (sct, occ), cs, ret)
        except Exception as e:
            s.violate('spin sector %d: %s: %s' % (sct, type(e).__name__, e), cs, {})
    # prepare_gaussian_state with one list of occupied orbitals per spin sector (orbitals in ascending order of energy)
    try:
        import cirq
        up = sorted(rng.sample(range(h), rng.randint(0, h)))
        dn = sorted(rng.sample(range(h), rng.randint(0, h)))
        qubits = cirq.LineQubit.range(n)
        circuit = cirq.Circuit(of.circuits.prepare_gaussian_state(qubits, H, (up, dn)))
        psi = np.asarray(circuit.final_state_vector(qubit_order=qubits, dtype=np.complex128)).reshape(-1) if len(circuit.all_qubits()) \
            else np.eye(2 ** n)[0].astype(complex)
        Hd = dense_H(Mc, None, const)
        E = float(np.sum(wb[0][up]) + np.sum(wb[1][dn]) + const)
        s.count('prepare_gaussian_state:two-lists')
        s.float_comparisons += 1
        if np.linalg.norm(Hd @ psi - E * psi) > 1e-6:     # cirq simulates in the precision it is asked for; gates are exact to ~1e-8
            s.violate('prepare_gaussian_state(occupied_orbitals=(%s, %s)) is not an eigenstate with the energy of these orbitals '
                      '(residual %.3g)' % (up, dn, np.linalg.norm(Hd @ psi - E * psi)), dict(c, spin_sector='both'), {})
    except Exception as e:
        s.violate('prepare_gaussian_state raised %s: %s' % (type(e).__name__, e), dict(c, spin_sector='both'), {})


def finish_sector(ctx, s, spec_reqs, model_reqs):
    ans = ctx.driver.run([r for _, r, _, _ in spec_reqs])
    for (c, _, w, ret), a in zip(spec_reqs, ans):
        s.count('oracle:subset-sum-spectrum')
        sp = np.array([rat_float(x) for x in a['spectrum']])
        s.float_comparisons += len(sp)
        if sp.shape != w.shape or err(sp - w) > TOL:
            s.violate('subset sums of the orbital energies + constant are not the spectrum of H%s'
                      % ('' if c.get('spin_sector') is None else ' restricted to spin sector %s' % c.get('spin_sector')), c,
                      dict(ret, subset_sums=sp.tolist(), spectrum=w.tolist()))
    ans = ctx.driver.run([r for _, r, _, _ in model_reqs])
    for (c, rq, ge, energies), a in zip(model_reqs, ans):
        s.float_comparisons += 2
        if abs(rat_float(a['ground']) - ge) > TOL:
            s.disagree('ground energy%s' % ('' if c.get('spin_sector') is None else ' of spin sector %s' % c.get('spin_sector')),
                       c, ge, rat_float(a['ground']))
        if energies and energies[0] is not None and abs(rat_float(a['default_energy']) - energies[0]) > TOL:
            s.disagree('energy of the default occupation%s' % ('' if c.get('spin_sector') is None else ' of spin sector %s'
                                                                % c.get('spin_sector')), c, energies[0], rat_float(a['default_energy']))


def stream_sectors(ctx):
    s = Stream('sectors', '(flags) chemical potential mu in {0, 0.5, -1.25} (constructor keyword, add_chemical_potential afterwards, or '
               'both) x spin_sector in {None, 0, 1} x (spin-symmetric / spin-dependent blocks), spin-block-diagonal particle-conserving '
               'Hamiltonians on 2, 4, 6 modes: sector energies = eigenvalues of the block of M - mu, W of the sector, many-body '
               'spectrum of the sector as subset sums (Spec), number of filled orbitals / state / energy of the default occupation '
               'of gaussian_state_preparation_circuit(..., spin_sector=s) (Model default energy from independent eigenvalues), explicit '
               'occupations, prepare_gaussian_state with two lists; distinct = distinct (matrix, mu history)')
    rng = rng_for(ctx.seed, 'c12-sectors')
    N = budget(ctx.tier, 60, 500)
    if ctx.drift:
        N = max(N, 200)
    spec_reqs, model_reqs = [], []
    for t in range(N):
        n = rng.choice([2, 4, 4, 6, 6] + ([8] if (ctx.tier == 'thorough' or t % 8 == 0) else []))
        h = n // 2
        # (A) block pairs (A, A), (A, conj A), (A, A^T), (A, B); for the conjugate / transpose pairs A is complex non-real
        symmetry = ['symmetric', 'conjugate', 'transpose', 'dependent', 'dependent', 'conjugate'][t % 6]
        if h == 1 and symmetry in ('conjugate', 'transpose'):
            n, h = 4, 2
        cplx = symmetry in ('conjugate', 'transpose') or rng.random() < 0.5

        def block():
            B = np.zeros((h, h), dtype=complex)
            for i in range(h):
                B[i, i] = rng.choice([-2.0, -1.0, -0.5, 0.25, 0.75, 1.0, 1.5, 3.0])
                for j in range(i + 1, h):
                    if rng.random() < 0.8:
                        v = rng.choice([-1.0, -0.5, 0.25, 0.5, 1.0])
                        if cplx and (rng.random() < 0.5 or (i, j) == (0, 1)):
                            v = complex(v, rng.choice([-0.5, 0.25, 1.0]))
                        B[i, j] = v
                        B[j, i] = np.conj(v)
            return B
        up = block()
        dn = {'symmetric': lambda: up.copy(), 'conjugate': lambda: np.conj(up), 'transpose': lambda: up.T.copy(),
              'dependent': block}[symmetry]()
        M = np.zeros((n, n), dtype=complex)
        M[:h, :h] = up
        M[h:, h:] = dn
        mu = SECTOR_MUS[t % 3]
        how = rng.choice(['ctor', 'add', 'both'])
        if how == 'ctor':
            mu_ctor, mu_add = mu, []
        elif how == 'add':
            mu_ctor, mu_add = 0.0, [mu]
        else:
            mu_ctor, mu_add = 0.75, [mu - 0.75]
        const = rng.choice([0.0, 1.0, -0.5])
        # the default occupation is decided by the sign of the orbital energies: keep away from zero energies
        ev = np.linalg.eigvalsh(M - mu * np.eye(n))
        if np.abs(ev).min() < 1e-6:
            s.count('discarded:zero-orbital-energy')
            s.discards += 1
            continue
        c = {'kind': 'sectors', 'n': n, 'M': [[[x.real, x.imag] for x in r] for r in M], 'const': const, 'mu_ctor': mu_ctor,
             'mu_add': mu_add, 'symmetry': symmetry, 'zero_delta': rng.random() < 0.2, 'scratch': rng.randrange(10 ** 9)}
        s.case(c)
        s.count('mu:%g' % mu)
        s.count('mu-set-by:' + how)
        s.count('blocks:' + symmetry)
        s.count('n:%d' % n)
        run_sector_case(ctx, s, c, spec_reqs, model_reqs)
    finish_sector(ctx, s, spec_reqs, model_reqs)
    return s


def haar(nprng, n):
    z = nprng.normal(size=(n, n)) + 1j * nprng.normal(size=(n, n))
    q, r = np.linalg.qr(z)
    return q * (np.diag(r) / np.abs(np.diag(r)))


def stream_slater(ctx):
    s = Stream('slater', 'jw_slater_determinant(Q) for Haar and structured (permutation-like, block, real, zero-column) isometries '
               'Q (eta x n, n <= 5): normalised and equal to b+_1 .. b+_eta |vac> up to a phase (dense reference); '
               'distinct = distinct Q')
    of = ctx.of
    rng = rng_for(ctx.seed, 'c12-slater')
    nprng = np.random.default_rng(rng.getrandbits(32))
    N = budget(ctx.tier, 400, 2500)
    if ctx.drift:
        N = max(N, 400)
    for t in range(N):
        n = rng.choice([1, 2, 3, 3, 4, 4, 5])
        m = rng.randint(1, n)
        kind = rng.choice(['haar', 'perm', 'block', 'real', 'sparse'])
        if kind == 'haar':
            U = haar(nprng, n)
        elif kind == 'real':
            U = np.linalg.qr(nprng.normal(size=(n, n)))[0].astype(complex)
        else:
            U = np.eye(n, dtype=complex)[rng.sample(range(n), n)]
            U = U * np.array([rng.choice([1, -1, 1j, -1j]) for _ in range(n)])
            steps = {'perm': 0, 'block': 2, 'sparse': 3}[kind]
            for _ in range(steps):
                if n < 2:
                    break
                i = rng.randrange(n - 1) if kind == 'block' else rng.randrange(n)
                j = i + 1 if kind == 'block' else rng.choice([x for x in range(n) if x != i])
                cth, sth = rng.choice([(0.6, 0.8), (0.8, -0.6), (0.0, 1.0), (5 / 13, 12 / 13)])
                G = np.eye(n, dtype=complex)
                G[i, i] = cth
                G[i, j] = -sth
                G[j, i] = sth
                G[j, j] = cth
                U = G @ U
        rows = rng.sample(range(n), m)
        Q = U[rows]
        c = {'kind': kind, 'shape': [m, n], 'Q': [[[x.real, x.imag] for x in r] for r in Q]}
        s.case(c)
        s.count('kind:' + kind)
        try:
            psi = np.asarray(of.circuits.jw_slater_determinant(Q.copy())).reshape(-1)
        except Exception as e:
            s.violate('jw_slater_determinant raised %s: %s' % (type(e).__name__, e), c, {})
            continue
        ref = np.zeros(2 ** n, dtype=complex)
        ref[0] = 1.0
        for j in reversed(range(m)):
            ref = bdag(Q, n, j) @ ref
        s.float_comparisons += 2
        if abs(np.linalg.norm(psi) - 1) > TOL:
            s.violate('Slater determinant is not normalised', c, {'norm': float(np.linalg.norm(psi))})
        elif abs(abs(np.vdot(ref, psi)) - 1) > TOL:
            s.violate('Slater determinant differs from b+_1 .. b+_eta |vac> by more than a phase (overlap %.6g)'
                      % abs(np.vdot(ref, psi)), c, {})
    return s


# ----------------------------------------------------------------------------- canonical form


def gen_antisym(rng, n, kind, of):
    p = 2 * n
    A = np.zeros((p, p))
    if kind == 'majorana':
        M, D, const, mu = gen_ham(rng, n, rng.choice(HAM_KINDS))
        A, _ = of.ops.QuadraticHamiltonian(M, D, const, mu).majorana_form()
        return np.array(A, dtype=float)
    if kind == 'blocks':
        # direct sum of 2x2 blocks [[0, v], [-v, 0]] (some zero / negative / repeated), conjugated by a permutation
        vals = [rng.choice([0, 0, 1, -1, 2, 0.5, -2, 1]) for _ in range(n)]
        for t, v in enumerate(vals):
            A[2 * t, 2 * t + 1] = v
            A[2 * t + 1, 2 * t] = -v
        perm = list(range(p))
        if rng.random() < 0.7:
            rng.shuffle(perm)
        P = np.eye(p)[perm]
        return P @ A @ P.T
    if kind == 'integer':
        for i in range(p):
            for j in range(i + 1, p):
                if rng.random() < 0.5:
                    v = rng.choice([-2, -1, 1, 2, 0.5])
                    A[i, j] = v
                    A[j, i] = -v
        return A
    # canonical-shaped already
    vals = sorted(rng.choice([0, 0.5, 1, 1, 2, 3]) for _ in range(n))
    for t, v in enumerate(vals):
        A[t, n + t] = v
        A[n + t, t] = -v
    return A


def stream_canonical(ctx):
    s = Stream('canonical', 'antisymmetric_canonical_form on real antisymmetric 2n x 2n inputs (n <= 4): Majorana matrices of '
               'structured Hamiltonians, permuted direct sums of 2x2 blocks with zero / negative / repeated values, sparse '
               'integer matrices, already canonical inputs: Model passes on the same Schur form (exact) + oracle '
               'A = R^T C R, R orthogonal, C = [[0,D],[-D,0]], D >= 0 ascending; distinct = distinct inputs')
    of = ctx.of
    import scipy.linalg
    from openfermion.ops.representations.quadratic_hamiltonian import antisymmetric_canonical_form
    rng = rng_for(ctx.seed, 'c12-canonical')
    N = budget(ctx.tier, 500, 4000)
    if ctx.drift:
        N = max(N, 600)
    reqs, keep = [], []
    for t in range(N):
        n = rng.choice([1, 2, 2, 3, 3, 4])
        kind = rng.choice(['majorana', 'blocks', 'blocks', 'integer', 'canonical'])
        A = gen_antisym(rng, n, kind, of)
        c = {'kind': kind, 'n': n, 'A': A.tolist()}
        s.case(c)
        s.count('kind:' + kind)
        try:
            C, R = antisymmetric_canonical_form(A.copy())
        except Exception as e:
            s.violate('antisymmetric_canonical_form raised %s: %s' % (type(e).__name__, e), c, {})
            continue
        p = 2 * n
        D = np.diag(C[:n, n:])
        ret = {'canonical': np.round(C, 12).tolist(), 'orthogonal': np.round(R, 12).tolist()}
        s.float_comparisons += 5
        shape = np.zeros((p, p))
        shape[range(n), range(n, p)] = D
        shape[range(n, p), range(n)] = -D
        if err(R.T @ C @ R - A) > TOL:
            s.violate('A != R^T C R', c, ret)
        elif err(R @ R.T - np.eye(p)) > TOL:
            s.violate('R is not orthogonal', c, ret)
        elif err(C - shape) > TOL:
            s.violate('canonical form is not [[0, D], [-D, 0]] with D diagonal', c, ret)
        elif D.min() < -TOL or np.any(np.diff(D) < -TOL):
            s.violate('D is not non-negative ascending', c, ret)
        T, Z = scipy.linalg.schur(A.copy(), output='real')
        reqs.append({'op': 'c12.canonical', 'T': rjson(T), 'Z': rjson(Z), 'n': n,
                     'atol': [F(1e-8).numerator, F(1e-8).denominator]})
        keep.append((c, C, R))
    ans = ctx.driver.run(reqs)
    for (c, C, R), a in zip(keep, ans):
        Cm = [[F(x[0], x[1]) for x in r] for r in a['canonical']]
        Rm = [[F(x[0], x[1]) for x in r] for r in a['orthogonal']]
        Ci = [[F(float(x)) for x in r] for r in C]
        Ri = [[F(float(x)) for x in r] for r in R]
        if Cm != Ci or Rm != Ri:
            s.disagree('permutation passes (canonical / orthogonal differ from the Model on the same Schur form)', c,
                       {'canonical': C.tolist(), 'orthogonal': R.tolist()},
                       {'canonical': [[float(x) for x in r] for r in Cm], 'orthogonal': [[float(x) for x in r] for r in Rm]})
    return s


# ----------------------------------------------------------------------------- entry points

F12_WITNESS = {'M': [[3.0, 0.0], [0.0, -3.0]], 'Delta': [[0.0, 2.0], [-2.0, 0.0]], 'occupied_orbitals': [0]}


NARROW_INT = ('int8', 'uint8', 'int16', 'int32')
F12_OVERFLOW = 'F12-majorana-integer-overflow'
F12_OVERFLOW_WITNESS = {'M': [[100, 0], [0, 90]], 'M_dtype': 'int8', 'Delta': [[0, 1], [-1, 0]]}


def majorana_overflow_class(inp):
    """hermitian_part stored as a narrow integer array, chemical potential 0 (so the stored matrix keeps that dtype), non-zero
    antisymmetric part (so majorana_form runs) and an entry whose double does not fit the dtype: majorana_form evaluates
    hermitian_part + hermitian_part.conj() in the stored dtype, which wraps around silently"""
    if inp.get('kind') != 'dtypes' or inp.get('M_dtype') not in NARROW_INT or inp.get('mu') != 0:
        return False
    D = inp.get('Delta')
    if D is None or not any(x[0] != 0 or x[1] != 0 for r in D for x in r):
        return False
    info = np.iinfo(inp['M_dtype'])
    return any(2 * x[0] > info.max or 2 * x[0] < info.min for r in inp['M'] for x in r)


def classify(v):
    """F12-majorana-integer-overflow: see majorana_overflow_class.
    F12: jw_get_gaussian_state for a non-particle-conserving Hamiltonian whose Bogoliubov matrix has a singular annihilation
    block (consequence of C11/F11): explicit occupied_orbitals, or the default occupation when fermionic_gaussian_decomposition
    of the matrix handed over by the state preparation demonstrably fails the C11 reconstruction oracle"""
    inp = v.get('input', {})
    if majorana_overflow_class(inp):
        return F12_OVERFLOW
    if (v.get('what', '').startswith('gaussian state is not') and inp.get('conserves_particle_number') is False
            and inp.get('annihilation_block_singular') is True
            and (inp.get('occupied_orbitals') is not None or inp.get('gaussian_decomposition_wrong') is True)):
        return 'F12'
    return None


def probe_known(ctx, k):
    of = ctx.of
    if k['id'] == F12_OVERFLOW:
        w = F12_OVERFLOW_WITNESS
        try:
            H = of.ops.QuadraticHamiltonian(np.array(w['M'], dtype=w['M_dtype']), np.array(w['Delta'], dtype=float))
            lowest = np.linalg.eigvalsh(dense_H(np.array(w['M'], dtype=complex), np.array(w['Delta'], dtype=complex), 0.0))[0]
            return bool(abs(H.ground_energy() - lowest) > TOL)
        except Exception:
            return True
    if k['id'] != 'F12':
        return False
    M = np.array(F12_WITNESS['M'], dtype=complex)
    D = np.array(F12_WITNESS['Delta'], dtype=complex)
    try:
        H = of.ops.QuadraticHamiltonian(M, D)
        E, psi = of.circuits.jw_get_gaussian_state(H, F12_WITNESS['occupied_orbitals'])
        psi = np.asarray(psi).reshape(-1)
        Hd = dense_H(M, D, 0.0)
        return bool(np.linalg.norm(Hd @ psi - E * psi) > TOL)
    except Exception:
        return True


def replay(ctx, payload):
    v = payload.get('violation')
    if not v:
        return None
    inp = v['input']
    of = ctx.of
    try:
        if 'Q' in inp:
            Q = np.array([[complex(x[0], x[1]) for x in r] for r in inp['Q']])
            m, n = Q.shape
            psi = np.asarray(of.circuits.jw_slater_determinant(Q.copy())).reshape(-1)
            ref = np.zeros(2 ** n, dtype=complex)
            ref[0] = 1.0
            for j in reversed(range(m)):
                ref = bdag(Q, n, j) @ ref
            return bool(abs(np.linalg.norm(psi) - 1) <= TOL and abs(abs(np.vdot(ref, psi)) - 1) <= TOL)
        if 'A' in inp:
            from openfermion.ops.representations.quadratic_hamiltonian import antisymmetric_canonical_form
            A = np.array(inp['A'], dtype=float)
            C, R = antisymmetric_canonical_form(A.copy())
            n = A.shape[0] // 2
            D = np.diag(C[:n, n:])
            shape = np.zeros_like(A)
            shape[range(n), range(n, 2 * n)] = D
            shape[range(n, 2 * n), range(n)] = -D
            return bool(err(R.T @ C @ R - A) <= TOL and err(R @ R.T - np.eye(2 * n)) <= TOL and err(C - shape) <= TOL
                        and D.min() >= -TOL and not np.any(np.diff(D) < -TOL))
        def carr(x):
            return None if x is None else np.array([[complex(e[0], e[1]) for e in r] for r in x])
        if 'history' in inp:
            # re-execute the recorded history on one object, checking after every step
            QH = of.ops.QuadraticHamiltonian
            s = Stream('replay', '')
            sr, mr = [], []
            H = None
            for h in inp['history']:
                op = h['op']
                if op == 'new':
                    M, D, cc, mu = carr(h['M']), carr(h['Delta']), h['const'], h['mu']
                    n = M.shape[0]
                    H = QH(M.copy(), None if D is None else D.copy(), cc, mu)
                    Mc, Dc = M - mu * np.eye(n), D
                elif op == 'add_chemical_potential':
                    H.add_chemical_potential(h['value'])
                    Mc = Mc - h['value'] * np.eye(n)
                elif op == 'constant=':
                    H.constant = h['value']
                    cc = h['value']
                elif op.startswith('combined_hermitian_part'):
                    i, j, x = h['i'], h['j'], h['value']
                    H.combined_hermitian_part[i, j] += x
                    H.combined_hermitian_part[j, i] += x
                    H.combined_hermitian_part[i, i] -= x
                    Mc = Mc.copy()
                    Mc[i, j] += x
                    Mc[j, i] += x
                    Mc[i, i] -= x
                elif 'H2' in op:
                    M2, D2 = carr(h['M2']), carr(h['Delta2'])
                    H2 = QH(M2.copy(), None if D2 is None else D2.copy(), h['const2'], h['mu2'])
                    sg = 1.0 if '+' in op else -1.0
                    if op == 'H += H2':
                        H += H2
                    elif op == 'H -= H2':
                        H -= H2
                    elif op == 'H = H + H2':
                        H = H + H2
                    else:
                        H = H - H2
                    Mc = Mc + sg * (M2 - h['mu2'] * np.eye(n))
                    if D2 is not None:
                        Dc = (np.zeros((n, n), dtype=complex) if Dc is None else Dc) + sg * D2
                    cc = cc + sg * h['const2']
                else:
                    a = h['a']
                    if op == 'H *= a':
                        H *= a
                    else:
                        H = a * H
                    Mc, Dc, cc = a * Mc, (None if Dc is None else a * Dc), a * cc
                check_obj(ctx, s, {'kind': 'history'}, H, Mc.copy(), None if Dc is None else Dc.copy(), cc, sr, mr, 64)
            ans = ctx.driver.run([r for _, r, _, _ in sr])
            for (_, _, w, _), a in zip(sr, ans):
                sp = np.array([rat_float(x) for x in a['spectrum']])
                if sp.shape != w.shape or err(sp - w) > TOL:
                    return False
            return not [x for x in s.violations if classify(x) is None]
        if inp.get('kind') == 'sectors':
            s = Stream('replay', '')
            sr, mr = [], []
            run_sector_case(ctx, s, {k: v_ for k, v_ in inp.items() if k not in ('spin_sector', 'occupied_orbitals',
                                                                               'annihilation_block_singular',
                                                                               'gaussian_decomposition_wrong',
                                                                               'conserves_particle_number')}, sr, mr)
            finish_sector(ctx, s, sr, mr)
            return not (s.violations or s.disagreements)
        if 'M' in inp:
            M, D, const, mu = ham_from_case(of, inp)
            s = Stream('replay', '')
            sr, mr = [], []
            if inp.get('kind') == 'dtypes':
                run_dtype_case(ctx, s, {k: v_ for k, v_ in inp.items() if k not in ('occupied_orbitals', 'annihilation_block_singular',
                                                                              'conserves_particle_number')}, sr, mr, 64)
            elif inp.get('kind') == 'types':
                n = M.shape[0]
                Mt = typed(M, inp['M_type'])
                Dt = None if D is None else typed(D, inp['Delta_type'])
                H = of.ops.QuadraticHamiltonian(Mt, Dt, typed_scalar(const, inp['const_type']), typed_scalar(mu, inp['mu_type']))
                check_obj(ctx, s, {'kind': 'types', 'single_precision': inp.get('single_precision')}, H, M - mu * np.eye(n), D,
                          const, sr, mr, 64)
            else:
                check_ham(ctx, s, {k: inp[k] for k in ('kind', 'n', 'M', 'Delta', 'const', 'mu')}, M, D, const, mu, sr, mr, 64)
            ans = ctx.driver.run([r for _, r, _, _ in sr])
            for (_, _, w, _), a in zip(sr, ans):
                sp = np.array([rat_float(x) for x in a['spectrum']])
                if sp.shape != w.shape or err(sp - w) > TOL:
                    return False
            bad = [x for x in s.violations if classify(x) is None]
            if classify(v) == F12_OVERFLOW or 'occupied_orbitals' in inp and classify(v) is not None:
                bad = s.violations
            return not bad
    except Exception:
        return False
    return None


def run(ctx):
    return [stream_majorana(ctx), stream_energies(ctx), stream_history(ctx), stream_types(ctx), stream_dtypes(ctx),
            stream_sectors(ctx), stream_slater(ctx), stream_canonical(ctx)]
