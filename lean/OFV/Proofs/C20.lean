/-
C20 — helper lemmas: decimal numerals, factor / term printing and parsing, the regular expression
`(.*?)\[(.*?)\]` on printed blocks, coefficient cleaning, `_long_string_init` on the printed text.
-/
import OFV.Model.C20
import OFV.Model.C20Files
import Mathlib.Data.List.Basic
import Mathlib.Tactic.Ring
import Mathlib.Data.Rat.Defs
import Mathlib.Data.List.Perm.Basic
import Mathlib.Data.List.Nodup

set_option linter.unusedSimpArgs false
set_option linter.unusedVariables false
set_option linter.unnecessarySeqFocus false

namespace OFV.C20
open OFV.Model OFV.Model.C20


/-! ### decimal numerals -/

def ofDigitsRev : List Nat → Nat
  | [] => 0
  | d :: r => d + 10 * ofDigitsRev r

theorem ofDigitsRev_toDigitsRev (n : Nat) : ofDigitsRev (toDigitsRev n) = n := by
  induction n using Nat.strongRecOn with
  | _ n ih =>
    unfold toDigitsRev
    split
    · simp [ofDigitsRev]
    · simp only [ofDigitsRev]
      rw [ih (n / 10) (by omega)]
      omega

theorem toDigitsRev_lt (n : Nat) : ∀ d ∈ toDigitsRev n, d < 10 := by
  induction n using Nat.strongRecOn with
  | _ n ih =>
    unfold toDigitsRev
    split
    · intro d hd; simp at hd; omega
    · intro d hd
      rcases List.mem_cons.1 hd with rfl | h
      · omega
      · exact ih (n / 10) (by omega) d h

theorem toDigitsRev_ne_nil (n : Nat) : toDigitsRev n ≠ [] := by
  unfold toDigitsRev; split <;> simp

theorem digitVal_digitChar {d : Nat} (h : d < 10) : digitVal (digitChar d) = d := by
  have : d = 0 ∨ d = 1 ∨ d = 2 ∨ d = 3 ∨ d = 4 ∨ d = 5 ∨ d = 6 ∨ d = 7 ∨ d = 8 ∨ d = 9 := by omega
  rcases this with rfl | rfl | rfl | rfl | rfl | rfl | rfl | rfl | rfl | rfl <;> decide

theorem isDigit_digitChar (d : Nat) : isDigit (digitChar d) = true := by
  unfold digitChar
  split <;> decide

theorem parseNat_digits (ds : List Nat) (h : ∀ d ∈ ds, d < 10) :
    parseNat (ds.reverse.map digitChar) = ofDigitsRev ds := by
  unfold parseNat
  rw [List.foldl_map, List.foldl_reverse]
  induction ds with
  | nil => rfl
  | cons d r ih =>
    simp only [List.foldr_cons, ofDigitsRev]
    rw [ih (fun x hx => h x (List.mem_cons_of_mem _ hx)), digitVal_digitChar (h d (by simp))]
    omega

/-- `int(str(n)) = n` -/
theorem parseNat_natStr (n : Nat) : parseNat (natStr n) = n := by
  unfold natStr
  rw [parseNat_digits _ (toDigitsRev_lt n), ofDigitsRev_toDigitsRev]

theorem natStr_all_digits (n : Nat) : ∀ c ∈ natStr n, isDigit c = true := by
  intro c hc
  simp only [natStr, List.mem_map] at hc
  obtain ⟨d, _, rfl⟩ := hc
  exact isDigit_digitChar d

theorem natStr_ne_nil (n : Nat) : natStr n ≠ [] := by
  simp [natStr, toDigitsRev_ne_nil]


/-! ### factors -/

theorem takeWhile_dropWhile_append {p : Char → Bool} (l1 l2 : Str) (h1 : ∀ x ∈ l1, p x = true)
    (h2 : ∀ x, l2.head? = some x → p x = false) :
    (l1 ++ l2).takeWhile p = l1 ∧ (l1 ++ l2).dropWhile p = l2 := by
  induction l1 with
  | nil =>
    cases l2 with
    | nil => simp
    | cons c r => simp [List.takeWhile, List.dropWhile, h2 c rfl]
  | cons a l1 ih =>
    have ha := h1 a (by simp)
    obtain ⟨i1, i2⟩ := ih (fun x hx => h1 x (List.mem_cons_of_mem _ hx))
    simp [List.takeWhile, List.dropWhile, ha, i1, i2]

/-- classes whose operators can be printed / parsed with valid actions -/
def ValidFactor (cls : Cls) (f : Factor) : Prop := validAction cls f.2 = true

theorem actionOfStr_actionStr {cls : Cls} {a : Nat} (h : validAction cls a = true) :
    actionOfStr cls (actionStr cls a) = some a := by
  cases cls <;> simp [validAction] at h
  · -- fermion
    have : a = 0 ∨ a = 1 := by omega
    rcases this with rfl | rfl <;> rfl
  · -- qubit
    have : a = 1 ∨ a = 2 ∨ a = 3 := by omega
    rcases this with rfl | rfl | rfl <;> rfl
  · have : a = 0 ∨ a = 1 := by omega
    rcases this with rfl | rfl <;> rfl
  · have : a = 0 ∨ a = 1 := by omega
    rcases this with rfl | rfl <;> rfl
  · subst h; rfl

/-- the action strings of the classes that print the action first: one non-digit character -/
theorem actionStr_before {cls : Cls} (hb : actionBeforeIndex cls = true) (a : Nat) :
    ∃ ch, actionStr cls a = [ch] ∧ isDigit ch = false ∧ ch ≠ '-' := by
  cases cls <;> simp [actionBeforeIndex] at hb
  · -- qubit
    rcases (by omega : a = 1 ∨ a = 2 ∨ (a ≠ 1 ∧ a ≠ 2)) with rfl | rfl | ⟨h1, h2⟩
    · exact ⟨'X', rfl, by decide, by decide⟩
    · exact ⟨'Y', rfl, by decide, by decide⟩
    · refine ⟨'Z', ?_, by decide, by decide⟩
      unfold actionStr; split <;> simp_all
  · -- quad
    rcases (by omega : a = 0 ∨ a ≠ 0) with rfl | h1
    · exact ⟨'q', rfl, by decide, by decide⟩
    · refine ⟨'p', ?_, by decide, by decide⟩
      unfold actionStr; split <;> simp_all
  · exact ⟨'Z', rfl, by decide, by decide⟩

/-- the action strings of the ladder classes: empty or `^` -/
theorem actionStr_after {cls : Cls} (hb : actionBeforeIndex cls = false) (a : Nat) :
    ∀ x, (actionStr cls a).head? = some x → isDigit x = false := by
  cases cls <;> simp [actionBeforeIndex] at hb
  all_goals
    intro x hx
    unfold actionStr at hx
    split at hx <;> simp at hx <;> (try subst hx) <;> decide

theorem parseFactor_printFactor {cls : Cls} {f : Factor} (h : ValidFactor cls f) :
    parseFactor cls (printFactor cls f) = some f := by
  obtain ⟨i, a⟩ := f
  unfold ValidFactor at h
  simp only at h
  unfold parseFactor printFactor
  by_cases hb : actionBeforeIndex cls = true
  · obtain ⟨ch, hch, hnd, hminus⟩ := actionStr_before hb a
    simp only [hb, if_true, hch]
    have hrev : ([ch] ++ natStr i).reverse = (natStr i).reverse ++ [ch] := by simp
    have htw := (takeWhile_dropWhile_append (p := isDigit) (natStr i).reverse [ch]
      (fun x hx => natStr_all_digits i x (List.mem_reverse.1 hx))
      (fun x hx => by simp at hx; subst hx; exact hnd)).1
    rw [hrev, htw, List.reverse_reverse]
    have hne := natStr_ne_nil i
    simp only [hne, if_false]
    have hlen : ([ch] ++ natStr i).length - (natStr i).length = 1 := by simp
    rw [hlen]
    have : List.take 1 ([ch] ++ natStr i) = [ch] := by simp
    rw [this]
    have h3 : ([ch] : Str).getLast? = some ch := by simp
    rw [h3]
    have h4 : ¬ (some ch = some '-') := by simpa using hminus
    simp only [h4, if_false]
    rw [← hch, actionOfStr_actionStr h, parseNat_natStr]
    rfl
  · have hb' : actionBeforeIndex cls = false := by simpa using hb
    simp only [hb', Bool.false_eq_true, if_false]
    obtain ⟨htw, hdw⟩ := takeWhile_dropWhile_append (p := isDigit) (natStr i) (actionStr cls a)
      (natStr_all_digits i) (actionStr_after hb' a)
    -- the first character is a digit
    cases hn : natStr i with
    | nil => exact absurd hn (natStr_ne_nil i)
    | cons c r =>
      have hc : isDigit c = true := natStr_all_digits i c (by rw [hn]; simp)
      have hcm : c ≠ '-' := by
        intro hcc; subst hcc; revert hc; decide
      rw [hn] at htw hdw
      simp only [List.cons_append, hcm, if_false, hc, Bool.not_true, Bool.false_eq_true]
      simp only [List.cons_append] at htw hdw
      rw [htw, hdw, actionOfStr_actionStr h, ← hn, parseNat_natStr]
      rfl


/-! ### terms: `_parse_string(' '.join(factors))` -/

theorem isSpace_of_isDigit {c : Char} (h : isDigit c = true) : isSpace c = false := by
  simp only [isDigit, Bool.and_eq_true, decide_eq_true_eq] at h
  simp only [isSpace, Bool.or_eq_false_iff, Bool.and_eq_false_iff, decide_eq_false_iff_not]
  refine ⟨⟨?_, by omega⟩, by omega⟩
  intro hc; subst hc; revert h; decide

theorem actionStr_nospace (cls : Cls) (a : Nat) : ∀ c ∈ actionStr cls a, isSpace c = false := by
  intro c hc
  cases cls <;> (unfold actionStr at hc; split at hc) <;> simp at hc <;> (try subst hc) <;> decide

theorem printFactor_nospace (cls : Cls) (f : Factor) : ∀ c ∈ printFactor cls f, isSpace c = false := by
  intro c hc
  unfold printFactor at hc
  split at hc <;> rcases List.mem_append.1 hc with h | h
  · exact actionStr_nospace cls f.2 c h
  · exact isSpace_of_isDigit (natStr_all_digits f.1 c h)
  · exact isSpace_of_isDigit (natStr_all_digits f.1 c h)
  · exact actionStr_nospace cls f.2 c h

theorem printFactor_ne_nil (cls : Cls) (f : Factor) : printFactor cls f ≠ [] := by
  unfold printFactor
  have := natStr_ne_nil f.1
  split <;> simp [this]

theorem splitWsAux_token (tok rest cur : Str) (h : ∀ c ∈ tok, isSpace c = false) :
    splitWsAux (tok ++ rest) cur = splitWsAux rest (tok.reverse ++ cur) := by
  induction tok generalizing cur with
  | nil => rfl
  | cons c r ih =>
    have hc := h c (by simp)
    simp only [List.cons_append, splitWsAux, hc, Bool.false_eq_true, if_false]
    rw [ih _ (fun x hx => h x (List.mem_cons_of_mem _ hx))]
    simp

theorem splitWs_printTerm (cls : Cls) (t : Term) : splitWs (printTerm cls t) = t.map (printFactor cls) := by
  unfold splitWs
  induction t with
  | nil => rfl
  | cons f r ih =>
    have hns := printFactor_nospace cls f
    have hne := printFactor_ne_nil cls f
    cases r with
    | nil =>
      simp only [printTerm, List.map_cons, List.map_nil]
      have := splitWsAux_token (printFactor cls f) [] [] hns
      rw [List.append_nil] at this
      rw [this]
      simp [splitWsAux, hne]
    | cons g r' =>
      simp only [printTerm, List.map_cons] at ih ⊢
      rw [splitWsAux_token _ _ _ hns]
      have hsp : isSpace ' ' = true := by decide
      simp only [List.append_nil, splitWsAux, hsp, if_true, List.reverse_eq_nil_iff, hne, if_false,
        List.reverse_reverse]
      rw [ih]

theorem mapM_map_some {α β : Type} (f : β → Option α) (g : α → β) (l : List α)
    (h : ∀ x ∈ l, f (g x) = some x) : (l.map g).mapM f = some l := by
  induction l with
  | nil => rfl
  | cons a r ih =>
    simp only [List.map_cons, List.mapM_cons, h a (by simp), ih (fun x hx => h x (List.mem_cons_of_mem _ hx))]
    rfl

/-- all factors carry an action of the class -/
def ValidTerm (cls : Cls) (t : Term) : Prop := ∀ f ∈ t, ValidFactor cls f

/-- `_parse_string` inverts the term printer -/
theorem parseString_printTerm {cls : Cls} {t : Term} (h : ValidTerm cls t) :
    parseString cls (printTerm cls t) = some t := by
  unfold parseString
  rw [splitWs_printTerm]
  exact mapM_map_some _ _ _ (fun f hf => parseFactor_printFactor (h f hf))


/-! ### the regular expression `(.*?)\[(.*?)\]` on printed blocks -/

theorem findTermsAux_pre (p rest acc body : Str) (h : ∀ c ∈ p, c ≠ '[') :
    findTermsAux (p ++ rest) false acc body = findTermsAux rest false (p.reverse ++ acc) body := by
  induction p generalizing acc with
  | nil => rfl
  | cons c r ih =>
    have hc := h c (by simp)
    simp only [List.cons_append, findTermsAux, hc, if_false]
    rw [ih _ (fun x hx => h x (List.mem_cons_of_mem _ hx))]
    simp

theorem findTermsAux_body (b rest pre acc : Str) (h : ∀ c ∈ b, c ≠ ']') :
    findTermsAux (b ++ rest) true pre acc = findTermsAux rest true pre (b.reverse ++ acc) := by
  induction b generalizing acc with
  | nil => rfl
  | cons c r ih =>
    have hc := h c (by simp)
    simp only [List.cons_append, findTermsAux, hc, if_false]
    rw [ih _ (fun x hx => h x (List.mem_cons_of_mem _ hx))]
    simp

/-- one match: text without `[`, then `[`, text without `]`, then `]` -/
theorem findTermsAux_match (p b rest : Str) (hp : ∀ c ∈ p, c ≠ '[') (hb : ∀ c ∈ b, c ≠ ']') :
    findTermsAux (p ++ '[' :: (b ++ ']' :: rest)) false [] [] = (p, b) :: findTermsAux rest false [] [] := by
  rw [findTermsAux_pre p _ [] [] hp]
  simp only [findTermsAux, if_true]
  rw [findTermsAux_body b _ _ [] hb]
  simp [findTermsAux]

/-- the text of one entry without the trailing separator: `coef [term]` -/
def blockCore (cls : Cls) (e : Entry) : Str := e.2.2 ++ ' ' :: '[' :: (printTerm cls e.1 ++ [']'])

def sep : Str := [' ', '+', '\n']

theorem printBlock_eq (cls : Cls) (e : Entry) : printBlock cls e = blockCore cls e ++ sep := by
  simp [printBlock, blockCore, sep]

/-- the printed blocks joined by `" +\n"` -/
def joinBlocks (cls : Cls) : List Entry → Str
  | [] => []
  | [e] => blockCore cls e
  | e :: r => blockCore cls e ++ sep ++ joinBlocks cls r

theorem flatMap_printBlock (cls : Cls) (B : List Entry) (h : B ≠ []) :
    B.flatMap (printBlock cls) = joinBlocks cls B ++ sep := by
  induction B with
  | nil => exact absurd rfl h
  | cons e r ih =>
    cases r with
    | nil => simp [joinBlocks, printBlock_eq]
    | cons g r' =>
      simp only [List.flatMap_cons, joinBlocks] at ih ⊢
      rw [ih (by simp), printBlock_eq]
      simp [List.append_assoc]

theorem take_length_sub_three (l : Str) : (l ++ sep).take ((l ++ sep).length - 3) = l := by
  simp [sep]

/-- what `__str__` returns for a non-empty list of non-negligible entries in print order -/
theorem printed_eq_join (cls : Cls) (B : List Entry) (h : B ≠ []) :
    (B.flatMap (printBlock cls)).take ((B.flatMap (printBlock cls)).length - 3) = joinBlocks cls B := by
  rw [flatMap_printBlock cls B h, take_length_sub_three]

/-- characters that may not occur in a printed term -/
theorem printTerm_no_bracket (cls : Cls) (t : Term) : ∀ c ∈ printTerm cls t, c ≠ ']' ∧ c ≠ '[' := by
  have hf : ∀ f : Factor, ∀ c ∈ printFactor cls f, c ≠ ']' ∧ c ≠ '[' := by
    intro f c hc
    have hd : ∀ c, isDigit c = true → c ≠ ']' ∧ c ≠ '[' := by
      intro c h; constructor <;> (intro hh; subst hh; revert h; decide)
    have ha : ∀ c ∈ actionStr cls f.2, c ≠ ']' ∧ c ≠ '[' := by
      intro c hc
      cases cls <;> (unfold actionStr at hc; split at hc) <;> simp at hc <;> (try subst hc) <;> decide
    unfold printFactor at hc
    split at hc <;> rcases List.mem_append.1 hc with h | h
    · exact ha c h
    · exact hd c (natStr_all_digits f.1 c h)
    · exact hd c (natStr_all_digits f.1 c h)
    · exact ha c h
  induction t with
  | nil => intro c hc; simp [printTerm] at hc
  | cons f r ih =>
    cases r with
    | nil => simpa [printTerm] using hf f
    | cons g r' =>
      intro c hc
      simp only [printTerm] at hc ih
      rcases List.mem_append.1 hc with h | h
      · exact hf f c h
      · rcases List.mem_cons.1 h with rfl | h
        · decide
        · exact ih c h

/-- matches of the regular expression on the joined blocks: the first coefficient text is
`coef ++ " "`, the later ones `" +\n" ++ coef ++ " "` -/
def expectedMatches (cls : Cls) : List Entry → Bool → List (Str × Str)
  | [], _ => []
  | e :: r, first =>
    ((if first then [] else sep) ++ e.2.2 ++ [' '], printTerm cls e.1) :: expectedMatches cls r false

theorem findTerms_join_aux (cls : Cls) (B : List Entry) (hB : ∀ e ∈ B, ∀ c ∈ e.2.2, c ≠ '[') :
    ∀ (lead : Str) (first : Bool), (lead = if first then [] else sep) →
      findTermsAux (lead ++ joinBlocks cls B) false [] [] = expectedMatches cls B first ∨ B = [] := by
  induction B with
  | nil => intro _ _ _; right; rfl
  | cons e r ih =>
    intro lead first hlead
    left
    have hsep : ∀ c ∈ sep, c ≠ '[' := by intro c hc; simp [sep] at hc; rcases hc with rfl | rfl | rfl <;> decide
    have hpre : ∀ c ∈ lead ++ e.2.2 ++ [' '], c ≠ '[' := by
      intro c hc
      simp only [List.mem_append, List.mem_singleton] at hc
      rcases hc with (h | h) | h
      · subst hlead; split at h
        · simp at h
        · exact hsep c h
      · exact hB e (by simp) c h
      · subst h; decide
    have hbody : ∀ c ∈ printTerm cls e.1, c ≠ ']' := fun c hc => (printTerm_no_bracket cls e.1 c hc).1
    cases r with
    | nil =>
      have : lead ++ joinBlocks cls [e] = (lead ++ e.2.2 ++ [' ']) ++ '[' :: (printTerm cls e.1 ++ ']' :: []) := by
        simp [joinBlocks, blockCore]
      rw [this, findTermsAux_match _ _ _ hpre hbody]
      simp [expectedMatches, findTermsAux, hlead]
    | cons g r' =>
      have : lead ++ joinBlocks cls (e :: g :: r') =
          (lead ++ e.2.2 ++ [' ']) ++ '[' :: (printTerm cls e.1 ++ ']' :: (sep ++ joinBlocks cls (g :: r'))) := by
        simp [joinBlocks, blockCore, List.append_assoc]
      rw [this, findTermsAux_match _ _ _ hpre hbody]
      have ih' := ih (fun e' he' => hB e' (List.mem_cons_of_mem _ he')) sep false rfl
      rcases ih' with h | h
      · rw [h]; simp [expectedMatches, hlead]
      · simp at h

theorem findTerms_join (cls : Cls) (B : List Entry) (hB : ∀ e ∈ B, ∀ c ∈ e.2.2, c ≠ '[') :
    findTerms (joinBlocks cls B) = expectedMatches cls B true := by
  cases B with
  | nil => rfl
  | cons e r =>
    have := findTerms_join_aux cls (e :: r) hB [] true rfl
    simpa [findTerms] using this


/-! ### coefficients -/

/-- contract on the text `format` produced for a coefficient: no white space, no `[`, no leading
`+`, and the coefficient parser (with the supplied `float` / `complex` tables) reads it back -/
structure CoefOK (nt : NumTables) (txt : Str) (v : GQ) : Prop where
  nospace : ∀ c ∈ txt, isSpace c = false
  nobracket : ∀ c ∈ txt, c ≠ '['
  noplus : txt.head? ≠ some '+'
  nocolon : ∀ c ∈ txt, c ≠ ':'
  parses : parseClean nt txt = some v

theorem filter_nospace (s : Str) (h : ∀ c ∈ s, isSpace c = false) : (s.filter fun c => !isSpace c) = s := by
  rw [List.filter_eq_self]
  intro c hc; simp [h c hc]

theorem stripPlus_of_noplus (s : Str) (h : s.head? ≠ some '+') : stripPlus s = s := by
  cases s with
  | nil => rfl
  | cons c r =>
    have hc : c ≠ '+' := by intro hh; subst hh; simp at h
    unfold stripPlus
    split
    · next r' heq => simp only [List.cons.injEq] at heq; exact absurd heq.1 hc
    · rfl

theorem cleanCoef_first (txt : Str) (hs : ∀ c ∈ txt, isSpace c = false) (hp : txt.head? ≠ some '+') :
    cleanCoef (txt ++ [' ']) = txt := by
  unfold cleanCoef
  have h2 : (([' '] : Str).filter fun c => !isSpace c) = [] := by decide
  rw [List.filter_append, filter_nospace txt hs, h2, List.append_nil, stripPlus_of_noplus txt hp]

theorem cleanCoef_later (txt : Str) (hs : ∀ c ∈ txt, isSpace c = false) :
    cleanCoef (sep ++ txt ++ [' ']) = txt := by
  unfold cleanCoef
  have h1 : (sep.filter fun c => !isSpace c) = ['+'] := by decide
  have h2 : (([' '] : Str).filter fun c => !isSpace c) = [] := by decide
  rw [List.filter_append, List.filter_append, filter_nospace txt hs, h1, h2]
  simp [stripPlus]

theorem parseCoef_first (nt : NumTables) (txt : Str) (v : GQ) (h : CoefOK nt txt v) :
    parseCoef nt (txt ++ [' ']) = some v := by
  unfold parseCoef; rw [cleanCoef_first txt h.nospace h.noplus]; exact h.parses

theorem parseCoef_later (nt : NumTables) (txt : Str) (v : GQ) (h : CoefOK nt txt v) :
    parseCoef nt (sep ++ txt ++ [' ']) = some v := by
  unfold parseCoef; rw [cleanCoef_later txt h.nospace]; exact h.parses


/-! ### `_long_string_init` on the printed text -/

theorem gq_mul_one (v : GQ) : v * 1 = v := by
  apply GQ.ext <;> simp

theorem get?_none_of_not_mem {d : Op} {t : Term} (h : t ∉ d.map (·.1)) : Dict.get? d t = none := by
  induction d with
  | nil => rfl
  | cons a r ih =>
    obtain ⟨k, v⟩ := a
    simp only [List.map_cons, List.mem_cons, not_or] at h
    unfold Dict.get?
    rw [if_neg (fun hk => h.1 hk.symm)]
    exact ih h.2

theorem set_of_not_mem {d : Op} {t : Term} {v : GQ} (h : t ∉ d.map (·.1)) : Dict.set d t v = d ++ [(t, v)] := by
  induction d with
  | nil => rfl
  | cons a r ih =>
    obtain ⟨k, w⟩ := a
    simp only [List.map_cons, List.mem_cons, not_or] at h
    unfold Dict.set
    rw [if_neg (fun hk => h.1 hk.symm), ih h.2]
    rfl

theorem addTerm_fresh {d : Op} {t : Term} {v : GQ} (h : t ∉ d.map (·.1)) : addTerm d t v = d ++ [(t, v)] := by
  unfold addTerm
  rw [get?_none_of_not_mem h]
  exact set_of_not_mem h

/-- hypotheses on the entries that are printed (in print order) -/
structure Printable (cls : Cls) (nt : NumTables) (B : List Entry) : Prop where
  valid : ∀ e ∈ B, ValidTerm cls e.1
  canonical : ∀ e ∈ B, simplify cls e.1 = (1, e.1)
  nodup : (B.map (·.1)).Nodup
  coef : ∀ e ∈ B, CoefOK nt e.2.2 e.2.1

def entryOp (B : List Entry) : Op := B.map fun e => (e.1, e.2.1)

theorem lsStep_block (cls : Cls) (nt : NumTables) (e : Entry) (pre : Str) (d : Op)
    (hc : parseCoef nt pre = some e.2.1) (hv : ValidTerm cls e.1) (hs : simplify cls e.1 = (1, e.1))
    (hfresh : e.1 ∉ d.map (·.1)) :
    lsStep cls nt 1 d (pre, printTerm cls e.1) = some (d ++ [(e.1, e.2.1)]) := by
  unfold lsStep
  simp only [hc, parseString_printTerm hv, hs, Option.bind_eq_bind, Option.bind_some, Option.pure_def,
    gq_mul_one, addTerm_fresh hfresh]

theorem foldlM_expected (cls : Cls) (nt : NumTables) (B : List Entry) (hB : Printable cls nt B) :
    ∀ (d : Op) (first : Bool), (∀ e ∈ B, e.1 ∉ d.map (·.1)) →
      (expectedMatches cls B first).foldlM (lsStep cls nt 1) d = some (d ++ entryOp B) := by
  induction B with
  | nil => intro d _ _; simp [expectedMatches, entryOp]
  | cons e r ih =>
    intro d first hd
    have hcoef := hB.coef e (by simp)
    have hc : parseCoef nt ((if first then [] else sep) ++ e.2.2 ++ [' ']) = some e.2.1 := by
      cases first
      · simpa using parseCoef_later nt e.2.2 e.2.1 hcoef
      · simpa using parseCoef_first nt e.2.2 e.2.1 hcoef
    have hfresh : e.1 ∉ d.map (·.1) := hd e (by simp)
    have hstep := lsStep_block cls nt e _ d hc (hB.valid e (by simp)) (hB.canonical e (by simp)) hfresh
    have hB' : Printable cls nt r := {
      valid := fun e' he' => hB.valid e' (List.mem_cons_of_mem _ he')
      canonical := fun e' he' => hB.canonical e' (List.mem_cons_of_mem _ he')
      nodup := by have := hB.nodup; simp only [List.map_cons, List.nodup_cons] at this; exact this.2
      coef := fun e' he' => hB.coef e' (List.mem_cons_of_mem _ he') }
    have hd' : ∀ e' ∈ r, e'.1 ∉ (d ++ [(e.1, e.2.1)]).map (·.1) := by
      intro e' he'
      simp only [List.map_append, List.map_cons, List.map_nil, List.mem_append, List.mem_singleton, not_or]
      refine ⟨hd e' (List.mem_cons_of_mem _ he'), ?_⟩
      intro heq
      have := hB.nodup
      simp only [List.map_cons, List.nodup_cons] at this
      exact this.1 (heq ▸ List.mem_map_of_mem he')
    simp only [expectedMatches, List.foldlM_cons, hstep, Option.bind_eq_bind, Option.bind_some]
    rw [ih hB' _ false hd']
    simp [entryOp]

/-- `_long_string_init` reads the joined blocks back -/
theorem longStringInit_join (cls : Cls) (nt : NumTables) (B : List Entry) (hB : Printable cls nt B) :
    longStringInit cls nt (joinBlocks cls B) 1 = some (entryOp B) := by
  unfold longStringInit
  rw [findTerms_join cls B (fun e he => (hB.coef e he).nobracket)]
  have := foldlM_expected cls nt B hB [] true (fun _ _ => by simp)
  simpa using this


theorem insertEntry_perm (cls : Cls) (e : Entry) (l : List Entry) : (insertEntry cls e l).Perm (e :: l) := by
  induction l with
  | nil => exact List.Perm.refl _
  | cons x r ih =>
    unfold insertEntry
    split
    · exact (List.Perm.cons x ih).trans (List.Perm.swap e x r)
    · exact List.Perm.refl _

theorem sortEntries_perm (cls : Cls) (A : List Entry) : (sortEntries cls A).Perm A := by
  unfold sortEntries
  induction A with
  | nil => exact List.Perm.refl _
  | cons e r ih =>
    simp only [List.foldr_cons]
    exact (insertEntry_perm cls e _).trans (List.Perm.cons e ih)

/-- the entries `__str__` prints, in print order -/
def printedEntries (cls : Cls) (tol : Rat) (A : List Entry) : List Entry :=
  (sortEntries cls A).filter fun e => !GQ.isSmall tol e.2.1

theorem mem_printedEntries {cls : Cls} {tol : Rat} {A : List Entry} {e : Entry} :
    e ∈ printedEntries cls tol A ↔ e ∈ A ∧ GQ.isSmall tol e.2.1 = false := by
  simp [printedEntries, (sortEntries_perm cls A).mem_iff]

/-- hypotheses on a dictionary whose printed form is parsed back -/
structure RoundTripOK (cls : Cls) (tol : Rat) (nt : NumTables) (A : List Entry) : Prop where
  valid : ∀ e ∈ A, ValidTerm cls e.1
  canonical : ∀ e ∈ A, simplify cls e.1 = (1, e.1)
  nodup : (A.map (·.1)).Nodup
  coef : ∀ e ∈ A, GQ.isSmall tol e.2.1 = false → CoefOK nt e.2.2 e.2.1

theorem printable_printed {cls : Cls} {tol : Rat} {nt : NumTables} {A : List Entry}
    (h : RoundTripOK cls tol nt A) : Printable cls nt (printedEntries cls tol A) where
  valid := fun e he => h.valid e (mem_printedEntries.1 he).1
  canonical := fun e he => h.canonical e (mem_printedEntries.1 he).1
  nodup := by
    have h1 : ((sortEntries cls A).map (·.1)).Nodup := ((sortEntries_perm cls A).map _).nodup_iff.2 h.nodup
    exact (List.Nodup.sublist ((List.filter_sublist).map _) h1)
  coef := fun e he => h.coef e (mem_printedEntries.1 he).1 (mem_printedEntries.1 he).2

theorem printOp_eq_join {cls : Cls} {tol : Rat} {A : List Entry} (hne : printedEntries cls tol A ≠ []) :
    printOp cls tol A = joinBlocks cls (printedEntries cls tol A) := by
  have hA : A ≠ [] := by
    intro h; subst h; exact hne rfl
  unfold printOp
  simp only [hA, if_false]
  exact printed_eq_join cls _ hne

theorem joinBlocks_contains (cls : Cls) (B : List Entry) (h : B ≠ []) : (joinBlocks cls B).contains '[' = true := by
  cases B with
  | nil => exact absurd rfl h
  | cons e r =>
    cases r with
    | nil => simp [joinBlocks, blockCore]
    | cons g r' => simp [joinBlocks, blockCore]


end OFV.C20
