/- C11: row rotations by unitary 2×2 matrices preserve orthonormality of the rows (left-unitary stage). -/
import OFV.Model.C11
import OFV.Proofs.C11Unit
import OFV.Proofs.C11Diag
import OFV.Proofs.C11Left

namespace OFV
namespace Model
namespace C11

theorem rsum_lin4 (a b c d : Rat) (f1 f2 f3 f4 : Nat → Rat) : ∀ n,
    rsum n (fun x => a * f1 x + b * f2 x + c * f3 x + d * f4 x) =
      a * rsum n f1 + b * rsum n f2 + c * rsum n f3 + d * rsum n f4 := by
  intro n
  induction n with
  | zero => simp [rsum]
  | succ n ih => simp only [rsum, ih]; ring

theorem rsum_congr (f g : Nat → Rat) (n : Nat) (h : ∀ x, x < n → f x = g x) : rsum n f = rsum n g := by
  induction n with
  | zero => rfl
  | succ n ih => simp only [rsum]; rw [ih (fun x hx => h x (by omega)), h n (by omega)]

/-- `Σ_{x<n} f x · conj (g x)` as a Gaussian rational -/
def dotF (n : Nat) (f g : Nat → GQ) : GQ :=
  ⟨rsum n fun x => (f x * (g x).conj).re, rsum n fun x => (f x * (g x).conj).im⟩

theorem dotF_left (n : Nat) (α β : GQ) (u v w : Nat → GQ) :
    dotF n (fun x => α * u x + β * v x) w = α * dotF n u w + β * dotF n v w := by
  refine GQ.ext ?_ ?_
  · have L := rsum_lin4 α.re (-α.im) β.re (-β.im) (fun x => (u x * (w x).conj).re) (fun x => (u x * (w x).conj).im)
      (fun x => (v x * (w x).conj).re) (fun x => (v x * (w x).conj).im) n
    have C : rsum n (fun x => ((α * u x + β * v x) * (w x).conj).re) =
        rsum n (fun x => α.re * (u x * (w x).conj).re + -α.im * (u x * (w x).conj).im
          + β.re * (v x * (w x).conj).re + -β.im * (v x * (w x).conj).im) :=
      rsum_congr _ _ n (fun x _ => by simp; ring)
    show rsum n (fun x => ((α * u x + β * v x) * (w x).conj).re) =
      α.re * rsum n (fun x => (u x * (w x).conj).re) - α.im * rsum n (fun x => (u x * (w x).conj).im)
      + (β.re * rsum n (fun x => (v x * (w x).conj).re) - β.im * rsum n (fun x => (v x * (w x).conj).im))
    rw [C, L]; ring
  · have L := rsum_lin4 α.re α.im β.re β.im (fun x => (u x * (w x).conj).im) (fun x => (u x * (w x).conj).re)
      (fun x => (v x * (w x).conj).im) (fun x => (v x * (w x).conj).re) n
    have C : rsum n (fun x => ((α * u x + β * v x) * (w x).conj).im) =
        rsum n (fun x => α.re * (u x * (w x).conj).im + α.im * (u x * (w x).conj).re
          + β.re * (v x * (w x).conj).im + β.im * (v x * (w x).conj).re) :=
      rsum_congr _ _ n (fun x _ => by simp; ring)
    show rsum n (fun x => ((α * u x + β * v x) * (w x).conj).im) =
      α.re * rsum n (fun x => (u x * (w x).conj).im) + α.im * rsum n (fun x => (u x * (w x).conj).re)
      + (β.re * rsum n (fun x => (v x * (w x).conj).im) + β.im * rsum n (fun x => (v x * (w x).conj).re))
    rw [C, L]; ring

theorem dotF_right (n : Nat) (α β : GQ) (u v w : Nat → GQ) :
    dotF n w (fun x => α * u x + β * v x) = α.conj * dotF n w u + β.conj * dotF n w v := by
  refine GQ.ext ?_ ?_
  · have L := rsum_lin4 α.re α.im β.re β.im (fun x => (w x * (u x).conj).re) (fun x => (w x * (u x).conj).im)
      (fun x => (w x * (v x).conj).re) (fun x => (w x * (v x).conj).im) n
    have C : rsum n (fun x => (w x * (α * u x + β * v x).conj).re) =
        rsum n (fun x => α.re * (w x * (u x).conj).re + α.im * (w x * (u x).conj).im
          + β.re * (w x * (v x).conj).re + β.im * (w x * (v x).conj).im) :=
      rsum_congr _ _ n (fun x _ => by simp; ring)
    show rsum n (fun x => (w x * (α * u x + β * v x).conj).re) =
      α.re * rsum n (fun x => (w x * (u x).conj).re) - (-α.im) * rsum n (fun x => (w x * (u x).conj).im)
      + (β.re * rsum n (fun x => (w x * (v x).conj).re) - (-β.im) * rsum n (fun x => (w x * (v x).conj).im))
    rw [C, L]; ring
  · have L := rsum_lin4 α.re (-α.im) β.re (-β.im) (fun x => (w x * (u x).conj).im) (fun x => (w x * (u x).conj).re)
      (fun x => (w x * (v x).conj).im) (fun x => (w x * (v x).conj).re) n
    have C : rsum n (fun x => (w x * (α * u x + β * v x).conj).im) =
        rsum n (fun x => α.re * (w x * (u x).conj).im + -α.im * (w x * (u x).conj).re
          + β.re * (w x * (v x).conj).im + -β.im * (w x * (v x).conj).re) :=
      rsum_congr _ _ n (fun x _ => by simp; ring)
    show rsum n (fun x => (w x * (α * u x + β * v x).conj).im) =
      α.re * rsum n (fun x => (w x * (u x).conj).im) + (-α.im) * rsum n (fun x => (w x * (u x).conj).re)
      + (β.re * rsum n (fun x => (w x * (v x).conj).im) + (-β.im) * rsum n (fun x => (w x * (v x).conj).re))
    rw [C, L]; ring

theorem dotF_congr (n : Nat) (f f' g g' : Nat → GQ) (hf : ∀ x, x < n → f x = f' x) (hg : ∀ x, x < n → g x = g' x) :
    dotF n f g = dotF n f' g' := by
  unfold dotF
  congr 1
  · exact rsum_congr _ _ n (fun x hx => by rw [hf x hx, hg x hx])
  · exact rsum_congr _ _ n (fun x hx => by rw [hf x hx, hg x hx])

theorem ortho_iff_dot (M : Mat) (m n : Nat) :
    RowsOrthonormal M m n ↔ ∀ i i', i < m → i' < m → dotF n (M.get i) (M.get i') = if i = i' then 1 else 0 := by
  constructor
  · intro h i i' hi hi'
    obtain ⟨h1, h2⟩ := h i i' hi hi'
    refine GQ.ext ?_ ?_
    · show rowDotRe M n i i' = _
      rw [h1]; by_cases e : i = i' <;> simp [e]
    · show rowDotIm M n i i' = _
      rw [h2]; by_cases e : i = i' <;> simp [e]
  · intro h i i' hi hi'
    have := h i i' hi hi'
    constructor
    · show (dotF n (M.get i) (M.get i')).re = _
      rw [this]; by_cases e : i = i' <;> simp [e]
    · show (dotF n (M.get i) (M.get i')).im = _
      rw [this]; by_cases e : i = i' <;> simp [e]

theorem gq_mul_one (z : GQ) : z * 1 = z := by refine GQ.ext ?_ ?_ <;> simp
theorem gq_zero_add (z : GQ) : 0 + z = z := by refine GQ.ext ?_ ?_ <;> simp
theorem gq_add_zero' (z : GQ) : z + 0 = z := by refine GQ.ext ?_ ?_ <;> simp
theorem gq_conj_conj (z : GQ) : z.conj.conj = z := by refine GQ.ext ?_ ?_ <;> simp

theorem unitary_conj_orth {G : G2} (h : G.Unitary) : G.g10 * G.g00.conj + G.g11 * G.g01.conj = 0 := by
  have h1 := congrArg GQ.re h.2.2
  have h2 := congrArg GQ.im h.2.2
  simp at h1 h2
  refine GQ.ext ?_ ?_ <;> simp <;> linarith

/-- a row rotation by a unitary `G` keeps the rows orthonormal -/
theorem rotateRows_orthonormal {M : Mat} {m n : Nat} (hM : Rect M m n) {G : G2} (hG : G.Unitary) (l : Nat)
    (hl : l + 1 < m) (ho : RowsOrthonormal M m n) : RowsOrthonormal (rotateRows M G l (l + 1)) m n := by
  rw [ortho_iff_dot] at ho ⊢
  -- the rows of the rotated matrix, on the columns x < n
  have rowL : ∀ x, x < n → (rotateRows M G l (l + 1)).get l x = G.g00 * M.get l x + G.g01 * M.get (l + 1) x := by
    intro x hx
    rw [rotateRows_get M G m n l l x hM hl hx]
    have : ¬ (l = l + 1) := by omega
    simp [this]
  have rowL1 : ∀ x, x < n →
      (rotateRows M G l (l + 1)).get (l + 1) x = G.g10 * M.get l x + G.g11 * M.get (l + 1) x := by
    intro x hx
    rw [rotateRows_get M G m n l (l + 1) x hM hl hx]; simp
  have rowO : ∀ r, r ≠ l → r ≠ l + 1 → ∀ x, x < n → (rotateRows M G l (l + 1)).get r x = M.get r x := by
    intro r h1 h2 x hx
    rw [rotateRows_get M G m n l r x hM hl hx]; simp [h1, h2]
  have dUU := ho l l (by omega) (by omega)
  have dUV := ho l (l + 1) (by omega) hl
  have dVU := ho (l + 1) l hl (by omega)
  have dVV := ho (l + 1) (l + 1) hl hl
  have ne1 : ¬ (l = l + 1) := by omega
  have ne2 : ¬ (l + 1 = l) := by omega
  simp only [if_true, ne1, ne2, if_false] at dUU dUV dVU dVV
  obtain ⟨u1, u2, u3⟩ := hG
  have u4 := unitary_conj_orth ⟨u1, u2, u3⟩
  intro i i' hi hi'
  by_cases hil : i = l
  · subst hil
    by_cases hi'l : i' = i
    · subst hi'l
      rw [dotF_congr n _ _ _ _ rowL rowL, dotF_left, dotF_right, dotF_right, dUU, dUV, dVU, dVV]
      simp only [if_true, gq_mul_one, gq_mul_zero, gq_add_zero', gq_zero_add]
      exact u1
    · by_cases hi'l1 : i' = i + 1
      · subst hi'l1
        rw [dotF_congr n _ _ _ _ rowL rowL1, dotF_left, dotF_right, dotF_right, dUU, dUV, dVU, dVV]
        simp only [ne1, if_false, gq_mul_one, gq_mul_zero, gq_add_zero', gq_zero_add]
        exact u3
      · rw [dotF_congr n _ _ _ _ rowL (rowO i' hi'l hi'l1), dotF_left,
            ho i i' (by omega) hi', ho (i + 1) i' hl hi']
        have e1 : ¬ (i = i') := fun e => hi'l e.symm
        have e2 : ¬ (i + 1 = i') := fun e => hi'l1 e.symm
        simp only [e1, e2, if_false, gq_mul_zero, gq_add_zero]
  · by_cases hil1 : i = l + 1
    · subst hil1
      by_cases hi'l : i' = l
      · subst hi'l
        rw [dotF_congr n _ _ _ _ rowL1 rowL, dotF_left, dotF_right, dotF_right, dUU, dUV, dVU, dVV]
        simp only [ne2, if_false, gq_mul_one, gq_mul_zero, gq_add_zero', gq_zero_add]
        exact u4
      · by_cases hi'l1 : i' = l + 1
        · subst hi'l1
          rw [dotF_congr n _ _ _ _ rowL1 rowL1, dotF_left, dotF_right, dotF_right, dUU, dUV, dVU, dVV]
          simp only [if_true, gq_mul_one, gq_mul_zero, gq_add_zero', gq_zero_add]
          exact u2
        · rw [dotF_congr n _ _ _ _ rowL1 (rowO i' hi'l hi'l1), dotF_left,
              ho l i' (by omega) hi', ho (l + 1) i' hl hi']
          have e1 : ¬ (l = i') := fun e => hi'l e.symm
          have e2 : ¬ (l + 1 = i') := fun e => hi'l1 e.symm
          simp only [e1, e2, if_false, gq_mul_zero, gq_add_zero]
    · -- i is another row
      by_cases hi'l : i' = l
      · subst hi'l
        rw [dotF_congr n _ _ _ _ (rowO i hil hil1) rowL, dotF_right,
            ho i i' hi (by omega), ho i (i' + 1) hi hl]
        simp only [hil, hil1, if_false, gq_mul_zero, gq_add_zero]
      · by_cases hi'l1 : i' = l + 1
        · subst hi'l1
          rw [dotF_congr n _ _ _ _ (rowO i hil hil1) rowL1, dotF_right,
              ho i l hi (by omega), ho i (l + 1) hi hl]
          simp only [hil, hil1, if_false, gq_mul_zero, gq_add_zero]
        · rw [dotF_congr n _ _ _ _ (rowO i hil hil1) (rowO i' hi'l hi'l1)]
          exact ho i i' hi hi'

theorem givensElems_unitary (tol : Rat) (htol : 0 < tol) (a b : GQ) (right : Bool) (G : G2)
    (hexa : small tol a = true → a = 0) (hexb : small tol b = true → b = 0)
    (hreal : RealExact tol a b)
    (h : givensElems tol a b right = .ok G) : G.Unitary := by
  obtain ⟨c, s, ph, hC, hr, rfl⟩ := givensElems_inv hreal h
  exact assemble_unitary (cosSinPhase_spec htol hexa hexb hC) right _ hr

/-- the left-unitary stage keeps the rows of the matrix orthonormal -/
theorem leftStage_orthonormal (tol : Rat) (htol : 0 < tol) (m n : Nat) :
    ∀ (ps : List (Nat × Nat)) (M V M' V' : Mat),
      leftStage tol ps M V = .ok (M', V') → LeftExact tol ps M → Rect M m n →
      (∀ p ∈ ps, p.1 + 1 < m) → RowsOrthonormal M m n → RowsOrthonormal M' m n := by
  intro ps
  induction ps with
  | nil =>
    intro M V M' V' h _ _ _ ho
    simp [leftStage] at h
    obtain ⟨h1, _⟩ := h
    subst h1
    exact ho
  | cons p ps ih =>
    intro M V M' V' h hex hR hval ho
    obtain ⟨l, k⟩ := p
    obtain ⟨hs, hT, hF⟩ := hex
    have hl : l + 1 < m := hval (l, k) List.mem_cons_self
    have hvalps : ∀ p ∈ ps, p.1 + 1 < m := fun p hp => hval p (List.mem_cons_of_mem _ hp)
    unfold leftStage at h
    by_cases hb : big tol (M.get l k) = true
    · rw [if_pos hb] at h
      cases hG : givensElems tol (M.get l k) (M.get (l + 1) k) false with
      | error e => simp [hG, bind, Except.bind] at h
      | ok G =>
        simp only [hG, bind, Except.bind] at h
        have hU := givensElems_unitary tol htol _ _ false G hs.1 hs.2.1 hs.2.2.1 hG
        exact ih _ _ M' V' h (hT G hb hG) (rotateRows_rect hR G l hl) hvalps
          (rotateRows_orthonormal hR hU l hl ho)
    · have hb' : big tol (M.get l k) = false := by simpa using hb
      rw [if_neg hb] at h
      exact ih M V M' V' h (hF hb') hR hvalps ho

end C11
end Model
end OFV
