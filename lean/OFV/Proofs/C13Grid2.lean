/-
C13 — `Grid.all_points_indices()` enumerates every coordinate tuple inside the grid exactly once, and
`orbital_id` maps this enumeration bijectively onto `range(num_points)`; consequence for the index structure of
`plane_wave_kinetic`: one number operator per orbital.
-/
import OFV.Proofs.C13Grid
import Mathlib.Data.List.Perm.Basic
import Mathlib.Data.List.Nodup

set_option linter.unusedSimpArgs false
set_option linter.unusedVariables false

namespace OFV.C13
open OFV.Model OFV.Model.C13

/-- `itertools.product(range(l_0), range(l_1), …)` yields exactly the tuples inside the grid -/
theorem mem_allPoints (L cs : List Nat) : cs ∈ allPoints L ↔ List.Forall₂ (· < ·) cs L := by
  induction L generalizing cs with
  | nil =>
    simp only [allPoints, List.mem_singleton]
    constructor
    · rintro rfl; exact List.Forall₂.nil
    · intro h; cases h; rfl
  | cons l ls ih =>
    simp only [allPoints, List.mem_flatMap, List.mem_range, List.mem_map]
    constructor
    · rintro ⟨i, hi, r, hr, rfl⟩
      exact List.Forall₂.cons hi ((ih r).1 hr)
    · intro h
      cases h with
      | cons hi hr => exact ⟨_, hi, _, (ih _).2 hr, rfl⟩

/-- … each exactly once -/
theorem allPoints_nodup (L : List Nat) : (allPoints L).Nodup := by
  induction L with
  | nil => simp [allPoints]
  | cons l ls ih =>
    simp only [allPoints]
    rw [List.nodup_flatMap]
    refine ⟨fun i _ => ih.map (fun a b hab => (List.cons.inj hab).2), ?_⟩
    apply List.nodup_range.pairwise_of_forall_ne
    intro i _ j _ hne
    simp only [Function.onFun]
    intro b hb hb'
    simp only [List.mem_map] at hb hb'
    obtain ⟨r, _, rfl⟩ := hb
    obtain ⟨r', _, h⟩ := hb'
    exact hne (List.cons.inj h).1.symm

/-- coordinates inside the grid have `orbital_id < num_points` -/
theorem tensorFactor_lt (L cs : List Nat) (h : List.Forall₂ (· < ·) cs L) : tensorFactor L cs < numPoints L := by
  induction h with
  | nil => simp [tensorFactor_nil, numPoints, prodTake]
  | @cons c l cs ls hcl _ ih =>
    rw [tensorFactor_cons, numPoints_cons]
    have h1 : l * (tensorFactor ls cs + 1) ≤ l * numPoints ls := Nat.mul_le_mul_left l ih
    rw [Nat.mul_add, Nat.mul_one] at h1
    omega

/-- `orbital_id` is injective on the coordinates inside the grid -/
theorem tensorFactor_inj (L cs cs' : List Nat) (h : List.Forall₂ (· < ·) cs L) (h' : List.Forall₂ (· < ·) cs' L)
    (heq : tensorFactor L cs = tensorFactor L cs') : cs = cs' := by
  rw [← gridIndices_tensorFactor L cs h, ← gridIndices_tensorFactor L cs' h', heq]

/-- **`orbital_id ∘ all_points_indices` is a bijection onto `range(num_points)`** (spinless numbering) -/
theorem allPoints_orbital_perm (L : List Nat) :
    ((allPoints L).map (tensorFactor L)).Perm (List.range (numPoints L)) := by
  have hnd : ((allPoints L).map (tensorFactor L)).Nodup := by
    apply List.Nodup.map_on _ (allPoints_nodup L)
    intro a ha b hb hab
    exact tensorFactor_inj L a b ((mem_allPoints L a).1 ha) ((mem_allPoints L b).1 hb) hab
  rw [List.perm_ext_iff_of_nodup hnd List.nodup_range]
  intro q
  simp only [List.mem_map, List.mem_range]
  constructor
  · rintro ⟨cs, hcs, rfl⟩
    exact tensorFactor_lt L cs ((mem_allPoints L cs).1 hcs)
  · intro hq
    obtain ⟨h1, h2⟩ := tensorFactor_gridIndices L q hq
    exact ⟨gridIndices L q true, (mem_allPoints L _).2 h2, h1⟩

/-- the index structure of the spinless `plane_wave_kinetic`: its keys are the number operators of the orbitals
`0 … num_points - 1`, each exactly once, and the momentum attached to orbital `q` is
`index_to_momentum_ints(grid_indices(q))` -/
theorem kineticStruct_spinless_perm (L : List Nat) :
    (planeWaveKineticStruct L true).Perm
      ((List.range (numPoints L)).map fun q => ([(q, 1), (q, 0)], momentumInts L (gridIndices L q true))) := by
  have h1 : planeWaveKineticStruct L true =
      (allPoints L).map fun idx => ([(tensorFactor L idx, 1), (tensorFactor L idx, 0)], momentumInts L idx) := by
    simp [planeWaveKineticStruct, spins, orbitalId]
    exact (List.map_eq_flatMap).symm
  have h2 : (allPoints L).map (fun idx => (([(tensorFactor L idx, 1), (tensorFactor L idx, 0)], momentumInts L idx) : Term × List Int)) =
      ((allPoints L).map (tensorFactor L)).map
        (fun q => (([(q, 1), (q, 0)], momentumInts L (gridIndices L q true)) : Term × List Int)) := by
    rw [List.map_map]
    apply List.map_congr_left
    intro idx hidx
    simp only [Function.comp]
    rw [gridIndices_tensorFactor L idx ((mem_allPoints L idx).1 hidx)]
  rw [h1, h2]
  exact (allPoints_orbital_perm L).map _

end OFV.C13
