/- C11: applying the recorded column rotations to `Q` is right multiplication of `Q` by the matrix obtained by applying
them to the identity (`U†`): the decomposition "multiplies out". -/
import OFV.Model.C11
import OFV.Proofs.GQRing
import OFV.Proofs.C11Step
import OFV.Proofs.C11Sweep
import Mathlib.Algebra.BigOperators.Group.Finset.Basic
import Mathlib.Algebra.BigOperators.Ring.Finset
import Mathlib.Algebra.BigOperators.Group.Finset.Sigma

namespace OFV
namespace Model
namespace C11

open Finset

/-- apply a list of column rotations `(G, a, b)` in order -/
def applyCols : List (G2 × Nat × Nat) → Mat → Mat
  | [], M => M
  | (G, a, b) :: ops, M => applyCols ops (rotateCols M G a b)

theorem applyCols_rect {m n : Nat} : ∀ (ops : List (G2 × Nat × Nat)) (M : Mat), Rect M m n → Rect (applyCols ops M) m n := by
  intro ops
  induction ops with
  | nil => intro M h; exact h
  | cons op ops ih => intro M h; obtain ⟨G, a, b⟩ := op; exact ih _ (rotateCols_rect h G a b)

theorem identity_rect (n : Nat) : Rect (Mat.identity n) n n := by
  unfold Mat.identity Rect
  refine ⟨by simp, ?_⟩
  intro row h
  obtain ⟨i, _, rfl⟩ := List.mem_map.mp h
  simp

theorem identity_get (n y x : Nat) (hy : y < n) (hx : x < n) : (Mat.identity n).get y x = if y = x then 1 else 0 := by
  unfold Mat.identity Mat.get
  simp [List.getD_eq_getElem?_getD, hy, hx]

/-- one rotation: `rotateCols Q G a b = Q · rotateCols I G a b`, entrywise -/
theorem rotateCols_mul {m n : Nat} (Q : Mat) (hQ : Rect Q m n) (G : G2) (a b : Nat) (ha : a < n) (hb : b < n) (hab : a ≠ b)
    (i z : Nat) (hi : i < m) (hz : z < n) :
    (rotateCols Q G a b).get i z = ∑ y ∈ range n, Q.get i y * (rotateCols (Mat.identity n) G a b).get y z := by
  have hI := identity_rect n
  have eQ := rotateCols_get Q G a b i z (by rw [hQ.1]; exact hi) (by rw [rect_row_len hQ hi]; exact ha)
    (by rw [rect_row_len hQ hi]; exact hb) hab
  have eI : ∀ y ∈ range n, (rotateCols (Mat.identity n) G a b).get y z =
      if z = b then G.g10 * (if y = a then 1 else 0) + G.g11.conj * (if y = b then 1 else 0)
      else if z = a then G.g00 * (if y = a then 1 else 0) + G.g01.conj * (if y = b then 1 else 0)
      else (if y = z then 1 else 0) := by
    intro y hy
    have hy' := mem_range.mp hy
    rw [rotateCols_get (Mat.identity n) G a b y z (by rw [hI.1]; exact hy') (by rw [rect_row_len hI hy']; exact ha)
      (by rw [rect_row_len hI hy']; exact hb) hab, identity_get n y a hy' ha, identity_get n y b hy' hb,
      identity_get n y z hy' hz]
  rw [eQ, sum_congr rfl (fun y hy => by rw [eI y hy])]
  have ham : a ∈ range n := mem_range.mpr ha
  have hbm : b ∈ range n := mem_range.mpr hb
  have hzm : z ∈ range n := mem_range.mpr hz
  by_cases h1 : z = b
  · simp only [h1, if_true, mul_add, sum_add_distrib, mul_ite, mul_one, mul_zero]
    rw [sum_ite_eq', sum_ite_eq']
    simp only [ham, hbm, if_true]
    ring
  · by_cases h2 : z = a
    · subst h2
      simp only [h1, if_true, if_false, mul_add, sum_add_distrib, mul_ite, mul_one, mul_zero]
      rw [sum_ite_eq', sum_ite_eq']
      simp only [ham, hbm, if_true]
      ring
    · simp only [h1, h2, if_false, mul_ite, mul_one, mul_zero]
      rw [sum_ite_eq']
      simp [hzm]

/-- the whole list: `applyCols ops Q = Q · (applyCols ops I)`, entrywise -/
theorem applyCols_mul {n : Nat} : ∀ (ops : List (G2 × Nat × Nat)) (m : Nat) (Q : Mat), Rect Q m n →
    (∀ op ∈ ops, op.2.1 < n ∧ op.2.2 < n ∧ op.2.1 ≠ op.2.2) →
    ∀ i x, i < m → x < n →
      (applyCols ops Q).get i x = ∑ y ∈ range n, Q.get i y * (applyCols ops (Mat.identity n)).get y x := by
  intro ops
  induction ops with
  | nil =>
    intro m Q _ _ i x _ hx
    simp only [applyCols]
    rw [sum_congr rfl (fun y hy => by rw [identity_get n y x (mem_range.mp hy) hx]), ]
    simp only [mul_ite, mul_one, mul_zero]
    rw [sum_ite_eq']
    simp [hx]
  | cons op ops ih =>
    intro m Q hQ hval i x hi hx
    obtain ⟨G, a, b⟩ := op
    obtain ⟨ha, hb, hab⟩ := hval (G, a, b) List.mem_cons_self
    simp only at ha hb hab
    have hval' : ∀ op ∈ ops, op.2.1 < n ∧ op.2.2 < n ∧ op.2.1 ≠ op.2.2 := fun o ho => hval o (List.mem_cons_of_mem _ ho)
    simp only [applyCols]
    rw [ih m _ (rotateCols_rect hQ G a b) hval' i x hi hx]
    have step : ∀ y ∈ range n, (applyCols ops (rotateCols (Mat.identity n) G a b)).get y x =
        ∑ z ∈ range n, (rotateCols (Mat.identity n) G a b).get y z * (applyCols ops (Mat.identity n)).get z x :=
      fun y hy => ih n _ (rotateCols_rect (identity_rect n) G a b) hval' y x (mem_range.mp hy) hx
    have L : ∑ z ∈ range n, (rotateCols Q G a b).get i z * (applyCols ops (Mat.identity n)).get z x =
        ∑ z ∈ range n, ∑ y ∈ range n,
          Q.get i y * (rotateCols (Mat.identity n) G a b).get y z * (applyCols ops (Mat.identity n)).get z x := by
      apply sum_congr rfl
      intro z hz
      rw [rotateCols_mul Q hQ G a b ha hb hab i z hi (mem_range.mp hz), sum_mul]
    have Rr : ∑ y ∈ range n, Q.get i y * (applyCols ops (rotateCols (Mat.identity n) G a b)).get y x =
        ∑ y ∈ range n, ∑ z ∈ range n,
          Q.get i y * (rotateCols (Mat.identity n) G a b).get y z * (applyCols ops (Mat.identity n)).get z x := by
      apply sum_congr rfl
      intro y hy
      rw [step y hy, mul_sum]
      apply sum_congr rfl; intro z _; ring
    rw [L, Rr, sum_comm]

/-- the elementary operation described by a recorded rotation `(i, j, θ, φ)`: the docstring matrix
`[[cos θ, -e^{iφ} sin θ], [sin θ, e^{iφ} cos θ]]` on columns `i, j` -/
def Rot.toOp (r : Rot) : G2 × Nat × Nat := (rotationOf r.sin r.cos r.eiphi, r.i, r.j)

theorem rotateCols_congr (M : Mat) {G H : G2} (h : G.SameEntries H) (a b : Nat) : rotateCols M G a b = rotateCols M H a b := by
  obtain ⟨h1, h2, h3, h4⟩ := h
  unfold rotateCols
  rw [h1, h2, h3, h4]

theorem params_same (tol : Rat) (htol : 0 < tol) (a b : GQ) (right : Bool) (G : G2) (s c : Rat) (e : GQ)
    (hexa : small tol a = true → a = 0) (hexb : small tol b = true → b = 0)
    (hreal : RealExact tol a b)
    (h : givensElems tol a b right = .ok G) (hp : params G = .ok (s, c, e)) : (rotationOf s c e).SameEntries G := by
  obtain ⟨c', s', ph, hC, hr, rfl⟩ := givensElems_inv hreal h
  exact params_assemble (cosSinPhase_spec htol hexa hexb hC) right _ hr hp

/-- in the exact regime the matrix after a layer is obtained by applying the RECORDED rotations -/
theorem colLayer_applied (tol : Rat) (htol : 0 < tol) (ai : Bool) :
    ∀ (ps : List (Nat × Nat)) (M : Mat) (rs : List Rot) (M' : Mat),
      colLayer tol ai ps M = .ok (rs, M') → LayerExact tol ai ps M → M' = applyCols (rs.map Rot.toOp) M := by
  intro ps
  induction ps with
  | nil =>
    intro M rs M' h _
    simp [colLayer] at h
    obtain ⟨h1, h2⟩ := h
    subst h1; subst h2
    rfl
  | cons p ps ih =>
    intro M rs M' h hex
    obtain ⟨i, j⟩ := p
    obtain ⟨hstep, hexT, hexF⟩ := hex
    unfold colLayer at h
    simp only at h
    by_cases hc : (ai || big tol (M.get i j).conj) = true
    · rw [if_pos hc] at h
      cases hG : givensElems tol (M.get i (j - 1)).conj (M.get i j).conj true with
      | error e => simp [hG, bind, Except.bind] at h
      | ok G =>
        cases hP : params G with
        | error e => simp [hG, hP, bind, Except.bind] at h
        | ok t =>
          obtain ⟨s, c, e⟩ := t
          cases hRec : colLayer tol ai ps (rotateCols M G (j - 1) j) with
          | error e => simp [hG, hP, hRec, bind, Except.bind] at h
          | ok t2 =>
            obtain ⟨rs2, M2⟩ := t2
            simp only [hG, hP, hRec, bind, Except.bind] at h
            injection h with h
            injection h with h1 h2
            subst h1; subst h2
            have hsame := params_same tol htol _ _ true G s c e hstep.1 hstep.2.1 hstep.2.2.1 hG hP
            have := ih _ _ _ hRec (hexT G hc hG)
            simp only [List.map_cons, Rot.toOp, applyCols]
            rw [rotateCols_congr M hsame (j - 1) j]
            exact this
    · have hc' : (ai || big tol (M.get i j).conj) = false := by simpa using hc
      rw [if_neg hc] at h
      exact ih _ _ _ h (hexF hc')

theorem applyCols_append (ops1 ops2 : List (G2 × Nat × Nat)) (M : Mat) :
    applyCols (ops1 ++ ops2) M = applyCols ops2 (applyCols ops1 M) := by
  induction ops1 generalizing M with
  | nil => rfl
  | cons op ops ih => obtain ⟨G, a, b⟩ := op; simp only [List.cons_append, applyCols]; exact ih _

/-- … and after the whole sweep: the rotations of all returned layers, in order -/
theorem colSweep_applied (tol : Rat) (htol : 0 < tol) (ai : Bool) (layerOf : Nat → List (Nat × Nat)) :
    ∀ (ks : List Nat) (M : Mat) (ls : List (List Rot)) (M' : Mat),
      colSweep tol layerOf ai ks M = .ok (ls, M') → SweepExact tol ai layerOf ks M →
      M' = applyCols (ls.flatten.map Rot.toOp) M := by
  intro ks
  induction ks with
  | nil =>
    intro M ls M' h _
    simp [colSweep] at h
    obtain ⟨h1, h2⟩ := h
    subst h1; subst h2
    rfl
  | cons k ks ih =>
    intro M ls M' h hex
    obtain ⟨hexL, hexS⟩ := hex
    unfold colSweep at h
    cases hL : colLayer tol ai (layerOf k) M with
    | error e => simp [hL, bind, Except.bind] at h
    | ok t =>
      obtain ⟨ops, M1⟩ := t
      cases hS : colSweep tol layerOf ai ks M1 with
      | error e => simp [hL, hS, bind, Except.bind] at h
      | ok t2 =>
        obtain ⟨ls2, M2⟩ := t2
        simp only [hL, hS, bind, Except.bind] at h
        injection h with h
        injection h with h1 h2
        subst h2
        have e1 := colLayer_applied tol htol ai _ _ _ _ hL hexL
        have e2 := ih _ _ _ hS (hexS ops M1 hL)
        have hflat : ls.flatten = ops ++ ls2.flatten := by
          rw [← h1]
          by_cases hemp : ops.isEmpty = true
          · have : ops = [] := List.isEmpty_iff.mp hemp
            simp [this]
          · simp [hemp]
        rw [hflat, List.map_append, applyCols_append, ← e1]
        exact e2

end C11
end Model
end OFV
