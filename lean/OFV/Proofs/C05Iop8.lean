/-
`_bravyi_kitaev_interaction_operator` is sound: the loops denote the tensor formula
`const + Σ T1[p,q] a†_p a_q + Σ T2[p,q,r,s] a†_p a†_q a_r a_s` under the encoding, for every `n_qubits ≥ N`.
-/
import OFV.Proofs.C05Iop7

set_option linter.unusedSimpArgs false
set_option linter.unusedVariables false

namespace OFV
namespace BK
open Model Model.C05 Spec Sem

/-- two-body coefficient times the normal-ordered monomial -/
def Gf (T2 : Nat → Nat → Nat → Nat → GQ) (m x : Nat) (p q r s : Nat) : GQ :=
  twoBodyCoef T2 p q r s * termCoef .fermion [(p, 1), (q, 1), (r, 0), (s, 0)] [m] [x]

theorem tbc_swap12 (T2 : Nat → Nat → Nat → Nat → GQ) (p q r s : Nat) :
    twoBodyCoef T2 q p r s = -twoBodyCoef T2 p q r s := by unfold twoBodyCoef; ring
theorem tbc_swap34 (T2 : Nat → Nat → Nat → Nat → GQ) (p q r s : Nat) :
    twoBodyCoef T2 p q s r = -twoBodyCoef T2 p q r s := by unfold twoBodyCoef; ring

theorem Gf_s12 (T2 : Nat → Nat → Nat → Nat → GQ) (m x p q r s : Nat) : Gf T2 m x q p r s = Gf T2 m x p q r s := by
  unfold Gf
  by_cases h : p = q
  · subst h; rfl
  · rw [tbc_swap12, tC_swap12 q p (r, 0) (s, 0) m x (Ne.symm h)]; ring

theorem Gf_s34 (T2 : Nat → Nat → Nat → Nat → GQ) (m x p q r s : Nat) : Gf T2 m x p q s r = Gf T2 m x p q r s := by
  unfold Gf
  by_cases h : r = s
  · subst h; rfl
  · rw [tbc_swap34, tC_swap34 (p, 1) (q, 1) s r m x (Ne.symm h)]; ring

/-- the two-body part of the tensor formula as a sum over `p > q`, `r > s` of antisymmetrised terms -/
theorem twoBody_ordered (N : Nat) (T2 : Nat → Nat → Nat → Nat → GQ) (m x : Nat) :
    ((List.range N).map fun p => ((List.range N).map fun q => ((List.range N).map fun r =>
        ((List.range N).map fun s =>
          T2 p q r s * termCoef .fermion [(p, 1), (q, 1), (r, 0), (s, 0)] [m] [x]).sum).sum).sum).sum
      = ((List.range N).map fun p => ((List.range p).map fun q => ((List.range N).map fun r =>
          ((List.range r).map fun s => Gf T2 m x p q r s).sum).sum).sum).sum := by
  rw [sum_square (fun p q => ((List.range N).map fun r => ((List.range N).map fun s =>
      T2 p q r s * termCoef .fermion [(p, 1), (q, 1), (r, 0), (s, 0)] [m] [x]).sum).sum) N]
  have hz : ((List.range N).map fun p => ((List.range N).map fun r => ((List.range N).map fun s =>
      T2 p p r s * termCoef .fermion [(p, 1), (p, 1), (r, 0), (s, 0)] [m] [x]).sum).sum).sum = 0 := by
    apply sum_zero_map; intro p _
    apply sum_zero_map; intro r _
    apply sum_zero_map; intro s _
    rw [tC_four_zero_create]; ring
  rw [hz, zero_add]
  congr 1; apply List.map_congr_left; intro p hp
  congr 1; apply List.map_congr_left; intro q hq
  rw [List.mem_range] at hq
  have hpq : p ≠ q := by omega
  rw [← sum_add_map]
  have e : ((List.range N).map fun r => ((List.range N).map fun s =>
        T2 p q r s * termCoef .fermion [(p, 1), (q, 1), (r, 0), (s, 0)] [m] [x]).sum
        + ((List.range N).map fun s => T2 q p r s * termCoef .fermion [(q, 1), (p, 1), (r, 0), (s, 0)] [m] [x]).sum).sum
      = ((List.range N).map fun r => ((List.range N).map fun s =>
        (T2 p q r s * termCoef .fermion [(p, 1), (q, 1), (r, 0), (s, 0)] [m] [x]
          + T2 q p r s * termCoef .fermion [(q, 1), (p, 1), (r, 0), (s, 0)] [m] [x])).sum).sum := by
    congr 1; apply List.map_congr_left; intro r _; rw [← sum_add_map]
  rw [e, sum_square (fun r s => T2 p q r s * termCoef .fermion [(p, 1), (q, 1), (r, 0), (s, 0)] [m] [x]
          + T2 q p r s * termCoef .fermion [(q, 1), (p, 1), (r, 0), (s, 0)] [m] [x]) N]
  have hz2 : ((List.range N).map fun r =>
      T2 p q r r * termCoef .fermion [(p, 1), (q, 1), (r, 0), (r, 0)] [m] [x]
        + T2 q p r r * termCoef .fermion [(q, 1), (p, 1), (r, 0), (r, 0)] [m] [x]).sum = 0 := by
    apply sum_zero_map; intro r _
    rw [tC_four_zero_ann, tC_four_zero_ann]; ring
  rw [hz2, zero_add]
  congr 1; apply List.map_congr_left; intro r _
  congr 1; apply List.map_congr_left; intro s hs
  rw [List.mem_range] at hs
  have hrs : r ≠ s := by omega
  unfold Gf twoBodyCoef
  rw [tC_swap12 q p (r, 0) (s, 0) m x (Ne.symm hpq), tC_swap34 (p, 1) (q, 1) s r m x (Ne.symm hrs),
    tC_swap12 q p (s, 0) (r, 0) m x (Ne.symm hpq), tC_swap34 (p, 1) (q, 1) s r m x (Ne.symm hrs)]
  ring

/-! ### the monomials of the loops in normal order -/

theorem tc_nn (i j m x : Nat) (h : i ≠ j) :
    termCoef .fermion [(i, 1), (i, 0), (j, 1), (j, 0)] [m] [x] = termCoef .fermion [(i, 1), (j, 1), (j, 0), (i, 0)] [m] [x] := by
  have e1 := tC_swap [(i, 1)] [(j, 0)] (i, 0) (j, 1) h m x
  have e2 := tC_swap [(i, 1), (j, 1)] [] (i, 0) (j, 0) h m x
  simp only [List.cons_append, List.nil_append] at e1 e2
  rw [e1, e2]; simp

theorem tc_nexc (i j k m x : Nat) (hj : i ≠ j) (hk : i ≠ k) :
    termCoef .fermion [(i, 1), (i, 0), (j, 1), (k, 0)] [m] [x] = termCoef .fermion [(i, 1), (j, 1), (k, 0), (i, 0)] [m] [x] := by
  have e1 := tC_swap [(i, 1)] [(k, 0)] (i, 0) (j, 1) hj m x
  have e2 := tC_swap [(i, 1), (j, 1)] [] (i, 0) (k, 0) hk m x
  simp only [List.cons_append, List.nil_append] at e1 e2
  rw [e1, e2]; simp

theorem tc_dbl (a b c d m x : Nat) (h : c ≠ b) :
    termCoef .fermion [(a, 1), (c, 0), (b, 1), (d, 0)] [m] [x] = -termCoef .fermion [(a, 1), (b, 1), (c, 0), (d, 0)] [m] [x] := by
  have e1 := tC_swap [(a, 1)] [(d, 0)] (c, 0) (b, 1) h m x
  simp only [List.cons_append, List.nil_append] at e1
  rw [e1]

theorem conj_neg' (a : GQ) : (-a).conj = -a.conj := by apply GQ.ext <;> simp [GQ.conj]

theorem validT2 (n a b : Nat) (x y : Nat) (ha : a < n) (hb : b < n) (hx : x ≤ 1) (hy : y ≤ 1) :
    ValidT n [(a, x), (b, y)] := by
  intro f hf
  simp only [List.mem_cons, List.not_mem_nil, or_false] at hf
  rcases hf with rfl | rfl <;> exact ⟨by assumption, by assumption⟩

theorem validT4 (n a b c d : Nat) (x y z w : Nat) (ha : a < n) (hb : b < n) (hc : c < n) (hd : d < n)
    (hx : x ≤ 1) (hy : y ≤ 1) (hz : z ≤ 1) (hw : w ≤ 1) : ValidT n [(a, x), (b, y), (c, z), (d, w)] := by
  intro f hf
  simp only [List.mem_cons, List.not_mem_nil, or_false] at hf
  rcases hf with rfl | rfl | rfl | rfl <;> exact ⟨by assumption, by assumption⟩

/-- **the fermionic content of the loops is the tensor formula** (Hermitian one-body tensor, antisymmetrised
two-body tensor Hermitian: the operator is Hermitian; no element-wise condition on the storage) -/
theorem iopActS_fermion (N nq : Nat) (hN : N ≤ nq) (const : GQ) (one two : List GQ)
    (h1 : ∀ p q, p < N → q < N → C05.get1 N one q p = (C05.get1 N one p q).conj)
    (hK : ∀ p q r s, p < N → q < N → r < N → s < N →
      twoBodyCoef (C05.get2 N two) r s p q = (twoBodyCoef (C05.get2 N two) p q r s).conj) (s s' : Nat) :
    iopActS nq N const (C05.get1 N one) (C05.get2 N two) s (Vx nq (Spec.C05.enc .bk nq s'))
      = den .fermion (Spec.C04.interactionOp N const one two) [s] [s'] := by
  rw [den_interactionOp]
  generalize hT1 : C05.get1 N one = T1 at *
  generalize hT2 : C05.get2 N two = T2 at *
  have hT1' : C04.get1 N one = T1 := hT1
  have hT2' : C04.get2 N two = T2 := hT2
  rw [hT1', hT2']
  set V := Vx nq (Spec.C05.enc .bk nq s') with hV
  have tr2 : ∀ a b x y, a < N → b < N → x ≤ 1 → y ≤ 1 →
      encActS nq [(a, x), (b, y)] s V = termCoef .fermion [(a, x), (b, y)] [s] [s'] :=
    fun a b x y ha hb hx hy => encActS_tC nq _ (validT2 nq a b x y (by omega) (by omega) hx hy) s s'
  have tr4 : ∀ a b c d x y z w, a < N → b < N → c < N → d < N → x ≤ 1 → y ≤ 1 → z ≤ 1 → w ≤ 1 →
      encActS nq [(a, x), (b, y), (c, z), (d, w)] s V = termCoef .fermion [(a, x), (b, y), (c, z), (d, w)] [s] [s'] :=
    fun a b c d x y z w ha hb hc hd hx hy hz hw =>
      encActS_tC nq _ (validT4 nq a b c d x y z w (by omega) (by omega) (by omega) (by omega) hx hy hz hw) s s'
  -- constant
  have e0 : const * V s = const * (if s = s' then 1 else 0) := by
    rw [hV]; simp only [Vx, δ]
    by_cases h : s = s'
    · subst h; simp
    · have : ¬ Spec.C05.enc .bk nq s = Spec.C05.enc .bk nq s' := fun he => h (enc_injective nq _ _ he)
      simp [h, this]
  -- one-body part
  have e1 : ((List.range N).map fun i => T1 i i * encActS nq [(i, 1), (i, 0)] s V).sum
        + ((List.range N).map fun i => ((List.range i).map fun j =>
            T1 i j * encActS nq [(i, 1), (j, 0)] s V + (T1 i j).conj * encActS nq [(j, 1), (i, 0)] s V).sum).sum
      = ((List.range N).map fun p => ((List.range N).map fun q =>
            T1 p q * termCoef .fermion [(p, 1), (q, 0)] [s] [s']).sum).sum := by
    rw [sum_square (fun p q => T1 p q * termCoef .fermion [(p, 1), (q, 0)] [s] [s']) N]
    congr 1
    · congr 1; apply List.map_congr_left; intro i hi
      rw [List.mem_range] at hi
      rw [tr2 i i 1 0 hi hi (by omega) (by omega)]
    · congr 1; apply List.map_congr_left; intro i hi
      congr 1; apply List.map_congr_left; intro j hj
      rw [List.mem_range] at hi hj
      rw [tr2 i j 1 0 hi (by omega) (by omega) (by omega), tr2 j i 1 0 (by omega) hi (by omega) (by omega),
        h1 i j hi (by omega)]
  -- Coulomb / exchange
  have eB : ((List.range N).map fun i => ((List.range i).map fun j =>
        twoBodyCoef T2 i j j i * encActS nq [(i, 1), (i, 0), (j, 1), (j, 0)] s V).sum).sum
      = ((List.range N).map fun i => ((List.range i).map fun j => Gf T2 s s' i j i j).sum).sum := by
    congr 1; apply List.map_congr_left; intro i hi
    congr 1; apply List.map_congr_left; intro j hj
    rw [List.mem_range] at hi hj
    rw [tr4 i i j j 1 0 1 0 hi hi (by omega) (by omega) (by omega) (by omega) (by omega) (by omega),
      tc_nn i j s s' (by omega), Gf_s34 T2 s s' i j j i]
    rfl
  -- number-excitation
  have eC : ((List.range N).map fun i => ((List.range N).map fun j => ((List.range j).map fun k =>
        if i != j && i != k then
          twoBodyCoef T2 i j k i * encActS nq [(i, 1), (i, 0), (j, 1), (k, 0)] s V
            + (twoBodyCoef T2 i j k i).conj * encActS nq [(i, 1), (i, 0), (k, 1), (j, 0)] s V
        else 0).sum).sum).sum
      = ((List.range N).map fun i => ((List.range N).map fun j => ((List.range j).map fun k =>
          if i != j && i != k then Gf T2 s s' i j k i + Gf T2 s s' i k j i else 0).sum).sum).sum := by
    congr 1; apply List.map_congr_left; intro i hi
    congr 1; apply List.map_congr_left; intro j hj
    congr 1; apply List.map_congr_left; intro k hk
    rw [List.mem_range] at hi hj hk
    by_cases hc : (i != j && i != k) = true
    · simp only [hc, if_true]
      have hij : i ≠ j := by simp at hc; exact hc.1
      have hik : i ≠ k := by simp at hc; exact hc.2
      rw [tr4 i i j k 1 0 1 0 hi hi hj (by omega) (by omega) (by omega) (by omega) (by omega),
        tr4 i i k j 1 0 1 0 hi hi (by omega) hj (by omega) (by omega) (by omega) (by omega),
        tc_nexc i j k s s' hij hik, tc_nexc i k j s s' hik hij, ← hK i j k i hi hj (by omega) hi]
      have : twoBodyCoef T2 k i i j = twoBodyCoef T2 i k j i := by unfold twoBodyCoef; ring
      rw [this]; rfl
    · simp only [hc, if_false, Bool.false_eq_true]
  -- double excitation
  have eH : ∀ a b c d, a < N → b < N → c < N → d < N → c ≠ b → a ≠ d →
      hobAct nq a b c d (-(twoBodyCoef T2 a b c d)) s V = Gf T2 s s' a b c d + Gf T2 s s' c d a b := by
    intro a b c d ha hb hc hd hcb had
    unfold hobAct
    rw [tr4 a c b d 1 0 1 0 ha hc hb hd (by omega) (by omega) (by omega) (by omega),
      tr4 c a d b 1 0 1 0 hc ha hd hb (by omega) (by omega) (by omega) (by omega),
      tc_dbl a b c d s s' hcb, tc_dbl c d a b s s' had, conj_neg', ← hK a b c d ha hb hc hd]
    unfold Gf; ring
  have eD : ((List.range N).map fun i => ((List.range i).map fun j => ((List.range j).map fun k =>
        ((List.range k).map fun l =>
          hobAct nq i j k l (-(twoBodyCoef T2 i j k l)) s V + hobAct nq i k j l (-(twoBodyCoef T2 i k j l)) s V
            + hobAct nq i l j k (-(twoBodyCoef T2 i l j k)) s V).sum).sum).sum).sum
      = ((List.range N).map fun i => ((List.range i).map fun j => ((List.range j).map fun k =>
          ((List.range k).map fun l =>
            (Gf T2 s s' i j k l + Gf T2 s s' k l i j) + (Gf T2 s s' i k j l + Gf T2 s s' j l i k)
              + (Gf T2 s s' i l j k + Gf T2 s s' j k i l)).sum).sum).sum).sum := by
    congr 1; apply List.map_congr_left; intro i hi
    congr 1; apply List.map_congr_left; intro j hj
    congr 1; apply List.map_congr_left; intro k hk
    congr 1; apply List.map_congr_left; intro l hl
    rw [List.mem_range] at hi hj hk hl
    rw [eH i j k l hi (by omega) (by omega) (by omega) (by omega) (by omega),
      eH i k j l hi (by omega) (by omega) (by omega) (by omega) (by omega),
      eH i l j k hi (by omega) (by omega) (by omega) (by omega) (by omega)]
  have e4 := sum_four (Gf T2 s s') (Gf_s12 T2 s s') (Gf_s34 T2 s s') N
  rw [twoBody_ordered N T2 s s', e4, ← eB, ← eC, ← eD, ← e1, ← e0]
  unfold iopActS
  simp only [sum_add_map]
  ring

theorem encActS_zero (n : Nat) (t : List (Nat × Nat)) (s : Nat) : encActS n t s (fun _ => 0) = 0 := by
  unfold encActS
  cases actTermS (actBK n) t s with
  | none => rfl
  | some cs => obtain ⟨c, s'⟩ := cs; simp

theorem iopActS_zero (n N : Nat) (const : GQ) (T1 : Nat → Nat → GQ) (T2 : Nat → Nat → Nat → Nat → GQ) (s : Nat) :
    iopActS n N const T1 T2 s (fun _ => 0) = 0 := by
  unfold iopActS hobAct
  simp only [encActS_zero, mul_zero, add_zero, ite_self, List.map_const', List.sum_replicate, smul_zero]

/-- **`_bravyi_kitaev_interaction_operator` is sound** (den form, any target basis state) -/
theorem bkIop_sound (tol : Rat) (htol : tol * tol ≤ 1 / 4) (N nq : Nat) (hN : N ≤ nq) (const : GQ) (one two : List GQ)
    (h1 : ∀ p q, p < N → q < N → C05.get1 N one q p = (C05.get1 N one p q).conj)
    (hK : ∀ p q r s, p < N → q < N → r < N → s < N →
      twoBodyCoef (C05.get2 N two) r s p q = (twoBodyCoef (C05.get2 N two) p q r s).conj)
    (hok : bkInteractionOpOk tol N nq const one two = true) (s s' : Nat) :
    den .qubit (bkInteractionOp tol N nq const one two) [Spec.C05.enc .bk nq s] [Spec.C05.enc .bk nq s']
      = den .fermion (Spec.C04.interactionOp N const one two) [s] [s'] := by
  rw [bkIop_den tol htol N nq hN const one two hok, iopActS_fermion N nq hN const one two h1 hK]

theorem bkIop_support (tol : Rat) (htol : tol * tol ≤ 1 / 4) (N nq : Nat) (hN : N ≤ nq) (const : GQ) (one two : List GQ)
    (hok : bkInteractionOpOk tol N nq const one two = true) (s x : Nat) (hx : ∀ s', Spec.C05.enc .bk nq s' ≠ x) :
    den .qubit (bkInteractionOp tol N nq const one two) [Spec.C05.enc .bk nq s] [x] = 0 := by
  rw [bkIop_den tol htol N nq hN const one two hok]
  have : Vx nq x = fun _ => 0 := by
    funext s'; simp only [Vx, δ]; simp [hx s']
  rw [this, iopActS_zero]

end BK
end OFV
