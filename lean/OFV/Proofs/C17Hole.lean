/- C17: the 1-hole-RDM obtained by contracting the 2-hole-RDM agrees with `eye - opdm.T`
(for every 1-RDM / 2-RDM pair satisfying the trace and contraction conditions of an N-particle state,
complex and non-symmetric 1-RDMs included). -/
import OFV.Model.C17
import OFV.Proofs.C17Rdm
import Mathlib.Algebra.BigOperators.Group.Finset.Basic
import Mathlib.Algebra.BigOperators.Ring.Finset
import Mathlib.Tactic.Ring
import Mathlib.Tactic.Linarith
import Mathlib.Tactic.FieldSimp
import Mathlib.Algebra.Order.Field.Rat

namespace OFV
namespace Model
namespace C17

open Finset

theorem gsum_cons (x : GQ) (l : List GQ) : gsum (x :: l) = x + gsum l := rfl

theorem gsum_append_single (l : List GQ) (x : GQ) :
    (gsum (l ++ [x])).re = (gsum l).re + x.re ∧ (gsum (l ++ [x])).im = (gsum l).im + x.im := by
  induction l with
  | nil => simp [gsum]
  | cons y l ih =>
    simp only [List.cons_append, gsum_cons, GQ.add_re, GQ.add_im, ih.1, ih.2]
    constructor <;> ring

theorem gsumRange_parts (f : Nat → GQ) : ∀ n,
    (gsumRange n f).re = ∑ r ∈ range n, (f r).re ∧ (gsumRange n f).im = ∑ r ∈ range n, (f r).im := by
  intro n
  induction n with
  | zero => simp [gsumRange, gsum]
  | succ n ih =>
    unfold gsumRange at ih ⊢
    rw [List.range_succ, List.map_append, List.map_singleton]
    obtain ⟨h1, h2⟩ := gsum_append_single ((List.range n).map f) (f n)
    rw [h1, h2, ih.1, ih.2, sum_range_succ, sum_range_succ]
    exact ⟨rfl, rfl⟩

theorem mul_delta (z : GQ) (i j : Nat) : z * delta i j = if i = j then z else 0 := by
  unfold delta
  by_cases h : i = j <;> simp [h] <;> refine GQ.ext ?_ ?_ <;> simp

theorem delta_mul_delta (i j k l : Nat) : delta i j * delta k l = if i = j ∧ k = l then 1 else 0 := by
  unfold delta
  by_cases h : i = j <;> by_cases h' : k = l <;> simp [h, h'] <;> refine GQ.ext ?_ ?_ <;> simp

theorem delta_self (i : Nat) : delta i i = 1 := by simp [delta]

theorem neg_one_mul_gq' (z : GQ) : (-1 : GQ) * z = -z := by refine GQ.ext ?_ ?_ <;> simp

theorem ite_re (c : Prop) [Decidable c] (z : GQ) : (if c then z else 0).re = if c then z.re else 0 := by
  by_cases h : c <;> simp [h]
theorem ite_im (c : Prop) [Decidable c] (z : GQ) : (if c then z else 0).im = if c then z.im else 0 := by
  by_cases h : c <;> simp [h]

/-- the integrand of the contraction, entry by entry -/
theorem hole_integrand (tpdm : C4) (opdm : C2) (p q r : Nat) :
    (twoPdmToTwoHole tpdm opdm p r r q).re =
      (tpdm q r r p).re - (opdm q p).re - (if q = p then (opdm r r).re else 0) + (if q = r then (opdm r p).re else 0)
        + (if p = r then (opdm q r).re else 0) - (if q = r then (if p = r then (1 : Rat) else 0) else 0)
        + (if q = p then (1 : Rat) else 0) ∧
    (twoPdmToTwoHole tpdm opdm p r r q).im =
      (tpdm q r r p).im - (opdm q p).im - (if q = p then (opdm r r).im else 0) + (if q = r then (opdm r p).im else 0)
        + (if p = r then (opdm q r).im else 0) := by
  unfold twoPdmToTwoHole term123 delta
  by_cases h1 : q = p <;> by_cases h2 : q = r <;> by_cases h3 : p = r <;>
    simp [h1, h2, h3, eq_comm] <;> (try constructor) <;> (try ring) <;> (try omega)

/-- contraction of the two-hole map = `(holes - 1) · (eye - opdm.T)`, entrywise, for every pair `(tpdm, opdm)` with
`tr opdm = N` and `Σ_r tpdm[p,r,r,q] = (N - 1) opdm[p,q]` -/
theorem two_hole_contraction (n : Nat) (N : Rat) (tpdm : C4) (opdm : C2)
    (htr : gsumRange n (fun r => opdm r r) = ⟨N, 0⟩)
    (hc : ∀ p q, p < n → q < n → gsumRange n (fun r => tpdm p r r q) = GQ.smul (N - 1) (opdm p q))
    (p q : Nat) (hp : p < n) (hq : q < n) :
    gsumRange n (fun r => twoPdmToTwoHole tpdm opdm p r r q) = GQ.smul ((n : Rat) - N - 1) (oneMinus opdm p q) := by
  have hc' := hc q p hq hp
  have c1 := (gsumRange_parts (fun r => tpdm q r r p) n).1
  have c2 := (gsumRange_parts (fun r => tpdm q r r p) n).2
  have t1 := (gsumRange_parts (fun r => opdm r r) n).1
  have t2 := (gsumRange_parts (fun r => opdm r r) n).2
  rw [hc'] at c1 c2
  rw [htr] at t1 t2
  simp only [GQ.smul] at c1 c2
  have hqm : q ∈ range n := mem_range.mpr hq
  have hpm : p ∈ range n := mem_range.mpr hp
  obtain ⟨g1, g2⟩ := gsumRange_parts (fun r => twoPdmToTwoHole tpdm opdm p r r q) n
  have s1 : ∑ r ∈ range n, (if q = r then (opdm r p).re else 0) = (opdm q p).re := by
    rw [sum_ite_eq]; simp [hqm]
  have s2 : ∑ r ∈ range n, (if p = r then (opdm q r).re else 0) = (opdm q p).re := by
    rw [sum_ite_eq]; simp [hpm]
  have s3 : ∑ r ∈ range n, (if q = r then (if p = r then (1 : Rat) else 0) else 0) = if p = q then 1 else 0 := by
    rw [sum_ite_eq]; simp [hqm]
  have s4 : ∑ r ∈ range n, (if q = r then (opdm r p).im else 0) = (opdm q p).im := by
    rw [sum_ite_eq]; simp [hqm]
  have s5 : ∑ r ∈ range n, (if p = r then (opdm q r).im else 0) = (opdm q p).im := by
    rw [sum_ite_eq]; simp [hpm]
  refine GQ.ext ?_ ?_
  · rw [g1, sum_congr rfl (fun r _ => (hole_integrand tpdm opdm p q r).1)]
    simp only [sum_add_distrib, sum_sub_distrib, s1, s2, s3, sum_const, card_range, nsmul_eq_mul]
    show _ = ((n : Rat) - N - 1) * (delta p q - opdm q p).re
    by_cases h : q = p
    · subst h
      simp only [if_true, delta, GQ.sub_re, GQ.one_re]
      rw [← c1, ← t1]; ring
    · have h' : ¬ p = q := fun e => h e.symm
      simp only [h, h', if_false, delta, GQ.sub_re, GQ.zero_re, sum_const_zero]
      rw [← c1]; ring
  · rw [g2, sum_congr rfl (fun r _ => (hole_integrand tpdm opdm p q r).2)]
    simp only [sum_add_distrib, sum_sub_distrib, s4, s5, sum_const, card_range, nsmul_eq_mul]
    show _ = ((n : Rat) - N - 1) * (delta p q - opdm q p).im
    by_cases h : q = p
    · subst h
      simp only [if_true, delta, GQ.sub_im, GQ.one_im]
      rw [← c2, ← t2]; ring
    · have h' : ¬ p = q := fun e => h e.symm
      simp only [h, h', if_false, delta, GQ.sub_im, GQ.zero_im, sum_const_zero]
      rw [← c2]; ring

end C17
end Model
end OFV
