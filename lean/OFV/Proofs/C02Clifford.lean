/- C02 — `_majorana_terms_commute` against the Spec Majorana action (`actM` on bit masks),
using the shared soundness lemma of `_merge_majorana_terms` (OFV.Proofs.C01Majorana). -/
import OFV.Proofs.C01Majorana
import OFV.Proofs.C02Majorana

namespace OFV
namespace Proofs
namespace C02
open Model Spec

theorem stepM_phase_lt (m : Nat) (x : Nat × Nat) : (stepM m x).1 < 4 := by
  simp only [stepM]; exact Nat.mod_lt _ (by omega)

theorem foldr_stepM_phase_lt (t : List Nat) (x : Nat × Nat) (hx : x.1 < 4) : (t.foldr stepM x).1 < 4 := by
  cases t with
  | nil => simpa using hx
  | cons m r => simp only [List.foldr]; exact stepM_phase_lt _ _

theorem shift_zero_of_lt (x : Nat × Nat) (h : x.1 < 4) : shift 0 x = x := by
  simp [shift, Nat.mod_eq_of_lt h]

/-- `γ_a γ_b |s⟩ = (-1)^{parity(a,b)} γ_{merge(a,b)} |s⟩` -/
theorem actMTerm_append (a b : List Nat) (ha : a.Pairwise (· < ·)) (s : Nat) :
    actMTerm (a ++ b) s = shift (2 * (mergeM a b).2) (actMTerm (mergeM a b).1 s) := by
  have h := mergeM_sound a b ha (0, s)
  rw [shift_zero_of_lt _ (foldr_stepM_phase_lt _ _ (by simp))] at h
  rw [actMTerm_eq, actMTerm_eq, h]

theorem shift_eq_iff (p q : Nat) (y : Nat × Nat) :
    shift (2 * p) y = shift (2 * q) y ↔ p % 2 = q % 2 := by
  simp only [shift, Prod.mk.injEq, and_true]
  omega

/-- **`_majorana_terms_commute(a, b)` decides commutation in the Spec**: for strictly increasing
index lists, it returns True iff `γ_a γ_b` and `γ_b γ_a` act identically on every basis state. -/
theorem majoranaTermsCommute_iff_spec (a b : List Nat) (ha : a.Pairwise (· < ·)) (hb : b.Pairwise (· < ·)) :
    majoranaTermsCommute a b = true ↔ ∀ s, actMTerm (a ++ b) s = actMTerm (b ++ a) s := by
  rw [shortcut_iff_parities]
  constructor
  · intro h s
    rw [actMTerm_append a b ha, actMTerm_append b a hb, mergeM_term_comm b a]
    exact (shift_eq_iff _ _ _).2 h
  · intro h
    have := h 0
    rw [actMTerm_append a b ha, actMTerm_append b a hb, mergeM_term_comm b a] at this
    exact (shift_eq_iff _ _ _).1 this

end C02
end Proofs
end OFV
