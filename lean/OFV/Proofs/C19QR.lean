/- C19 — QR / QI return a minimiser of their cost over *all* block-size exponents k ≥ 0:
the cost `L/2^k + M(2^k - 1)` first decreases, then increases, and changes direction between the two
candidates `floor`, `ceil` of `log4(L/M)`. -/
import OFV.Model.C19
import OFV.Spec.C19
import OFV.Proofs.C19Discretize

namespace OFV.Proofs.C19QR
open OFV.Model.C19

theorem kFloorAux_spec (L M : Nat) : ∀ (fuel k : Nat), 4 ^ k * M ≤ L → L < 4 ^ (k + fuel) * M →
    4 ^ (kFloorAux L M fuel k) * M ≤ L ∧ L < 4 ^ (kFloorAux L M fuel k + 1) * M := by
  intro fuel
  induction fuel with
  | zero => intro k h1 h2; simp at h2; omega
  | succ fuel ih =>
    intro k h1 h2
    unfold kFloorAux
    by_cases hc : 4 ^ (k + 1) * M ≤ L
    · simp only [hc, if_true]
      exact ih (k + 1) hc (by rw [show k + 1 + fuel = k + (fuel + 1) by omega]; exact h2)
    · simp only [hc, if_false]
      exact ⟨h1, by omega⟩

theorem kFloor_spec (L M : Nat) (hM : 0 < M) (hLM : M ≤ L) :
    4 ^ kFloor L M * M ≤ L ∧ L < 4 ^ (kFloor L M + 1) * M := by
  unfold kFloor
  apply kFloorAux_spec L M L 0 (by simpa using hLM)
  have h1 : L < 4 ^ L := Nat.lt_pow_self (by norm_num)
  calc L < 4 ^ L := h1
    _ = 4 ^ (0 + L) * 1 := by simp
    _ ≤ 4 ^ (0 + L) * M := Nat.mul_le_mul_left _ hM

/-- difference of consecutive costs -/
theorem qrValue_succ (L M j : Nat) :
    qrValue L M (j + 1) - qrValue L M j = ((2 * 4 ^ j * M : ℕ) - (L : ℚ)) / (2 ^ (j + 1) : ℕ) := by
  unfold qrValue
  have h2 : ((2 ^ j : ℕ) : ℚ) ≠ 0 := by positivity
  have h4 : ((4 ^ j : ℕ) : ℚ) = ((2 ^ j : ℕ) : ℚ) * ((2 ^ j : ℕ) : ℚ) := by
    push_cast; rw [← mul_pow]; norm_num
  push_cast at h4 ⊢
  rw [pow_succ]
  field_simp
  rw [h4]; ring

theorem qrValue_le_succ (L M j : Nat) (h : L ≤ 2 * 4 ^ j * M) : qrValue L M j ≤ qrValue L M (j + 1) := by
  have := qrValue_succ L M j
  have hpos : (0 : ℚ) < (2 ^ (j + 1) : ℕ) := by positivity
  have hnum : (0 : ℚ) ≤ ((2 * 4 ^ j * M : ℕ) : ℚ) - (L : ℚ) := by
    have : (L : ℚ) ≤ ((2 * 4 ^ j * M : ℕ) : ℚ) := by exact_mod_cast h
    linarith
  have : 0 ≤ qrValue L M (j + 1) - qrValue L M j := by rw [this]; exact div_nonneg hnum (le_of_lt hpos)
  linarith

theorem qrValue_succ_le (L M j : Nat) (h : 2 * 4 ^ j * M ≤ L) : qrValue L M (j + 1) ≤ qrValue L M j := by
  have := qrValue_succ L M j
  have hpos : (0 : ℚ) < (2 ^ (j + 1) : ℕ) := by positivity
  have hnum : ((2 * 4 ^ j * M : ℕ) : ℚ) - (L : ℚ) ≤ 0 := by
    have : ((2 * 4 ^ j * M : ℕ) : ℚ) ≤ (L : ℚ) := by exact_mod_cast h
    linarith
  have : qrValue L M (j + 1) - qrValue L M j ≤ 0 := by rw [this]; exact div_nonpos_of_nonpos_of_nonneg hnum (le_of_lt hpos)
  linarith

/-- from `k` on the cost does not decrease -/
theorem qr_incr (L M k : Nat) (h : L ≤ 2 * 4 ^ k * M) : ∀ d, qrValue L M k ≤ qrValue L M (k + d) := by
  intro d
  induction d with
  | zero => exact le_refl _
  | succ d ih =>
    refine le_trans ih ?_
    rw [show k + (d + 1) = (k + d) + 1 by omega]
    apply qrValue_le_succ
    calc L ≤ 2 * 4 ^ k * M := h
      _ ≤ 2 * 4 ^ (k + d) * M := by
        apply Nat.mul_le_mul_right; apply Nat.mul_le_mul_left
        exact Nat.pow_le_pow_right (by norm_num) (by omega)

/-- up to `k` the cost does not increase -/
theorem qr_decr (L M k : Nat) (h : ∀ j < k, 2 * 4 ^ j * M ≤ L) : ∀ d ≤ k, qrValue L M k ≤ qrValue L M (k - d) := by
  intro d
  induction d with
  | zero => intro _; exact le_refl _
  | succ d ih =>
    intro hd
    refine le_trans (ih (by omega)) ?_
    have : k - d = (k - (d + 1)) + 1 := by omega
    rw [this]
    exact qrValue_succ_le L M _ (h _ (by omega))

/-- the cost at `floor` or `floor + 1` bounds the cost everywhere -/
theorem qr_min_two (L M : Nat) (hM : 0 < M) (hLM : M ≤ L) (j : Nat) :
    qrValue L M (kFloor L M) ≤ qrValue L M j ∨ qrValue L M (kFloor L M + 1) ≤ qrValue L M j := by
  obtain ⟨h1, h2⟩ := kFloor_spec L M hM hLM
  by_cases hj : j ≤ kFloor L M
  · left
    have := qr_decr L M (kFloor L M) (fun i hi => by
      calc 2 * 4 ^ i * M ≤ 4 ^ (i + 1) * M := by rw [pow_succ]; nlinarith [Nat.zero_le (4 ^ i * M)]
        _ ≤ 4 ^ kFloor L M * M := Nat.mul_le_mul_right _ (Nat.pow_le_pow_right (by norm_num) (by omega))
        _ ≤ L := h1) (kFloor L M - j) (by omega)
    rwa [show kFloor L M - (kFloor L M - j) = j by omega] at this
  · right
    have := qr_incr L M (kFloor L M + 1) (by nlinarith [Nat.zero_le (4 ^ (kFloor L M + 1) * M)]) (j - (kFloor L M + 1))
    rwa [show kFloor L M + 1 + (j - (kFloor L M + 1)) = j by omega] at this

/-- `QR(L, M)` returns a block-size exponent that minimises the cost over all `k ≥ 0`, and the ceiling
of that minimum -/
theorem qr_minimiser (L M : Nat) (hM : 0 < M) (hLM : M ≤ L) :
    ∃ k v, qr L M = some (k, v) ∧ (∀ j, qrValue L M k ≤ qrValue L M j) ∧
      (v : ℤ) = ⌈qrValue L M k⌉ := by
  obtain ⟨h1, h2⟩ := kFloor_spec L M hM hLM
  have hc : ¬ (M = 0 ∨ L < M) := by omega
  have hval : ∀ k, 0 ≤ qrValue L M k := by
    intro k; unfold qrValue
    have : (1 : ℚ) ≤ (2 ^ k : ℕ) := by exact_mod_cast Nat.one_le_two_pow
    have : (0 : ℚ) ≤ (L : ℚ) / (2 ^ k : ℕ) := by positivity
    have : (0 : ℚ) ≤ (M : ℚ) * ((2 ^ k : ℕ) - 1) := by
      apply mul_nonneg (by positivity); linarith
    linarith
  have hv : ∀ k, (((qrValue L M k).ceil.toNat : ℕ) : ℤ) = ⌈qrValue L M k⌉ := by
    intro k
    rw [OFV.Proofs.C19D.ceil_eq]
    exact Int.toNat_of_nonneg (Int.ceil_nonneg (hval k))
  unfold qr
  simp only [hc, if_false]
  refine ⟨_, _, rfl, ?_, hv _⟩
  intro j
  unfold kCeil
  by_cases he : 4 ^ kFloor L M * M = L
  · -- L / M is an exact power of four: both candidates coincide
    simp only [he, if_true, lt_irrefl, if_false]
    rcases qr_min_two L M hM hLM j with h | h
    · exact h
    · refine le_trans ?_ h
      exact qrValue_le_succ L M _ (by rw [Nat.mul_assoc, he]; omega)
  · simp only [he, if_false]
    by_cases hlt : qrValue L M (kFloor L M + 1) < qrValue L M (kFloor L M)
    · simp only [hlt, if_true]
      rcases qr_min_two L M hM hLM j with h | h
      · exact le_trans (le_of_lt hlt) h
      · exact h
    · simp only [hlt, if_false]
      rcases qr_min_two L M hM hLM j with h | h
      · exact h
      · exact le_trans (not_lt.mp hlt) h


theorem qiValue_eq (L k : Nat) : qiValue L k = qrValue L 1 k + 1 := by
  unfold qiValue qrValue; ring

/-- `QI(L)` returns an exponent that minimises `L/2^k + 2^k` over all `k ≥ 0`, and the ceiling of the minimum -/
theorem qi_minimiser (L : Nat) (hL : 0 < L) :
    ∃ k v, qi L = some (k, v) ∧ (∀ j, qiValue L k ≤ qiValue L j) ∧ (v : ℤ) = ⌈qiValue L k⌉ := by
  obtain ⟨k, v, h1, h2, _⟩ := qr_minimiser L 1 (by norm_num) hL
  have hc : ¬ L = 0 := by omega
  have hcq : ¬ ((1 : ℕ) = 0 ∨ L < 1) := by omega
  unfold qr at h1
  simp only [hcq, if_false] at h1
  injection h1 with h1
  injection h1 with hk _
  have hval : ∀ k, 0 ≤ qiValue L k := by
    intro k; unfold qiValue
    have : (0 : ℚ) ≤ (L : ℚ) / (2 ^ k : ℕ) := by positivity
    have : (0 : ℚ) ≤ ((2 ^ k : ℕ) : ℚ) := by positivity
    linarith
  unfold qi
  simp only [hc, if_false, qiValue_eq, add_lt_add_iff_right]
  refine ⟨_, _, rfl, ?_, ?_⟩
  · intro j
    rw [hk]
    have := h2 j
    linarith
  · rw [OFV.Proofs.C19D.ceil_eq]
    exact Int.toNat_of_nonneg (Int.ceil_nonneg (by have := hval ((if qrValue L 1 (kCeil L 1) < qrValue L 1 (kFloor L 1) then kCeil L 1 else kFloor L 1)); rw [qiValue_eq] at this; exact this))

end OFV.Proofs.C19QR
