/-
C02 — Majorana strings `γ_S` (S strictly increasing) are pairwise trace-orthogonal on `n` modes,
hence linearly independent (Spec.actMTerm on bit masks).
-/
import OFV.Proofs.C02Pauli
import OFV.Proofs.C01Majorana

namespace OFV
namespace Proofs
namespace C02
open Finset Spec Model

/-- parity of the number of indices `≥ k` in `S` -/
def hpar (S : List Nat) (k : Nat) : Bool := S.foldr (fun m acc => if k ≤ m then !acc else acc) false

/-- does `γ_S` flip mode `j` (odd number of indices on mode `j`)? -/
def fparM (S : List Nat) (j : Nat) : Bool := (hpar S (2 * j) != hpar S (2 * j + 2))
/-- sign parity under flipping bit `j` of the input: indices on higher modes and the odd index of mode `j` -/
def wparM (S : List Nat) (j : Nat) : Bool := hpar S (2 * j + 1)

theorem actMTerm_cons (m : Nat) (r : List Nat) (s : Nat) : actMTerm (m :: r) s = stepM m (actMTerm r s) := rfl

theorem hpar_cons (m : Nat) (r : List Nat) (k : Nat) :
    hpar (m :: r) k = (if k ≤ m then !hpar r k else hpar r k) := rfl

/-- one Majorana on a state with bit `j` flipped -/
theorem actM_xflip (m x j : Nat) :
    actM m (x ^^^ (1 <<< j)) =
      (((actM m x).1 + (if 2 * j + 1 ≤ m then 2 else 0)) % 4, (actM m x).2 ^^^ (1 <<< j)) := by
  have hcb := countBelow_xflip x j (m / 2)
  rw [actM_eq, actM_eq]
  apply Prod.ext
  · simp only
    unfold mpar
    by_cases hmode : m / 2 = j
    · subst hmode
      have hlt : ¬ (m / 2 < m / 2) := Nat.lt_irrefl _
      simp only [hlt, if_false, Nat.add_zero] at hcb
      rw [testBit_xflip]
      by_cases hodd : m % 2 = 0
      · have : ¬ (2 * (m / 2) + 1 ≤ m) := by omega
        simp only [hodd, if_true, this, if_false]; omega
      · have : 2 * (m / 2) + 1 ≤ m := by omega
        simp only [hodd, if_false, this, if_true]
        cases hb : x.testBit (m / 2) <;> simp <;> omega
    · rw [testBit_xflip_ne x j (m / 2) (fun e => hmode e.symm)]
      by_cases hlt : j < m / 2
      · have : 2 * j + 1 ≤ m := by omega
        simp only [hlt, if_true, this] at hcb ⊢
        omega
      · have : ¬ (2 * j + 1 ≤ m) := by omega
        simp only [hlt, if_false, Nat.add_zero, this] at hcb ⊢
        omega
  · simp only; exact xflip_comm x j (m / 2)

theorem actMTerm_xflip (S : List Nat) (s j : Nat) :
    actMTerm S (s ^^^ (1 <<< j)) =
      (((actMTerm S s).1 + (if wparM S j then 2 else 0)) % 4, (actMTerm S s).2 ^^^ (1 <<< j)) := by
  induction S with
  | nil => simp [actMTerm, wparM, hpar]
  | cons m r ih =>
    rw [actMTerm_cons, actMTerm_cons, ih]
    simp only [stepM, actM_xflip]
    have hw : wparM (m :: r) j = (if 2 * j + 1 ≤ m then !wparM r j else wparM r j) := rfl
    rw [hw]
    by_cases hk : 2 * j + 1 ≤ m <;> cases h2 : wparM r j <;> simp [hk, h2] <;> omega

theorem actM_testBit (m x j : Nat) :
    ((actM m x).2).testBit j = (x.testBit j != decide (m / 2 = j)) := by
  rw [actM_eq]
  simp only
  by_cases h : m / 2 = j
  · subst h; rw [testBit_xflip]; simp
  · rw [testBit_xflip_ne x (m / 2) j h]; simp [h]

theorem fparM_cons (m : Nat) (r : List Nat) (j : Nat) :
    fparM (m :: r) j = (fparM r j != decide (m / 2 = j)) := by
  unfold fparM
  rw [hpar_cons, hpar_cons]
  by_cases h1 : 2 * j ≤ m <;> by_cases h2 : 2 * j + 2 ≤ m
  · have : ¬ m / 2 = j := by omega
    simp [h1, h2, this]
  · have : m / 2 = j := by omega
    simp [h1, h2, this]
  · omega
  · have : ¬ m / 2 = j := by omega
    simp [h1, h2, this]

theorem actMTerm_testBit (S : List Nat) (s j : Nat) :
    ((actMTerm S s).2).testBit j = (s.testBit j != fparM S j) := by
  induction S with
  | nil => simp [actMTerm, fparM, hpar]
  | cons m r ih =>
    rw [actMTerm_cons]
    simp only [stepM]
    rw [actM_testBit, ih, fparM_cons]
    cases s.testBit j <;> cases fparM r j <;> cases decide (m / 2 = j) <;> rfl

theorem hsW_maj_flip (S T : List Nat) (s j : Nat) (hz : wparM S j ≠ wparM T j) :
    hsW actMTerm S T (s ^^^ (1 <<< j)) = - hsW actMTerm S T s := by
  unfold hsW
  rw [actMTerm_xflip S, actMTerm_xflip T]
  simp only
  have hcond : ((actMTerm T s).2 ^^^ (1 <<< j) = (actMTerm S s).2 ^^^ (1 <<< j)) ↔
      ((actMTerm T s).2 = (actMTerm S s).2) := by
    constructor
    · intro h
      have := congrArg (· ^^^ (1 <<< j)) h
      simpa [xflip_xflip] using this
    · intro h; rw [h]
  by_cases hc : (actMTerm T s).2 = (actMTerm S s).2
  · rw [if_pos (hcond.2 hc), if_pos hc, ipow_shift, ipow_shift]
    cases hp : wparM S j <;> cases hq : wparM T j
    · exact absurd (hp.trans hq.symm) hz
    · simp only [Bool.false_eq_true, if_false, if_true]; ring
    · simp only [Bool.false_eq_true, if_false, if_true]
      have : ((-1 : GQ) * GQ.ipow (actMTerm S s).1).conj = - (GQ.ipow (actMTerm S s).1).conj := by
        rw [neg_one_mul, conj_neg]
      rw [this]; ring
    · exact absurd (hp.trans hq.symm) hz
  · rw [if_neg (fun h => hc (hcond.1 h)), if_neg hc]; simp

theorem hsW_maj_zero (S T : List Nat) (j : Nat) (hx : fparM S j ≠ fparM T j) (s : Nat) :
    hsW actMTerm S T s = 0 := by
  unfold hsW
  have : (actMTerm T s).2 ≠ (actMTerm S s).2 := by
    intro h
    have h1 := actMTerm_testBit S s j
    have h2 := actMTerm_testBit T s j
    rw [h, h1] at h2
    cases hb : s.testBit j <;> cases hp : fparM S j <;> cases hq : fparM T j <;> simp_all
  rw [if_neg this]

theorem maj_orthogonal (S T : List Nat) (n j : Nat) (hj : j < n)
    (hd : fparM S j ≠ fparM T j ∨ wparM S j ≠ wparM T j) :
    ∑ s ∈ range (2 ^ n), hsW actMTerm S T s = 0 := by
  by_cases hx : fparM S j = fparM T j
  · have hz : wparM S j ≠ wparM T j := by
      rcases hd with h | h
      · exact absurd hx h
      · exact h
    apply sum_involution (fun s _ => s ^^^ (1 <<< j))
    · intro s _; rw [hsW_maj_flip S T s j hz]; ring
    · intro s _ _; exact xflip_ne_self s j
    · intro s hs; exact mem_range.2 (xor_two_pow_lt s j n (mem_range.1 hs) hj)
    · intro s _; exact xflip_xflip s j
  · exact sum_eq_zero (fun s _ => hsW_maj_zero S T j hx s)

/-! ### strictly increasing index lists are told apart by their parities -/

theorem hpar_false_of_lt (S : List Nat) (k : Nat) (h : ∀ m ∈ S, m < k) : hpar S k = false := by
  induction S with
  | nil => rfl
  | cons m r ih =>
    have hm : ¬ k ≤ m := by have := h m (by simp); omega
    rw [hpar_cons, if_neg hm]
    exact ih (fun x hx => h x (List.mem_cons_of_mem _ hx))

theorem hpar_step_mem (S : List Nat) (hn : S.Nodup) (k : Nat) :
    (hpar S k != hpar S (k + 1)) = decide (k ∈ S) := by
  induction S with
  | nil => simp [hpar]
  | cons m r ih =>
    have hn' := List.nodup_cons.1 hn
    rw [hpar_cons, hpar_cons]
    by_cases hmk : m = k
    · subst hmk
      have h1 : m ≤ m := le_refl _
      have h2 : ¬ (m + 1 ≤ m) := by omega
      have hnot : decide (m ∈ r) = false := by simpa using hn'.1
      have := ih hn'.2
      rw [hnot] at this
      simp only [h1, h2, if_true, if_false, List.mem_cons, true_or, decide_true]
      cases ha : hpar r m <;> cases hb : hpar r (m + 1) <;> simp_all
    · have hc : (k ≤ m) ↔ (k + 1 ≤ m) := by omega
      have hmem : decide (k ∈ m :: r) = decide (k ∈ r) := by
        have : ¬ k = m := fun e => hmk e.symm
        simp [this]
      rw [hmem, ← ih hn'.2]
      by_cases h : k ≤ m
      · have h' := hc.1 h
        simp only [h, h', if_true]
        cases hpar r k <;> cases hpar r (k + 1) <;> rfl
      · have h' : ¬ (k + 1 ≤ m) := fun e => h (hc.2 e)
        simp only [h, h', if_false]

theorem maj_eq_of_parities (S T : List Nat) (N : Nat) (hs : S.Pairwise (· < ·)) (ht : T.Pairwise (· < ·))
    (bs : ∀ m ∈ S, m < 2 * N) (bt : ∀ m ∈ T, m < 2 * N)
    (h : ∀ j, fparM S j = fparM T j ∧ wparM S j = wparM T j) : S = T := by
  have heven : ∀ d j, j + d = N → hpar S (2 * j) = hpar T (2 * j) := by
    intro d
    induction d with
    | zero =>
      intro j hj
      rw [hpar_false_of_lt S (2 * j) (fun m hm => by have := bs m hm; omega),
        hpar_false_of_lt T (2 * j) (fun m hm => by have := bt m hm; omega)]
    | succ d ih =>
      intro j hj
      have h1 := ih (j + 1) (by omega)
      have h2 := (h j).1
      unfold fparM at h2
      have e : 2 * (j + 1) = 2 * j + 2 := by ring
      rw [e] at h1
      rw [h1] at h2
      cases ha : hpar S (2 * j) <;> cases hb : hpar T (2 * j) <;> cases hc : hpar T (2 * j + 2) <;> simp_all
  have hall : ∀ k, hpar S k = hpar T k := by
    intro k
    by_cases hk : k < 2 * N
    · rcases Nat.even_or_odd' k with ⟨j, rfl | rfl⟩
      · exact heven (N - j) j (by omega)
      · exact (h j).2
    · rw [hpar_false_of_lt S k (fun m hm => by have := bs m hm; omega),
        hpar_false_of_lt T k (fun m hm => by have := bt m hm; omega)]
  have ns : S.Nodup := hs.imp (fun h => by omega)
  have nt : T.Nodup := ht.imp (fun h => by omega)
  have hmem : ∀ k, k ∈ S ↔ k ∈ T := by
    intro k
    have h1 := hpar_step_mem S ns k
    have h2 := hpar_step_mem T nt k
    rw [hall k, hall (k + 1), h2] at h1
    simpa using h1.symm
  have hperm : S.Perm T := (List.perm_ext_iff_of_nodup ns nt).2 hmem
  exact List.Perm.eq_of_pairwise (fun a b _ _ hab hba => by omega) hs ht hperm

theorem hpar_true_exists (S : List Nat) (k : Nat) (h : hpar S k = true) : ∃ m ∈ S, k ≤ m := by
  by_contra hc
  rw [hpar_false_of_lt S k (fun m hm => by
    by_contra hlt; exact hc ⟨m, hm, by omega⟩)] at h
  cases h

/-- **distinct Majorana strings on `n` modes are trace-orthogonal** -/
theorem maj_canonical_orthogonal (S T : List Nat) (n : Nat) (hs : S.Pairwise (· < ·)) (ht : T.Pairwise (· < ·))
    (bs : ∀ m ∈ S, m < 2 * n) (bt : ∀ m ∈ T, m < 2 * n) (hne : S ≠ T) :
    ∑ s ∈ range (2 ^ n), hsW actMTerm S T s = 0 := by
  have : ∃ j, fparM S j ≠ fparM T j ∨ wparM S j ≠ wparM T j := by
    by_contra hc
    apply hne
    apply maj_eq_of_parities S T n hs ht bs bt
    intro j
    by_contra hj
    apply hc
    refine ⟨j, ?_⟩
    by_cases hx : fparM S j = fparM T j
    · right; intro hz; exact hj ⟨hx, hz⟩
    · left; exact hx
  obtain ⟨j, hj⟩ := this
  have hjn : j < n := by
    -- some parity at 2j, 2j+1 or 2j+2 is true for S or T: an index ≥ 2j exists
    have : ∃ k, 2 * j ≤ k ∧ (hpar S k = true ∨ hpar T k = true) := by
      rcases hj with h | h
      · unfold fparM at h
        by_contra hc
        have a1 : hpar S (2 * j) = false := by
          cases hh : hpar S (2 * j); rfl; exact absurd ⟨2 * j, le_refl _, Or.inl hh⟩ hc
        have a2 : hpar S (2 * j + 2) = false := by
          cases hh : hpar S (2 * j + 2); rfl; exact absurd ⟨2 * j + 2, by omega, Or.inl hh⟩ hc
        have a3 : hpar T (2 * j) = false := by
          cases hh : hpar T (2 * j); rfl; exact absurd ⟨2 * j, le_refl _, Or.inr hh⟩ hc
        have a4 : hpar T (2 * j + 2) = false := by
          cases hh : hpar T (2 * j + 2); rfl; exact absurd ⟨2 * j + 2, by omega, Or.inr hh⟩ hc
        rw [a1, a2, a3, a4] at h; exact h rfl
      · unfold wparM at h
        by_contra hc
        have a1 : hpar S (2 * j + 1) = false := by
          cases hh : hpar S (2 * j + 1); rfl; exact absurd ⟨2 * j + 1, by omega, Or.inl hh⟩ hc
        have a2 : hpar T (2 * j + 1) = false := by
          cases hh : hpar T (2 * j + 1); rfl; exact absurd ⟨2 * j + 1, by omega, Or.inr hh⟩ hc
        rw [a1, a2] at h; exact h rfl
    obtain ⟨k, hk, hh⟩ := this
    rcases hh with hh | hh
    · obtain ⟨m, hm, hkm⟩ := hpar_true_exists S k hh; have := bs m hm; omega
    · obtain ⟨m, hm, hkm⟩ := hpar_true_exists T k hh; have := bt m hm; omega
  exact maj_orthogonal S T n j hjn hj

end C02
end Proofs
end OFV
