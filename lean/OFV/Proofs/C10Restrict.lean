/- C10: jw_number_restrict_operator / jw_sz_restrict_operator / *_restrict_state index extraction: the restricted
matrix (vector) has, at position (p, q), the entry of the original at (idx[p], idx[q]), in list order. -/
import OFV.Proofs.C10Su2b

namespace OFV.C10
open OFV.Model OFV.Model.C10 OFV.Spec OFV.Spec.C10

theorem restrictOp_shape (M : List (List GQ)) (idx : List Nat) :
    (restrictOp M idx).length = idx.length ∧ ∀ row ∈ restrictOp M idx, row.length = idx.length := by
  refine ⟨by simp [restrictOp], ?_⟩
  intro row hrow
  simp only [restrictOp, List.mem_map] at hrow
  obtain ⟨a, _, rfl⟩ := hrow
  simp

theorem restrictOp_entry (M : List (List GQ)) (idx : List Nat) (p q : Nat) (hp : p < idx.length) (hq : q < idx.length) :
    ((restrictOp M idx).getD p []).getD q 0 = (M.getD (idx.getD p 0) []).getD (idx.getD q 0) 0 := by
  simp [restrictOp, List.getD_eq_getElem?_getD, hp, hq]

theorem restrictState_entry (v : List GQ) (idx : List Nat) (p : Nat) (hp : p < idx.length) :
    (restrictState v idx).length = idx.length ∧ (restrictState v idx).getD p 0 = v.getD (idx.getD p 0) 0 := by
  simp [restrictState, List.getD_eq_getElem?_getD, hp]

end OFV.C10
