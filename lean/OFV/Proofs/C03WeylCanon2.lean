/-
C03 — canonicity for bosons and quadratures, part 2: normal-ordered monomials are linearly
independent in the polynomial representation (occupation-function form).
-/
import OFV.Proofs.C03WeylCanon
import OFV.Proofs.C03Canon2

namespace OFV
namespace Proofs
namespace C03
open Model Model.C03

/-- indices of the lowering factors -/
def lowIdx (L : LadderRule) (t : Term) : List Nat := (t.filter fun f => !L.high f.2).map (·.1)

theorem nLow_eq_count (L : LadderRule) (t : Term) (j : Nat) : nLow L t j = (lowIdx L t).count j := by
  unfold nLow lowIdx
  induction t with
  | nil => simp
  | cons f r ih =>
    by_cases h1 : L.high f.2 = true
    · simp [List.filter_cons, h1] at ih ⊢; exact ih
    · have h1' : L.high f.2 = false := by simpa using h1
      by_cases h2 : f.1 = j
      · simp [List.filter_cons, h1', h2] at ih ⊢; rw [ih]
      · simp [List.filter_cons, h1', h2, List.count_cons] at ih ⊢; rw [ih]

/-- if `e` has at most as many lowering factors as `t0` on every mode, but at least as many in
total, the counts agree on every mode -/
theorem nLow_eq_of_le (L : LadderRule) (e t0 : Term) (hle : ∀ j, nLow L e j ≤ nLow L t0 j)
    (hlen : (lowIdx L t0).length ≤ (lowIdx L e).length) : ∀ j, nLow L e j = nLow L t0 j := by
  have hsub : (lowIdx L e).Subperm (lowIdx L t0) := by
    rw [List.subperm_ext_iff]
    intro x _
    rw [← nLow_eq_count, ← nLow_eq_count]; exact hle x
  have hperm := hsub.perm_of_length_le hlen
  intro j
  rw [nLow_eq_count, nLow_eq_count]
  exact List.perm_iff_count.1 hperm j

/-- a rule that tells the two valid action codes apart -/
def Separates (L : LadderRule) : Prop := L.high 0 ≠ L.high 1

theorem valid_action_eq (L : LadderRule) (hsep : Separates L) (a b : Nat) (ha : a < 2) (hb : b < 2)
    (h : L.high a = L.high b) : a = b := by
  have ha' : a = 0 ∨ a = 1 := by omega
  have hb' : b = 0 ∨ b = 1 := by omega
  unfold Separates at hsep
  rcases ha' with rfl | rfl <;> rcases hb' with rfl | rfl
  · rfl
  · exact absurd h hsep
  · exact absurd h.symm hsep
  · rfl

theorem count_factor (L : LadderRule) (hsep : Separates L) (t : Term) (hv : ∀ f ∈ t, f.2 < 2)
    (f : Factor) (hf : f.2 < 2) :
    t.count f = if L.high f.2 then nHigh L t f.1 else nLow L t f.1 := by
  induction t with
  | nil => simp [nHigh, nLow]
  | cons g r ih =>
    have hg : g.2 < 2 := hv g (by simp)
    have ih' := ih (fun x hx => hv x (List.mem_cons_of_mem _ hx))
    rw [List.count_cons, ih', nHigh_cons, nLow_cons]
    by_cases hgf : g = f
    · subst hgf
      by_cases hh : L.high g.2 = true <;> simp [hh]
    · have hne : (g == f) = false := by simpa using hgf
      rw [hne]
      by_cases hh : L.high f.2 = true
      · simp only [hh, if_true, Bool.false_eq_true, if_false, Nat.add_zero]
        by_cases hc : (L.high g.2 && g.1 == f.1) = true
        · exfalso
          simp only [Bool.and_eq_true, beq_iff_eq] at hc
          apply hgf
          exact Prod.ext hc.2 (valid_action_eq L hsep g.2 f.2 hg hf (by rw [hc.1, hh]))
        · simp [hc]
      · have hh' : L.high f.2 = false := by simpa using hh
        simp only [hh', Bool.false_eq_true, if_false, Nat.add_zero]
        by_cases hc : (!L.high g.2 && g.1 == f.1) = true
        · exfalso
          simp only [Bool.and_eq_true, beq_iff_eq, Bool.not_eq_true'] at hc
          apply hgf
          exact Prod.ext hc.2 (valid_action_eq L hsep g.2 f.2 hg hf (by rw [hc.1, hh']))
        · simp [hc]

/-- a valid normal-ordered term is determined by its two count functions -/
theorem normal_term_unique (L : LadderRule) (hsep : Separates L) (t t' : Term)
    (hv : ∀ f ∈ t, f.2 < 2) (hv' : ∀ f ∈ t', f.2 < 2)
    (hn : t.Pairwise (okW L)) (hn' : t'.Pairwise (okW L))
    (hl : ∀ j, nLow L t j = nLow L t' j) (hh : ∀ j, nHigh L t j = nHigh L t' j) : t = t' := by
  have hperm : t.Perm t' := by
    rw [List.perm_iff_count]
    intro f
    by_cases hf : f.2 < 2
    · rw [count_factor L hsep t hv f hf, count_factor L hsep t' hv' f hf, hl, hh]
    · have h1 : f ∉ t := fun hm => hf (hv f hm)
      have h2 : f ∉ t' := fun hm => hf (hv' f hm)
      rw [List.count_eq_zero_of_not_mem h1, List.count_eq_zero_of_not_mem h2]
  apply List.Perm.eq_of_pairwise _ hn hn' hperm
  intro a b ha hb hab hba
  obtain ⟨h1, h2⟩ := hab
  obtain ⟨h3, h4⟩ := hba
  have hidx : a.1 = b.1 := by omega
  have hact : L.high a.2 = L.high b.2 := by
    cases ha2 : L.high a.2 <;> cases hb2 : L.high b.2
    · rfl
    · have := h2 hidx hb2; rw [ha2] at this; cases this
    · have := h4 hidx.symm ha2; rw [hb2] at this; cases this
    · rfl
  exact Prod.ext hidx (valid_action_eq L hsep a.2 b.2 (hv a ha) (hv' b hb) hact)

/-- matrix element of a term between two basis monomials -/
noncomputable def mW (g : Rule) (ν ν' : Occ) (t : Term) : GQ :=
  match foldW g t ν with
  | none => 0
  | some (c, ν'') => by classical exact if ν'' = ν' then c else 0

/-- **linear independence of normal-ordered monomials** (polynomial representation): evaluate
on `x^{n0}` where `n0` counts the lowering factors of a term with non-zero coefficient and the
fewest lowering factors -/
theorem weyl_independent (L : LadderRule) (hsep : Separates L) (D : Op) (hwf : Dict.WF D)
    (hv : ∀ e ∈ D, ∀ f ∈ e.1, f.2 < 2) (hn : ∀ e ∈ D, e.1.Pairwise (okW L))
    (hz : ∀ e0 ∈ D, (D.map (fun e => e.2 * mW L.rule (nLow L e0.1) (nHigh L e0.1) e.1)).sum = 0) :
    ∀ e ∈ D, e.2 = 0 := by
  by_contra hcon
  simp only [not_forall] at hcon
  have hex : ∃ n, ∃ e ∈ D, e.2 ≠ 0 ∧ (lowIdx L e.1).length = n := by
    obtain ⟨e, he, hne⟩ := hcon
    exact ⟨_, e, he, hne, rfl⟩
  classical
  obtain ⟨e0, he0, hc0, hm0⟩ := Nat.find_spec hex
  have hmin : ∀ e ∈ D, e.2 ≠ 0 → Nat.find hex ≤ (lowIdx L e.1).length :=
    fun e he hne => Nat.find_min' hex ⟨e, he, hne, rfl⟩
  -- the chosen term on its own state
  obtain ⟨c0, hc0ne, hf0⟩ := (foldW_normal L e0.1 (hn e0 he0) (nLow L e0.1)).1 (fun j => le_refl _)
  have hres0 : (fun j => nLow L e0.1 j - nLow L e0.1 j + nHigh L e0.1 j) = nHigh L e0.1 := by
    funext j; omega
  rw [hres0] at hf0
  have hothers : ∀ e ∈ D, e ≠ e0 → e.2 * mW L.rule (nLow L e0.1) (nHigh L e0.1) e.1 = 0 := by
    intro e he hne
    by_contra hnz
    have hc : e.2 ≠ 0 := by intro h0; apply hnz; rw [h0, zero_mul]
    have hm : mW L.rule (nLow L e0.1) (nHigh L e0.1) e.1 ≠ 0 := by
      intro h0; apply hnz; rw [h0, mul_zero]
    obtain ⟨a1, a2⟩ := foldW_normal L e.1 (hn e he) (nLow L e0.1)
    have hle : ∀ j, nLow L e.1 j ≤ nLow L e0.1 j := by
      by_contra hc'
      simp only [not_forall, not_le] at hc'
      have := a2 hc'
      apply hm; unfold mW; rw [this]
    have hlen : (lowIdx L e0.1).length ≤ (lowIdx L e.1).length := by
      rw [hm0]; exact hmin e he hc
    have hleq := nLow_eq_of_le L e.1 e0.1 hle hlen
    obtain ⟨c, _, hf⟩ := a1 hle
    have hres : (fun j => nLow L e0.1 j - nLow L e.1 j + nHigh L e.1 j) = nHigh L e.1 := by
      funext j; rw [hleq j]; omega
    rw [hres] at hf
    have hheq : nHigh L e.1 = nHigh L e0.1 := by
      by_contra hne'
      apply hm; unfold mW; rw [hf]; simp [hne']
    have := normal_term_unique L hsep e.1 e0.1 (hv e he) (hv e0 he0) (hn e he) (hn e0 he0) hleq
      (fun j => congrFun hheq j)
    exact hne (wf_key_inj D hwf e e0 he he0 this)
  have hsum := hz e0 he0
  rw [sum_map_eq_single D (wf_entries_nodup D hwf) _ e0 he0 hothers] at hsum
  have : mW L.rule (nLow L e0.1) (nHigh L e0.1) e0.1 = c0 := by
    unfold mW; rw [hf0]; simp
  rw [this] at hsum
  exact gq_mul_ne_zero _ _ hc0 hc0ne hsum

end C03
end Proofs
end OFV
