/- C18 — `binary_partition_iterator` / `partition_iterator` with an explicit `num_iterations` argument:
any budget `it ≥ 1` with `n ≤ 2^it` splits every pair / every k-subset, and a shorter budget yields a prefix of
the yields of a longer one (binary partitions). -/
import OFV.Proofs.C18Partition

namespace OFV.Proofs.C18Explicit
open OFV.Model.C18 OFV.Spec.C18 OFV.Proofs.C18Binary OFV.Proofs.C18Part List

/-- the riffle loop run for `k` steps with `n ≤ 2^k` splits every pair -/
theorem binaryLoop_splitsAll (l : List Nat) (hnd : l.Nodup) (k : Nat) (hk : l.length ≤ 2 ^ k) :
    splitsAll l 2 ((binaryLoop ((l.length + 1) / 2) k l).map (fun p => [p.1, p.2])) = true := by
  simp only [splitsAll, Bool.and_eq_true, all_eq_true, mem_map, forall_exists_index, and_imp,
    forall_apply_eq_imp_iff₂, any_eq_true, exists_exists_and_eq_and]
  refine ⟨?_, ?_⟩
  · intro p hp
    have := binaryLoop_perm k _ l p hp
    simp [isPartitionOf, isPerm_iff.mpr this]
  · intro sub hsub
    obtain ⟨i, j, a, b, hij, hi, hj, rfl⟩ := mem_subsetsLen2 l sub hsub
    have hjl : j < l.length := by
      by_contra hc; rw [getElem?_eq_none (by omega)] at hj; cases hj
    have hd : l.length ≤ (j - i) * 2 ^ k := by
      have : 1 ≤ j - i := by omega
      calc l.length ≤ 2 ^ k := hk
        _ = 1 * 2 ^ k := by simp
        _ ≤ (j - i) * 2 ^ k := Nat.mul_le_mul_right _ this
    obtain ⟨p, hp, hsp⟩ := binaryLoop_splits k l i j hij hjl hd _ rfl a b hi hj
    refine ⟨p, hp, splitBy_of_splitPair p a b ?_ hsp⟩
    exact (binaryLoop_perm k _ l p hp).nodup_iff.mpr hnd

/-- `binary_partition_iterator(qubit_list, num_iterations = it)` with `n ≤ 2^it` -/
theorem binaryPartition_explicit (l : List Nat) (hnd : l.Nodup) (h2 : 2 ≤ l.length) (it : Nat) (hit : l.length ≤ 2 ^ it) :
    ∃ ys, binaryPartition l (some it) = some ys ∧ splitsAll l 2 (ys.map (fun p => [p.1, p.2])) = true := by
  have hit0 : it ≠ 0 := by
    intro e; subst e; simp at hit; omega
  unfold binaryPartition
  have hn : ¬ l.length < 2 := by omega
  have h0 : ¬ (some it = some 0) := by intro e; injection e with e; exact hit0 e
  simp only [h0, if_false, hn]
  match l, h2, hnd, hit with
  | [a, b], _, hnd, _ =>
    refine ⟨_, rfl, ?_⟩
    have := binaryLoop_splitsAll [a, b] hnd 1 (by simp)
    simpa [binaryLoop] using this
  | a :: b :: c :: t, _, hnd, hit =>
    exact ⟨_, rfl, binaryLoop_splitsAll _ hnd it hit⟩

/-- fewer iterations yield a prefix of the yields of more iterations -/
theorem binaryLoop_take {γ : Type} (half : Nat) : ∀ (k d : Nat) (l : List γ),
    (binaryLoop half (k + d) l).take k = binaryLoop half k l := by
  intro k
  induction k with
  | zero => intro d l; simp [binaryLoop]
  | succ k ih =>
    intro d l
    rw [show k + 1 + d = (k + d) + 1 by omega]
    simp only [binaryLoop, take_succ_cons]
    rw [ih]

/-- `partition_iterator(qubit_list, k, num_iterations = it)` with `it ≥ 1`, `n ≤ 2^it`: every yield is a
`k`-partition and every `k`-subset is perfectly split by one of the yields -/
theorem partitionIter_explicit (l : List Nat) (hnd : l.Nodup) (k : Nat) (hk1 : 1 ≤ k) (it : Nat) (hit : 1 ≤ it)
    (hn : l.length ≤ 2 ^ it) : splitsAll l k (partitionIter l k (some it)) = true := by
  simp only [splitsAll, Bool.and_eq_true, all_eq_true, any_eq_true]
  refine ⟨?_, ?_⟩
  · intro parts hp
    obtain ⟨a, b⟩ := partitionIterAux_partition _ _ _ _ parts hp
    simp [isPartitionOf, b, isPerm_iff.mpr a]
  · intro sub hsub
    obtain ⟨idx, hsp, hlen, rfl⟩ := mem_subsetsLen k l sub hsub
    have hfuel : max k 1 = (k - 1) + 1 := by omega
    simp only [partitionIter]
    rw [hfuel]
    exact covers_all ((k - 1) + 1) k hk1 (by omega) l hnd it 1 hit (Nat.le_refl _) idx hsp hlen (by simpa using hn)

end OFV.Proofs.C18Explicit
