/-
`jordan_wigner(DiagonalCoulombHamiltonian)`: the strings written out by the code denote
`const + Σ T[p,q] a†_p a_q + Σ V[p,q] n_p n_q` (sum over all ordered pairs) for Hermitian `T`, symmetric `V`.
-/
import OFV.Proofs.C04Iop2

namespace OFV
namespace Sem
open Spec Model Model.C04

theorem foldl_flatMap_list {α : Type} (l : List α) (g : α → List Op) (F : Op → Op → Op) (init : Op) :
    (l.flatMap g).foldl F init = l.foldl (fun acc a => (g a).foldl F acc) init := by
  induction l generalizing init with
  | nil => rfl
  | cons a l ih => simp [List.flatMap_cons, List.foldl_append, ih]

theorem jwDCH_eq_fold (tol : Rat) (n : Nat) (const : GQ) (one two : List GQ) :
    jwDCH tol n const one two
      = (dchImgs n one two).foldl (fun acc img => iadd tol acc img) (mk .qubit [] const) := by
  unfold jwDCH dchImgs
  simp only [List.foldl_append, foldl_flatMap_list, List.foldl_cons, List.foldl_nil]

/-- `n_p n_q = a†_p a_p a†_q a_q` on basis states (also for `p = q`) -/
theorem nn_fermion (p q m x : Nat) :
    termCoef .fermion [(p, 1), (p, 0), (q, 1), (q, 0)] [m] [x]
      = if m.testBit p && m.testBit q then (if m = x then 1 else 0) else 0 := by
  rw [tC_four]
  simp only [actF_ann]
  cases hq : m.testBit q
  · simp
  · simp only [if_true, actF_cre, testBit_xflip, hq, Bool.not_true, Bool.false_eq_true, if_false, xflip_xflip,
      actF_ann]
    cases hp : m.testBit p
    · simp
    · simp only [if_true, actF_cre, testBit_xflip, hp, Bool.not_true, Bool.false_eq_true, if_false, xflip_xflip,
        cb_xflip_hi m q q (Nat.le_refl _), cb_xflip_hi m p p (Nat.le_refl _), Bool.and_self]
      split
      · rw [sgn_congr (b := 0) (by omega)]; rfl
      · rfl

theorem n_fermion (p m x : Nat) :
    termCoef .fermion [(p, 1), (p, 0)] [m] [x] = if m.testBit p then (if m = x then 1 else 0) else 0 :=
  diag_fermion p m x

/-- what the eight operands of one pair `p < q` add up to -/
theorem dch_pair (T V : GQ) (p q m x : Nat) (h : p < q) :
    ([mk .qubit ([(p, 1)] ++ zs (p + 1) q ++ [(q, 1)]) (rl (mkRat 1 2 * T.re)),
      mk .qubit ([(p, 2)] ++ zs (p + 1) q ++ [(q, 2)]) (rl (mkRat 1 2 * T.re)),
      mk .qubit ([(p, 2)] ++ zs (p + 1) q ++ [(q, 1)]) (rl (mkRat 1 2 * T.im)),
      mk .qubit ([(p, 1)] ++ zs (p + 1) q ++ [(q, 2)]) (rl (-(mkRat 1 2) * T.im)),
      mk .qubit [(p, 3), (q, 3)] (C04.half * V),
      mk .qubit [(p, 3)] (rl (-(mkRat 1 2)) * V),
      mk .qubit [(q, 3)] (rl (-(mkRat 1 2)) * V),
      mk .qubit [] (C04.half * V)].map fun img => den .qubit img [m] [x]).sum
    = Hop p q T m x + (if m.testBit p && m.testBit q then (if m = x then V + V else 0) else 0) := by
  have hs := hop_qubit_sum p q m x T h
  simp only [hopList, List.map_cons, List.map_nil, List.sum_cons, List.sum_nil, add_zero] at hs
  have e4 : rl (-(mkRat 1 2) * T.im) = rl (mkRat 1 2 * -T.im) := by unfold rl; congr 1; ring
  simp only [List.map_cons, List.map_nil, List.sum_cons, List.sum_nil, add_zero,
    den_mk _ (hop_valid p q 1 1 (by decide) (by decide)), den_mk _ (hop_valid p q 2 2 (by decide) (by decide)),
    den_mk _ (hop_valid p q 2 1 (by decide) (by decide)), den_mk _ (hop_valid p q 1 2 (by decide) (by decide)),
    den_mk _ (valid_zz p q), den_mk _ (valid_z _), den_mk _ valid_nil, tC_zz, tC_z, tC_nil, e4]
  unfold Hop
  rw [← hs]
  by_cases hx : m = x
  · subst hx
    cases m.testBit p <;> cases m.testBit q <;> simp [C04.half, rl] <;>
      apply GQ.ext <;> simp <;> norm_num [Rat.mkRat_eq_div] <;> ring
  · simp [hx]

theorem dch_diag (c : GQ) (p m x : Nat) :
    ([mk .qubit [(p, 3)] (rl (-(mkRat 1 2)) * c), mk .qubit [] (C04.half * c)].map
        fun img => den .qubit img [m] [x]).sum
      = c * (if m.testBit p then (if m = x then 1 else 0) else 0) := by
  simp only [List.map_cons, List.map_nil, List.sum_cons, List.sum_nil, add_zero, den_mk _ (valid_z _),
    den_mk _ valid_nil, tC_z, tC_nil]
  by_cases hx : m = x
  · subst hx
    cases m.testBit p <;> simp [C04.half, rl] <;> apply GQ.ext <;> simp <;> norm_num [Rat.mkRat_eq_div] <;> ring
  · simp [hx]

/-- `Spec.C04.dchOp`, as plain sums -/
theorem den_dchOp (n : Nat) (const : GQ) (one two : List GQ) (m x : Nat) :
    den .fermion (Spec.C04.dchOp n const one two) [m] [x]
      = const * (if m = x then 1 else 0)
        + ((List.range n).map fun p => ((List.range n).map fun q =>
            get1 n one p q * termCoef .fermion [(p, 1), (q, 0)] [m] [x]).sum).sum
        + ((List.range n).map fun p => ((List.range n).map fun q =>
            get1 n two p q * termCoef .fermion [(p, 1), (p, 0), (q, 1), (q, 0)] [m] [x]).sum).sum := by
  unfold Spec.C04.dchOp
  simp only [den_append, den_cons, den_nil, add_zero, tC_fermion_nil, den_flatMap]
  congr 1
  · congr 1
    congr 1
    apply List.map_congr_left
    intro p _
    rw [den_map_terms]; rfl
  · congr 1
    apply List.map_congr_left
    intro p _
    rw [den_map_terms]; rfl

/-- **`jordan_wigner(DiagonalCoulombHamiltonian)` is sound** for every `n`, Hermitian `T` and symmetric `V`,
on every exact run -/
theorem jwDCH_sound (tol : Rat) (n : Nat) (const : GQ) (one two : List GQ)
    (h1 : ∀ p q, p < n → q < n → get1 n one q p = (get1 n one p q).conj)
    (h2 : ∀ p q, p < n → q < n → get1 n two q p = get1 n two p q)
    (hok : jwDCHOk tol n const one two = true) (m x : Nat) :
    den .qubit (jwDCH tol n const one two) [m] [x] = den .fermion (Spec.C04.dchOp n const one two) [m] [x] := by
  rw [jwDCH_eq_fold, den_fold_from .qubit tol _ _ _ _ hok, den_dchOp, den_mk_const]
  unfold dchImgs
  rw [List.map_append, List.sum_append, sum_flatMap, sum_flatMap]
  rw [sum_pairs_split (List.range n) (fun p q => get1 n one p q * termCoef .fermion [(p, 1), (q, 0)] [m] [x]),
    sum_pairs_split (List.range n) (fun p q =>
      get1 n two p q * termCoef .fermion [(p, 1), (p, 0), (q, 1), (q, 0)] [m] [x])]
  have ed : ((List.range n).map fun p =>
        ([mk .qubit [(p, 3)] (rl (-(mkRat 1 2)) * (get1 n one p p + get1 n two p p)),
          mk .qubit [] (C04.half * (get1 n one p p + get1 n two p p))].map fun img => den .qubit img [m] [x]).sum).sum
      = ((List.range n).map fun p => get1 n one p p * termCoef .fermion [(p, 1), (p, 0)] [m] [x]).sum
        + ((List.range n).map fun p =>
            get1 n two p p * termCoef .fermion [(p, 1), (p, 0), (p, 1), (p, 0)] [m] [x]).sum := by
    rw [← sum_add_map]
    congr 1; apply List.map_congr_left; intro p _
    rw [dch_diag, n_fermion, nn_fermion]
    cases m.testBit p <;> by_cases hx : m = x <;> simp [hx] <;> ring
  have ep : ((pairs n).map fun pq =>
        ([mk .qubit ([(pq.1, 1)] ++ zs (pq.1 + 1) pq.2 ++ [(pq.2, 1)]) (rl (mkRat 1 2 * (get1 n one pq.1 pq.2).re)),
          mk .qubit ([(pq.1, 2)] ++ zs (pq.1 + 1) pq.2 ++ [(pq.2, 2)]) (rl (mkRat 1 2 * (get1 n one pq.1 pq.2).re)),
          mk .qubit ([(pq.1, 2)] ++ zs (pq.1 + 1) pq.2 ++ [(pq.2, 1)]) (rl (mkRat 1 2 * (get1 n one pq.1 pq.2).im)),
          mk .qubit ([(pq.1, 1)] ++ zs (pq.1 + 1) pq.2 ++ [(pq.2, 2)]) (rl (-(mkRat 1 2) * (get1 n one pq.1 pq.2).im)),
          mk .qubit [(pq.1, 3), (pq.2, 3)] (C04.half * get1 n two pq.1 pq.2),
          mk .qubit [(pq.1, 3)] (rl (-(mkRat 1 2)) * get1 n two pq.1 pq.2),
          mk .qubit [(pq.2, 3)] (rl (-(mkRat 1 2)) * get1 n two pq.1 pq.2),
          mk .qubit [] (C04.half * get1 n two pq.1 pq.2)].map fun img => den .qubit img [m] [x]).sum).sum
      = ((combs2 (List.range n)).map fun ab =>
            get1 n one ab.1 ab.2 * termCoef .fermion [(ab.1, 1), (ab.2, 0)] [m] [x]
            + get1 n one ab.2 ab.1 * termCoef .fermion [(ab.2, 1), (ab.1, 0)] [m] [x]).sum
        + ((combs2 (List.range n)).map fun ab =>
            get1 n two ab.1 ab.2 * termCoef .fermion [(ab.1, 1), (ab.1, 0), (ab.2, 1), (ab.2, 0)] [m] [x]
            + get1 n two ab.2 ab.1 * termCoef .fermion [(ab.2, 1), (ab.2, 0), (ab.1, 1), (ab.1, 0)] [m] [x]).sum := by
    rw [← sum_add_map]
    unfold pairs
    congr 1; apply List.map_congr_left; intro pq hpq
    obtain ⟨p, q⟩ := pq
    obtain ⟨hlt, hqn⟩ := combs2_range_lt n p q hpq
    simp only
    rw [dch_pair _ _ p q m x hlt, h1 p q (by omega) hqn, h2 p q (by omega) hqn, nn_fermion, nn_fermion]
    have hc := hop_fermion_closed p q (get1 n one p q) m x (by omega)
    simp only [hlt, if_true] at hc
    rw [← hc, Bool.and_comm (m.testBit q) (m.testBit p)]
    cases m.testBit p <;> cases m.testBit q <;> by_cases hx : m = x <;> simp [hx] <;> ring
  rw [ed, ep]
  ring

end Sem
end OFV
