/- C18 — `_get_padding`: the bounded search of the Model finds the least admissible size. -/
import OFV.Model.C18
import OFV.Spec.C18
import Mathlib.NumberTheory.Bertrand

namespace OFV.Proofs.C18
open OFV.Model.C18 OFV.Spec.C18

theorem hasSmallDivisor_iff (nb t : Nat) :
    hasSmallDivisor nb t = true ↔ ∃ d, 2 ≤ d ∧ d < nb - 1 ∧ t % d = 0 := by
  simp only [hasSmallDivisor, List.any_eq_true, List.mem_range'_1, decide_eq_true_eq]
  constructor
  · rintro ⟨d, ⟨h1, h2⟩, h3⟩; exact ⟨d, h1, by omega, h3⟩
  · rintro ⟨d, h1, h2, h3⟩; exact ⟨d, ⟨h1, by omega⟩, h3⟩

theorem smallDivisor_iff (nb t : Nat) :
    smallDivisor nb t = true ↔ ∃ d, 2 ≤ d ∧ d < nb - 1 ∧ t % d = 0 := by
  simp only [smallDivisor, List.any_eq_true, List.mem_range, Bool.and_eq_true, decide_eq_true_eq,
    beq_iff_eq]
  constructor
  · rintro ⟨d, h1, h2, h3⟩; exact ⟨d, h2, h1, h3⟩
  · rintro ⟨d, h1, h2, h3⟩; exact ⟨d, h2, h1, h3⟩

theorem smallDivisor_eq (nb t : Nat) : smallDivisor nb t = hasSmallDivisor nb t := by
  rw [Bool.eq_iff_iff, smallDivisor_iff, hasSmallDivisor_iff]

theorem getPaddingAux_spec (nb : Nat) : ∀ fuel trial,
    (∃ t, trial ≤ t ∧ t < trial + fuel ∧ hasSmallDivisor nb t = false) →
    trial ≤ getPaddingAux nb fuel trial ∧ hasSmallDivisor nb (getPaddingAux nb fuel trial) = false ∧
      ∀ t, trial ≤ t → t < getPaddingAux nb fuel trial → hasSmallDivisor nb t = true := by
  intro fuel
  induction fuel with
  | zero => rintro trial ⟨t, h1, h2, _⟩; omega
  | succ fuel ih =>
    rintro trial ⟨t, h1, h2, h3⟩
    unfold getPaddingAux
    by_cases hd : hasSmallDivisor nb trial = true
    · simp only [hd, if_true]
      have hne : t ≠ trial := fun e => by rw [e, hd] at h3; cases h3
      obtain ⟨a, b, c⟩ := ih (trial + 1) ⟨t, by omega, by omega, h3⟩
      refine ⟨by omega, b, ?_⟩
      intro u hu1 hu2
      by_cases e : u = trial
      · rw [e]; exact hd
      · exact c u (by omega) hu2
    · simp only [hd]
      refine ⟨Nat.le_refl _, by simpa using hd, ?_⟩
      intro u hu1 hu2; simp at hu2; omega

/-- a prime above `num_bins` has no divisor in `[2, num_bins - 1)` -/
theorem prime_no_small_divisor (nb p : Nat) (hp : p.Prime) (h : nb ≤ p) : hasSmallDivisor nb p = false := by
  rw [Bool.eq_false_iff]
  intro hc
  obtain ⟨d, h1, h2, h3⟩ := (hasSmallDivisor_iff nb p).mp hc
  have hdvd : d ∣ p := Nat.dvd_of_mod_eq_zero h3
  rcases (Nat.dvd_prime hp).mp hdvd with e | e <;> omega

theorem getPadding_spec (nb size : Nat) :
    size ≤ getPadding nb size ∧ hasSmallDivisor nb (getPadding nb size) = false ∧
      ∀ t, size ≤ t → t < getPadding nb size → hasSmallDivisor nb t = true := by
  unfold getPadding
  apply getPaddingAux_spec
  by_cases hm : max nb size = 0
  · have h1 : nb = 0 := by omega
    have h2 : size = 0 := by omega
    subst h1 h2
    exact ⟨0, by omega, by omega, by simp [hasSmallDivisor]⟩
  · obtain ⟨p, hp, h1, h2⟩ := Nat.exists_prime_lt_and_le_two_mul (max nb size) hm
    exact ⟨p, by omega, by omega, prime_no_small_divisor nb p hp (by omega)⟩

end OFV.Proofs.C18
