/- C09: BinaryPolynomial(list of tuples) denotes the XOR over the summands of the product of
their integer factors (`'one'` factors are 1; an empty summand is dropped). -/
import OFV.Proofs.C09Ext4

namespace OFV.C09
open OFV.Model.C09 OFV.Spec.C09

/-- XOR over the monomials of an arbitrary Boolean weight -/
def gsum (g : Model.C09.Mono → Bool) (p : Poly) : Bool := p.foldr (fun t acc => xor (g t) acc) false

theorem gsum_append (g : Model.C09.Mono → Bool) (p q : Poly) : gsum g (p ++ q) = xor (gsum g p) (gsum g q) := by
  induction p with
  | nil => simp [gsum]
  | cons t r ih =>
    simp only [gsum, List.cons_append, List.foldr_cons] at ih ⊢
    rw [ih, bxor_assoc]

theorem gsum_erase (g : Model.C09.Mono → Bool) (p : Poly) (s : Model.C09.Mono) (h : s ∈ p) :
    gsum g (p.erase s) = xor (gsum g p) (g s) := by
  induction p with
  | nil => cases h
  | cons t r ih =>
    by_cases hts : t = s
    · subst hts
      simp only [List.erase_cons_head, gsum, List.foldr_cons]
      cases g t <;> cases List.foldr (fun t acc => xor (g t) acc) false r <;> rfl
    · have hs : s ∈ r := by
        cases h with
        | head => exact absurd rfl hts
        | tail _ h' => exact h'
      rw [List.erase_cons_tail (by simpa using hts)]
      simp only [gsum, List.foldr_cons] at ih ⊢
      rw [ih hs, bxor_assoc]

theorem gsum_sumRule (g : Model.C09.Mono → Bool) (p : Poly) (s : Model.C09.Mono) :
    gsum g (sumRule p s) = xor (gsum g p) (g s) := by
  unfold sumRule
  split
  · exact gsum_erase g p s ‹_›
  · rw [gsum_append]; simp [gsum]

/-- `_check_factor` keeps the value of the summand -/
theorem checkFactor_eval (w : Nat → Bool) (term : Model.C09.Mono) (f : Fac) (r : Model.C09.Mono)
    (h : checkFactor term f = .ok r) (hne : term ≠ []) : evalMono w r = evalMono w term ∧ r ≠ [] := by
  unfold checkFactor at h
  cases f with
  | none =>
    simp only at h
    split at h
    · next hlen =>
      split at h
      · simp only [Except.ok.injEq] at h
        subst h
        refine ⟨by rw [evalMono_canonTerm, evalMono_erase_none], canonTerm_ne_nil _ ?_⟩
        intro he
        have := congrArg List.length he
        rw [List.length_erase_of_mem ‹_›] at this
        simp at this; omega
      · cases h
    · simp only [Except.ok.injEq] at h
      subst h
      exact ⟨evalMono_canonTerm w term, canonTerm_ne_nil _ hne⟩
  | some i =>
    simp only [Except.ok.injEq] at h
    subst h
    exact ⟨evalMono_canonTerm w term, canonTerm_ne_nil _ hne⟩

theorem parseSummand_go (w : Nat → Bool) (l : List Fac) (cur r : Model.C09.Mono) (hne : cur ≠ [])
    (h : l.foldlM checkFactor cur = .ok r) : evalMono w r = evalMono w cur ∧ r ≠ [] := by
  induction l generalizing cur with
  | nil =>
    simp only [List.foldlM_nil, pure, Except.pure, Except.ok.injEq] at h
    subst h; exact ⟨rfl, hne⟩
  | cons f rest ih =>
    rw [List.foldlM_cons] at h
    cases hc : checkFactor cur f with
    | error e => simp [hc, bind, Except.bind] at h
    | ok c' =>
      simp only [hc, bind, Except.bind] at h
      obtain ⟨e1, n1⟩ := checkFactor_eval w cur f c' hc hne
      obtain ⟨e2, n2⟩ := ih c' n1 h
      exact ⟨e2.trans e1, n2⟩

/-- the parsed summand has the value of the raw summand; it is empty only for an empty summand -/
theorem parseSummand_sound (w : Nat → Bool) (s r : Model.C09.Mono) (h : parseSummand s = .ok r) :
    (!r.isEmpty && evalMono w r) = (!s.isEmpty && evalMono w s) := by
  unfold parseSummand at h
  by_cases hs : s = []
  · subst hs
    simp only [List.foldlM_nil, pure, Except.pure, Except.ok.injEq] at h
    subst h; rfl
  · obtain ⟨e, n⟩ := parseSummand_go w s s r hs h
    have h1 : r.isEmpty = false := by simpa [List.isEmpty_iff] using n
    have h2 : s.isEmpty = false := by simpa [List.isEmpty_iff] using hs
    rw [h1, h2, e]

theorem ofSeq_fold (w : Nat → Bool) (terms : List Model.C09.Mono) (acc ts : Poly)
    (h : terms.foldlM (fun acc s => do
      let s' ← parseSummand s
      pure (sumRule acc s')) acc = .ok ts) :
    gsum (fun t => !t.isEmpty && evalMono w t) ts
      = xor (gsum (fun t => !t.isEmpty && evalMono w t) acc) (gsum (fun t => !t.isEmpty && evalMono w t) terms) := by
  induction terms generalizing acc with
  | nil =>
    simp only [List.foldlM_nil, pure, Except.pure, Except.ok.injEq] at h
    subst h; simp [gsum]
  | cons s rest ih =>
    rw [List.foldlM_cons] at h
    cases hp : parseSummand s with
    | error e => simp [hp, bind, Except.bind] at h
    | ok s' =>
      simp only [hp, bind, Except.bind, pure, Except.pure] at h
      rw [ih _ h, gsum_sumRule, parseSummand_sound w s s' hp]
      simp only [gsum, List.foldr_cons]
      rw [bxor_assoc]

/-- `BinaryPolynomial([tuple, …])` (no negative factor): the value is the XOR over the non-empty
summands of the product of their integer factors -/
theorem ofSeq_sound' (w : Nat → Bool) (terms : List Model.C09.Mono) (p : Poly) (h : ofSeq false terms = .ok p) :
    evalPoly w p = gsum (fun t => !t.isEmpty && evalMono w t) terms := by
  unfold ofSeq at h
  simp only [Bool.false_eq_true, if_false, bind, Except.bind] at h
  split at h
  · cases h
  · next ts hts =>
    simp only [pure, Except.pure, Except.ok.injEq] at h
    subst h
    rw [eval_checkTerms]
    have := ofSeq_fold w terms [] ts hts
    simpa [gsum] using this

end OFV.C09
