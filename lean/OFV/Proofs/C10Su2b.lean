/- C10: [S^z, S^±] = ± S^± for the Model operators (tolerance-free, every number of sites): S^z is diagonal and every
term of S^+ (S^-) raises (lowers) its eigenvalue by one. -/
import OFV.Proofs.C10Su2

namespace OFV.C10
open OFV.Model OFV.Model.C10 OFV.Spec OFV.Spec.C10
open OFV.Proofs.C03 (contrib melF_eq_sum)

/-- number of set bits of `s` among the positions `g 0, …, g (n-1)` -/
def cntG (g : Nat → Nat) (n s : Nat) : Nat := ((List.range n).filter fun j => s.testBit (g j)).length

theorem cntG_succ (g : Nat → Nat) (n s : Nat) :
    cntG g (n + 1) s = cntG g n s + (if s.testBit (g n) then 1 else 0) := by
  unfold cntG
  rw [List.range_succ, List.filter_append, List.length_append]
  by_cases h : s.testBit (g n) = true <;> simp [h]

theorem cntG_flip_out (g : Nat → Nat) (p : Nat) (hp : ∀ j, g j ≠ p) (n s : Nat) :
    cntG g n (s ^^^ (1 <<< p)) = cntG g n s := by
  induction n with
  | zero => rfl
  | succ k ih => rw [cntG_succ, cntG_succ, ih, testBit_xflip_ne s p (g k) (fun e => hp k e.symm)]

theorem cntG_flip_set (g : Nat → Nat) (hg : ∀ a b, g a = g b → a = b) (i s : Nat) (hb : s.testBit (g i) = false)
    (n : Nat) : cntG g n (s ^^^ (1 <<< g i)) = cntG g n s + (if i < n then 1 else 0) := by
  induction n with
  | zero => simp [cntG]
  | succ k ih =>
    rw [cntG_succ, cntG_succ, ih]
    by_cases hik : k = i
    · subst hik
      rw [testBit_xflip, hb]
      simp
    · rw [testBit_xflip_ne s (g i) (g k) (fun e => hik (hg _ _ e).symm)]
      by_cases h1 : i < k
      · simp [h1, show i < k + 1 by omega]; omega
      · simp [h1, show ¬ i < k + 1 by omega]

theorem cntG_flip_clear (g : Nat → Nat) (hg : ∀ a b, g a = g b → a = b) (i s : Nat) (hb : s.testBit (g i) = true)
    (n : Nat) : cntG g n (s ^^^ (1 <<< g i)) + (if i < n then 1 else 0) = cntG g n s := by
  induction n with
  | zero => simp [cntG]
  | succ k ih =>
    rw [cntG_succ, cntG_succ, ← ih]
    by_cases hik : k = i
    · subst hik
      rw [testBit_xflip, hb]
      simp
    · rw [testBit_xflip_ne s (g i) (g k) (fun e => hik (hg _ _ e).symm)]
      by_cases h1 : i < k
      · simp [h1, show i < k + 1 by omega]; omega
      · simp [h1, show ¬ i < k + 1 by omega]

/-- the action of one hopping term `a†_u a_d` (`u ≠ d`) -/
theorem hop_image (u d s k t : Nat) (hud : u ≠ d) (h : actFTerm [(u, 1), (d, 0)] s = some (k, t)) :
    s.testBit d = true ∧ s.testBit u = false ∧ t = (s ^^^ (1 <<< d)) ^^^ (1 <<< u) := by
  simp only [actFTerm, List.foldr_cons, List.foldr_nil] at h
  by_cases hd : s.testBit d = true
  · have h1 : actF d 0 s = some (countBelow s d % 2, s ^^^ (1 <<< d)) := by simp [actF, hd]
    rw [h1] at h
    simp only at h
    have hbu : (s ^^^ (1 <<< d)).testBit u = s.testBit u := testBit_xflip_ne s d u (fun e => hud e.symm)
    by_cases hu : s.testBit u = true
    · have h2 : actF u 1 (s ^^^ (1 <<< d)) = none := by simp [actF, hbu, hu]
      rw [h2] at h; cases h
    · have hu' : s.testBit u = false := by simpa using hu
      have h2 : actF u 1 (s ^^^ (1 <<< d)) =
          some (countBelow (s ^^^ (1 <<< d)) u % 2, (s ^^^ (1 <<< d)) ^^^ (1 <<< u)) := by simp [actF, hbu, hu']
      rw [h2] at h
      simp only [Option.some.injEq, Prod.mk.injEq] at h
      exact ⟨hd, hu', h.2.symm⟩
  · have hd' : s.testBit d = false := by simpa using hd
    have h1 : actF d 0 s = none := by simp [actF, hd']
    rw [h1] at h; cases h

/-- the eigenvalue of `sz_operator` on a basis state: `(#up - #down) / 2` -/
def szEig (n s : Nat) : GQ :=
  ⟨(cntG upIndex n s : Rat) * mkRat 1 2 - (cntG downIndex n s : Rat) * mkRat 1 2, 0⟩

theorem up_inj : ∀ a b, upIndex a = upIndex b → a = b := by intro a b h; unfold upIndex at h; omega
theorem down_inj : ∀ a b, downIndex a = downIndex b → a = b := by intro a b h; unfold downIndex at h; omega
theorem up_ne_down (i j : Nat) : upIndex j ≠ downIndex i := by unfold upIndex downIndex; omega
theorem down_ne_up (i j : Nat) : downIndex j ≠ upIndex i := by unfold upIndex downIndex; omega

theorem half_rat : mkRat 1 2 = (1 : Rat) / 2 := by rw [Rat.mkRat_eq_div]; norm_num

/-- a term of `S^+` raises the `S^z` eigenvalue by one -/
theorem hop_up_eig (n i s k t : Nat) (hi : i < n)
    (h : actFTerm [(upIndex i, 1), (downIndex i, 0)] s = some (k, t)) : szEig n t - szEig n s = 1 := by
  obtain ⟨hd, hu, rfl⟩ := hop_image (upIndex i) (downIndex i) s k t (up_ne_down i i) h
  have hu1 : (s ^^^ (1 <<< downIndex i)).testBit (upIndex i) = false := by
    rw [testBit_xflip_ne s (downIndex i) (upIndex i) (down_ne_up i i)]; exact hu
  have e1 := cntG_flip_set upIndex up_inj i (s ^^^ (1 <<< downIndex i)) hu1 n
  have e2 := cntG_flip_out upIndex (downIndex i) (fun j => up_ne_down i j) n s
  have e3 := cntG_flip_out downIndex (upIndex i) (fun j => down_ne_up i j) n (s ^^^ (1 <<< downIndex i))
  have e4 := cntG_flip_clear downIndex down_inj i s hd n
  rw [if_pos hi] at e1 e4
  unfold szEig
  rw [e1, e2, e3, ← e4]
  apply GQ.ext
  · simp only [GQ.sub_re, GQ.one_re, half_rat]; push_cast; ring
  · simp

/-- a term of `S^-` lowers it by one -/
theorem hop_down_eig (n i s k t : Nat) (hi : i < n)
    (h : actFTerm [(downIndex i, 1), (upIndex i, 0)] s = some (k, t)) : szEig n t - szEig n s = -1 := by
  obtain ⟨hd, hu, rfl⟩ := hop_image (downIndex i) (upIndex i) s k t (down_ne_up i i) h
  have hu1 : (s ^^^ (1 <<< upIndex i)).testBit (downIndex i) = false := by
    rw [testBit_xflip_ne s (upIndex i) (downIndex i) (up_ne_down i i)]; exact hu
  have e1 := cntG_flip_set downIndex down_inj i (s ^^^ (1 <<< upIndex i)) hu1 n
  have e2 := cntG_flip_out downIndex (upIndex i) (fun j => down_ne_up i j) n s
  have e3 := cntG_flip_out upIndex (downIndex i) (fun j => up_ne_down i j) n (s ^^^ (1 <<< upIndex i))
  have e4 := cntG_flip_clear upIndex up_inj i s hd n
  rw [if_pos hi] at e1 e4
  unfold szEig
  rw [e1, e2, e3, ← e4]
  apply GQ.ext
  · have : ((-1 : GQ)).re = -1 := rfl
    simp only [GQ.sub_re, half_rat, this]; push_cast; ring
  · have : ((-1 : GQ)).im = 0 := by simp
    simp [this]

theorem sum_mul_left_range (n : Nat) (c : GQ) (F : Nat → GQ) (h : ∀ i, i < n → c * F i = F i) :
    c * ((List.range n).map F).sum = ((List.range n).map F).sum := by
  rw [← sum_mul_left]
  congr 1
  apply List.map_congr_left
  intro i hi
  exact h i (List.mem_range.mp hi)

theorem sum_mul_left_range_neg (n : Nat) (c : GQ) (F : Nat → GQ) (h : ∀ i, i < n → c * F i = -F i) :
    c * ((List.range n).map F).sum = -((List.range n).map F).sum := by
  rw [← sum_mul_left]
  have : ((List.range n).map fun i => c * F i) = (List.range n).map fun i => (-1 : GQ) * F i := by
    apply List.map_congr_left
    intro i hi
    rw [h i (List.mem_range.mp hi)]; ring
  rw [this, sum_mul_left]; ring

/-- `[S^z, S^+] = S^+`: as `S^z` is diagonal, `(σ(t) - σ(s)) ⟨t|S^+|s⟩ = ⟨t|S^+|s⟩` -/
theorem sz_splus_comm (n t s : Nat) :
    (szEig n t - szEig n s) * melF (sPlus 0 n) t s = melF (sPlus 0 n) t s := by
  rw [(ladder_formulas n t s).1, melF_eq_sum, List.map_map]
  apply sum_mul_left_range
  intro i hi
  simp only [Function.comp, contrib]
  cases h : actFTerm [(upIndex i, 1), (downIndex i, 0)] s with
  | none => simp
  | some ks =>
    obtain ⟨k, s'⟩ := ks
    simp only
    by_cases he : s' = t
    · subst he
      rw [hop_up_eig n i s k s' hi h]; simp
    · simp [he]

/-- `[S^z, S^-] = -S^-` -/
theorem sz_sminus_comm (n t s : Nat) :
    (szEig n t - szEig n s) * melF (sMinus 0 n) t s = -melF (sMinus 0 n) t s := by
  rw [(ladder_formulas n t s).2, melF_eq_sum, List.map_map]
  apply sum_mul_left_range_neg
  intro i hi
  simp only [Function.comp, contrib]
  cases h : actFTerm [(downIndex i, 1), (upIndex i, 0)] s with
  | none => simp
  | some ks =>
    obtain ⟨k, s'⟩ := ks
    simp only
    by_cases he : s' = t
    · subst he
      rw [hop_down_eig n i s k s' hi h]; simp
    · simp [he]

/-- `szEig` is the diagonal of the Model's `sz_operator` -/
theorem melF_sz_eig (n t s : Nat) : melF (Model.C10.sz 0 n) t s = if t = s then szEig n s else 0 := by
  rw [melF_sz 0 n (isSmall0 _) (isSmall0 _)]
  split
  · exact occSum_szList n s
  · rfl

end OFV.C10
